#!/bin/sh
# runs every claimed check on the current tree; prints one line per property and fails if any alarm is raised
cd "$(dirname "$0")/.."
rc=0
for p in $(python3 -c "import json;print(' '.join(c['property_id'] for c in json.load(open('MANIFEST.json'))['checks']))"); do
  out=$(./check $p 2>&1); r=$?
  echo "$out" | tail -1
  if [ $r -ne 0 ]; then rc=1; echo "$out" | grep -E "VIOLATION|ANALYSIS-ERROR|Traceback" | head -5; fi
done
exit $rc

#!/usr/bin/env python3
"""Run checks against a mutated scratch copy of /repo.

  selftest/mutate.py [--patch FILE | --sub FILE 'OLD' 'NEW' [--count N]]... -- C02 C10 ...

The copy lives under /tmp and is removed afterwards; /repo is never touched.
"""
import os
import shutil
import subprocess
import sys
import tempfile

VERIF = os.path.dirname(os.path.dirname(os.path.abspath(__file__)))


def main():
    argv = sys.argv[1:]
    if "--" not in argv:
        print(__doc__)
        return 2
    i = argv.index("--")
    ops, props = argv[:i], argv[i + 1:]
    tmp = tempfile.mkdtemp(prefix="mut-")
    repo = os.path.join(tmp, "repo")
    try:
        subprocess.check_call(["rsync", "-a", "--exclude", "target", "--exclude", ".git", "/repo/", repo + "/"])
        j = 0
        while j < len(ops):
            if ops[j] == "--patch":
                subprocess.check_call(["patch", "-p1", "-s", "-i", os.path.abspath(ops[j + 1])], cwd=repo)
                j += 2
            elif ops[j] == "--sub":
                f, old, new = ops[j + 1], ops[j + 2], ops[j + 3]
                j += 4
                count = 1
                if j < len(ops) and ops[j] == "--count":
                    count = int(ops[j + 1])
                    j += 2
                path = os.path.join(repo, f)
                s = open(path).read()
                if s.count(old) < 1:
                    print("mutate: pattern not found in %s: %r" % (f, old))
                    return 2
                if count == 0:
                    s = s.replace(old, new)
                else:
                    # replace the count-th occurrence only
                    idx = -1
                    for _ in range(count):
                        idx = s.find(old, idx + 1)
                        if idx < 0:
                            print("mutate: occurrence %d not found" % count)
                            return 2
                    s = s[:idx] + new + s[idx + len(old):]
                open(path, "w").write(s)
            else:
                print("bad op", ops[j])
                return 2
        env = dict(os.environ)
        env["VERIF_REPO"] = repo
        env["VERIF_CACHE"] = os.path.join(tmp, "cache")
        env.setdefault("VERIF_SLOT", "alt")
        env["VERIF_NO_EVIDENCE"] = "1"
        rc = 0
        for p in props:
            r = subprocess.run([os.path.join(VERIF, "check"), p], env=env, cwd=VERIF)
            rc = max(rc, r.returncode)
        return rc
    finally:
        shutil.rmtree(tmp, ignore_errors=True)


if __name__ == "__main__":
    sys.exit(main())

#!/usr/bin/env python3
"""Runs the checker-sensitivity corpus: every entry of selftest/corpus.json (and every seeded change under /verif/seeded)
is applied to a scratch copy of /repo and the named checks are run against the copy.

  selftest/run_corpus.py [-j N] [--only REGEX] [--no-seeded]

kinds:  mutant   - breaks the property; the check must report a VIOLATION (expect "caught"), unless the entry documents a
                   miss (expect "missed": a limit of the rule, stated in DESIGN.md)
        refactor - behaviour preserving; every named check must stay silent
ops:    ["sub", file, old, new(, occurrence)]   replace the n-th (default 1st; 0 = all) occurrence
        ["revert", commit]                      re-introduce what a `fix:` commit of /repo repaired
        ["patch", path relative to /verif]      apply a unified diff

/repo itself is never touched; copies live under /tmp and are removed.  Results go to selftest/corpus_results.json.
"""
import concurrent.futures
import json
import os
import re
import shutil
import subprocess
import sys
import tempfile
import threading

VERIF = os.path.dirname(os.path.dirname(os.path.abspath(__file__)))
REPO = "/repo"


def apply_ops(repo, ops):
    for op in ops:
        if op[0] == "sub":
            f, old, new = op[1], op[2], op[3]
            occ = op[4] if len(op) > 4 else 1
            path = os.path.join(repo, f)
            s = open(path).read()
            if s.count(old) < max(occ, 1):
                return "pattern not found in %s: %r" % (f, old[:60])
            if occ == 0:
                s = s.replace(old, new)
            else:
                idx = -1
                for _ in range(occ):
                    idx = s.find(old, idx + 1)
                s = s[:idx] + new + s[idx + len(old):]
            open(path, "w").write(s)
        elif op[0] == "revert":
            d = subprocess.run(["git", "-C", REPO, "diff", op[1], op[1] + "~1"], capture_output=True, text=True)
            if d.returncode != 0:
                return "git diff failed for " + op[1]
            r = subprocess.run(["patch", "-p1", "-s", "--fuzz=3", "--no-backup-if-mismatch"], input=d.stdout, cwd=repo, capture_output=True, text=True)
            if r.returncode != 0:
                return "revert of %s does not apply: %s" % (op[1], (r.stdout + r.stderr)[-200:])
        elif op[0] == "patch":
            r = subprocess.run(["patch", "-p1", "-s", "--no-backup-if-mismatch", "-i", os.path.join(VERIF, op[1])], cwd=repo, capture_output=True, text=True)
            if r.returncode != 0:
                return "patch %s does not apply: %s" % (op[1], (r.stdout + r.stderr)[-200:])
        else:
            return "bad op %r" % (op,)
    return None


slots = None
slot_lock = threading.Lock()


def run_entry(e):
    with slot_lock:
        slot = slots.pop()
    tmp = tempfile.mkdtemp(prefix="corpus-")
    try:
        repo = os.path.join(tmp, "repo")
        subprocess.check_call(["rsync", "-a", "--exclude", "target", "--exclude", ".git", REPO + "/", repo + "/"])
        err = apply_ops(repo, e["ops"])
        res = {"id": e["id"], "kind": e.get("kind", "mutant"), "props": e["props"], "expect": e.get("expect", "caught" if e.get("kind", "mutant") == "mutant" else "silent")}
        if err:
            res.update(status="inapplicable", detail=err)
            return res
        env = dict(os.environ)
        env.update(VERIF_REPO=repo, VERIF_CACHE=os.path.join(tmp, "cache"), VERIF_SLOT=slot, VERIF_NO_EVIDENCE="1")
        hits = []
        errors = []
        for p in e["props"]:
            r = subprocess.run([os.path.join(VERIF, "check"), p], env=env, cwd=VERIF, capture_output=True, text=True)
            out = r.stdout + r.stderr
            if r.returncode not in (0, 1):
                errors.append("%s: exit %d: %s" % (p, r.returncode, out.strip()[-300:]))
            for m in re.finditer(r"^  rule (\S+) at (\S+): (.*)$", out, re.M):
                hits.append({"property": p, "rule": m.group(1), "at": m.group(2), "what": m.group(3)[:220]})
        if errors:
            res.update(status="error", detail="; ".join(errors)[:600])
        elif hits:
            res.update(status="caught", hits=hits[:6], n_hits=len(hits))
        else:
            res.update(status="silent")
        return res
    finally:
        shutil.rmtree(tmp, ignore_errors=True)
        with slot_lock:
            slots.append(slot)


def main():
    global slots
    argv = sys.argv[1:]
    jobs = 8
    only = None
    seeded = True
    while argv:
        a = argv.pop(0)
        if a == "-j":
            jobs = int(argv.pop(0))
        elif a == "--only":
            only = re.compile(argv.pop(0))
        elif a == "--no-seeded":
            seeded = False
    slots = ["w%d" % i for i in range(jobs)]
    with open(os.path.join(VERIF, "selftest", "corpus.json")) as fh:
        corpus = json.load(fh)["entries"]
    sdir = os.path.join(VERIF, "seeded")
    if seeded and os.path.isdir(sdir):
        for d in sorted(os.listdir(sdir)):
            mp = os.path.join(sdir, d, "meta.json")
            if os.path.exists(mp):
                meta = json.load(open(mp))
                corpus.append({"id": "seeded/" + d, "kind": "mutant", "props": meta.get("run_checks") or [meta["property"]],
                               "expect": meta.get("expect", "caught"), "ops": [["patch", "seeded/%s/patch.diff" % d]]})
    rdir = os.path.join(VERIF, "seeded_refactors")
    if seeded and os.path.isdir(rdir):
        allp = [c["property_id"] for c in json.load(open(os.path.join(VERIF, "MANIFEST.json")))["checks"]]
        for d in sorted(os.listdir(rdir)):
            if os.path.exists(os.path.join(rdir, d, "patch.diff")):
                corpus.append({"id": "seeded_refactors/" + d, "kind": "refactor", "props": allp, "expect": "silent",
                               "ops": [["patch", "seeded_refactors/%s/patch.diff" % d]]})
    if only:
        corpus = [e for e in corpus if only.search(e["id"])]
    results = []
    with concurrent.futures.ThreadPoolExecutor(jobs) as ex:
        for r in ex.map(run_entry, corpus):
            results.append(r)
            good = (r["status"] == r["expect"])
            first = r.get("hits", [{}])[0]
            print("%-4s %-34s %-9s expect=%-7s %s" % ("ok" if good else "BAD", r["id"], r["status"], r["expect"],
                                                     (first.get("rule", "") + " " + first.get("what", "")[:90]) if r["status"] == "caught" else r.get("detail", "")[:120]))
            sys.stdout.flush()
    bad = [r for r in results if r["status"] != r["expect"]]
    if not only:
        with open(os.path.join(VERIF, "selftest", "corpus_results.json"), "w") as fh:
            json.dump({"results": results, "summary": {"entries": len(results), "as_expected": len(results) - len(bad)}}, fh, indent=1)
    print("%d entries, %d as expected, %d not" % (len(results), len(results) - len(bad), len(bad)))
    return 1 if bad else 0


if __name__ == "__main__":
    sys.exit(main())

#!/bin/bash
# run_seeded.sh <dir with patch.diff> [checks...] : applies a seeded change to /repo, runs the checks, undoes it straight away.
# Evidence of the real tree is not overwritten (VERIF_NO_EVIDENCE).
d=$1; shift
cd /verif
if [ -n "$(git -C /repo status --porcelain)" ]; then echo "/repo is not clean"; exit 2; fi
checks="$@"
[ -z "$checks" ] && checks=$(python3 -c "import json;print(' '.join(c['property_id'] for c in json.load(open('MANIFEST.json'))['checks']))")
git -C /repo apply $d/patch.diff || exit 2
trap 'git -C /repo checkout -- .' EXIT
for p in $checks; do
  out=$(VERIF_NO_EVIDENCE=1 ./check $p 2>&1); r=$?
  if [ $r -ne 0 ]; then echo "== $p exit $r"; echo "$out" | grep -E "^  rule|ANALYSIS|Traceback|Error" | cut -c1-400 | head -6; fi
done
echo "== done $(basename $d)"

// mirfacts: rustc_private driver that serialises MIR of the crate being compiled as JSON.
// Deliberately dumb: no rule logic lives here (see /verif/DESIGN.md section 2).
//
// Usage (as RUSTC_WORKSPACE_WRAPPER): mirfacts <path-to-rustc> <rustc args...>
// Environment: MIRFACTS_OUT=<dir> (required to emit), MIRFACTS_NONCE=<string>.
#![feature(rustc_private)]
#![allow(clippy::all)]

extern crate rustc_abi;
extern crate rustc_driver;
extern crate rustc_hir;
extern crate rustc_interface;
extern crate rustc_middle;
extern crate rustc_session;
extern crate rustc_span;

use rustc_driver::{Callbacks, Compilation};
use rustc_hir::def::DefKind;
use rustc_hir::def_id::{DefId, LocalDefId};
use rustc_middle::mir::{
    AggregateKind, AssertKind, Body, BorrowKind, CastKind, Const, ConstOperand, Operand,
    Place, PlaceTy, ProjectionElem, Rvalue, Statement, StatementKind, Terminator, TerminatorKind,
    UnwindAction, VarDebugInfoContents,
};
use rustc_middle::ty::print::with_no_trimmed_paths;
use rustc_middle::ty::{self, Instance, Ty, TyCtxt, TypingEnv, TypeVisitableExt};
use rustc_span::{ExpnKind, MacroKind, Span};
use std::fmt::Write as _;

// ---------------------------------------------------------------- json helpers

fn js(s: &str) -> String {
    let mut o = String::with_capacity(s.len() + 2);
    o.push('"');
    for c in s.chars() {
        match c {
            '"' => o.push_str("\\\""),
            '\\' => o.push_str("\\\\"),
            '\n' => o.push_str("\\n"),
            '\r' => o.push_str("\\r"),
            '\t' => o.push_str("\\t"),
            c if (c as u32) < 0x20 => {
                let _ = write!(o, "\\u{:04x}", c as u32);
            }
            c => o.push(c),
        }
    }
    o.push('"');
    o
}

fn jopt(s: Option<String>) -> String {
    match s {
        Some(s) => js(&s),
        None => "null".to_string(),
    }
}

fn jarr(items: Vec<String>) -> String {
    let mut o = String::from("[");
    for (i, it) in items.iter().enumerate() {
        if i > 0 {
            o.push(',');
        }
        o.push_str(it);
    }
    o.push(']');
    o
}

struct Obj(String);
impl Obj {
    fn new() -> Self {
        Obj(String::from("{"))
    }
    fn raw(mut self, k: &str, v: String) -> Self {
        if self.0.len() > 1 {
            self.0.push(',');
        }
        self.0.push_str(&js(k));
        self.0.push(':');
        self.0.push_str(&v);
        self
    }
    fn s(self, k: &str, v: &str) -> Self {
        self.raw(k, js(v))
    }
    fn b(self, k: &str, v: bool) -> Self {
        self.raw(k, if v { "true".into() } else { "false".into() })
    }
    fn n(self, k: &str, v: usize) -> Self {
        self.raw(k, v.to_string())
    }
    fn end(mut self) -> String {
        self.0.push('}');
        self.0
    }
}

// ---------------------------------------------------------------- context

struct Cx<'tcx> {
    tcx: TyCtxt<'tcx>,
}

impl<'tcx> Cx<'tcx> {
    fn path(&self, def_id: DefId) -> String {
        with_no_trimmed_paths!(self.tcx.def_path_str(def_id))
    }

    fn ty(&self, ty: Ty<'tcx>) -> String {
        with_no_trimmed_paths!(ty.to_string())
    }

    fn span(&self, span: Span) -> String {
        let sm = self.tcx.sess.source_map();
        let mut o = Obj::new();
        let show = |sp: Span| -> String {
            let lo = sm.lookup_char_pos(sp.lo());
            let hi = sm.lookup_char_pos(sp.hi());
            let name = match &lo.file.name {
                rustc_span::FileName::Real(r) => match r.local_path() {
                    Some(p) => p.to_string_lossy().to_string(),
                    None => format!("{:?}", lo.file.name),
                },
                other => format!("{:?}", other),
            };
            format!("{}:{}:{}:{}:{}", name, lo.line, lo.col.0 + 1, hi.line, hi.col.0 + 1)
        };
        o = o.s("s", &show(span));
        if span.from_expansion() {
            let ed = span.ctxt().outer_expn_data();
            let (kind, name) = match ed.kind {
                ExpnKind::Root => ("root", String::new()),
                ExpnKind::Macro(MacroKind::Bang, n) => ("bang", n.to_string()),
                ExpnKind::Macro(MacroKind::Attr, n) => ("attr", n.to_string()),
                ExpnKind::Macro(MacroKind::Derive, n) => ("derive", n.to_string()),
                ExpnKind::AstPass(_) => ("astpass", String::new()),
                ExpnKind::Desugaring(d) => ("desugar", format!("{:?}", d)),
            };
            let local = ed.macro_def_id.map(|d| d.is_local()).unwrap_or(false);
            // outermost call site (in user-written code)
            let cs = span.source_callsite();
            // chain of macro names from inner to outer
            let mut chain = Vec::new();
            let mut cur = span;
            let mut guard = 0;
            while cur.from_expansion() && guard < 32 {
                let d = cur.ctxt().outer_expn_data();
                let (k, n) = match d.kind {
                    ExpnKind::Macro(MacroKind::Bang, n) => ("bang", n.to_string()),
                    ExpnKind::Macro(MacroKind::Attr, n) => ("attr", n.to_string()),
                    ExpnKind::Macro(MacroKind::Derive, n) => ("derive", n.to_string()),
                    ExpnKind::Desugaring(x) => ("desugar", format!("{:?}", x)),
                    ExpnKind::AstPass(_) => ("astpass", String::new()),
                    ExpnKind::Root => ("root", String::new()),
                };
                let l = d.macro_def_id.map(|d| d.is_local()).unwrap_or(false);
                chain.push(js(&format!("{}:{}:{}", k, n, if l { "local" } else { "extern" })));
                cur = d.call_site;
                guard += 1;
            }
            o = o.raw(
                "exp",
                Obj::new()
                    .s("kind", kind)
                    .s("name", &name)
                    .b("local", local)
                    .s("cs", &show(cs))
                    .raw("chain", jarr(chain))
                    .end(),
            );
        }
        o.end()
    }

    fn place_ty(&self, body: &Body<'tcx>, place: &Place<'tcx>) -> Ty<'tcx> {
        place.ty(&body.local_decls, self.tcx).ty
    }

    fn place(&self, body: &Body<'tcx>, place: &Place<'tcx>) -> String {
        let tcx = self.tcx;
        let mut pty = PlaceTy::from_ty(body.local_decls[place.local].ty);
        let mut projs = Vec::new();
        for elem in place.projection.iter() {
            let p = match elem {
                ProjectionElem::Deref => Obj::new().s("k", "deref").end(),
                ProjectionElem::Field(f, fty) => {
                    let mut name = format!("{}", f.index());
                    match pty.ty.kind() {
                        ty::Adt(adt, _) => {
                            let vi = pty.variant_index.unwrap_or(rustc_abi::FIRST_VARIANT);
                            if adt.is_enum() || adt.is_struct() || adt.is_union() {
                                if let Some(v) = adt.variants().get(vi) {
                                    if let Some(fd) = v.fields.get(f) {
                                        name = fd.name.to_string();
                                    }
                                }
                            }
                        }
                        _ => {}
                    }
                    Obj::new()
                        .s("k", "field")
                        .n("i", f.index())
                        .s("n", &name)
                        .s("ty", &self.ty(fty))
                        .s("of", &self.ty(pty.ty))
                        .end()
                }
                ProjectionElem::Index(l) => Obj::new()
                    .s("k", "index")
                    .n("l", l.index())
                    .s("ty", &self.ty(pty.projection_ty(tcx, elem).ty))
                    .end(),
                ProjectionElem::ConstantIndex { offset, min_length, from_end } => Obj::new()
                    .s("k", "cindex")
                    .s("ty", &self.ty(pty.projection_ty(tcx, elem).ty))
                    .n("offset", offset as usize)
                    .n("min_length", min_length as usize)
                    .b("from_end", from_end)
                    .end(),
                ProjectionElem::Subslice { from, to, from_end } => Obj::new()
                    .s("k", "subslice")
                    .n("from", from as usize)
                    .n("to", to as usize)
                    .b("from_end", from_end)
                    .end(),
                ProjectionElem::Downcast(name, vi) => {
                    let mut n = name.map(|s| s.to_string()).unwrap_or_default();
                    if n.is_empty() {
                        if let ty::Adt(adt, _) = pty.ty.kind() {
                            if let Some(v) = adt.variants().get(vi) {
                                n = v.name.to_string();
                            }
                        }
                    }
                    Obj::new().s("k", "downcast").s("n", &n).n("vi", vi.index()).end()
                }
                other => Obj::new().s("k", "other").s("s", &format!("{:?}", other)).end(),
            };
            projs.push(p);
            pty = pty.projection_ty(tcx, elem);
        }
        Obj::new().n("l", place.local.index()).raw("p", jarr(projs)).end()
    }

    fn fn_info(&self, owner: DefId, def_id: DefId, args: ty::GenericArgsRef<'tcx>) -> String {
        let tcx = self.tcx;
        let mut o = Obj::new().s("def", &self.path(def_id));
        o = o.s("full", &with_no_trimmed_paths!(tcx.def_path_str_with_args(def_id, args)));
        o = o.b("local", def_id.is_local());
        o = o.s("crate", tcx.crate_name(def_id.krate).as_str());
        o = o.s("name", &tcx.opt_item_name(def_id).map(|s| s.to_string()).unwrap_or_default());
        o = o.raw("args", jarr(args.iter().map(|a| js(&with_no_trimmed_paths!(a.to_string()))).collect()));
        let dk = tcx.def_kind(def_id);
        o = o.s("kind", &format!("{:?}", dk));
        if matches!(dk, DefKind::AssocFn | DefKind::AssocConst { .. }) {
            let ai = tcx.associated_item(def_id);
            match ai.container {
                ty::AssocContainer::Trait => {
                    let tr = tcx.parent(def_id);
                    o = o.s("trait", &self.path(tr));
                    if args.len() > 0 {
                        if let Some(t) = args.get(0).and_then(|a| a.as_type()) {
                            o = o.s("self_ty", &self.ty(t));
                        }
                    }
                }
                _ => {
                    let imp = tcx.parent(def_id);
                    if matches!(tcx.def_kind(imp), DefKind::Impl { .. }) {
                        let st = tcx.type_of(imp).instantiate_identity().skip_norm_wip();
                        o = o.s("impl_self_ty", &self.ty(st));
                        if let Some(tr) = tcx.impl_opt_trait_ref(imp) {
                            let tr = tr.instantiate_identity().skip_norm_wip();
                            o = o.s("impl_trait", &self.path(tr.def_id));
                        }
                    }
                }
            }
        }
        // resolution
        if matches!(dk, DefKind::Fn | DefKind::AssocFn | DefKind::Ctor(..) | DefKind::Closure) {
            let env = TypingEnv::post_analysis(tcx, owner);
            let ok = std::panic::catch_unwind(std::panic::AssertUnwindSafe(|| {
                Instance::try_resolve(tcx, env, def_id, args)
            }));
            if let Ok(Ok(Some(inst))) = ok {
                let rd = inst.def_id();
                o = o.s("resolved", &self.path(rd));
                o = o.s("resolved_kind", &format!("{:?}", std::mem::discriminant(&inst.def)));
                o = o.b("resolved_local", rd.is_local());
                let k = match inst.def {
                    ty::InstanceKind::Item(_) => "item",
                    ty::InstanceKind::Virtual(..) => "virtual",
                    ty::InstanceKind::Intrinsic(_) => "intrinsic",
                    ty::InstanceKind::ClosureOnceShim { .. } => "closure_once_shim",
                    ty::InstanceKind::FnPtrShim(..) => "fnptr_shim",
                    ty::InstanceKind::CloneShim(..) => "clone_shim",
                    ty::InstanceKind::DropGlue(..) => "drop_glue",
                    ty::InstanceKind::ReifyShim(..) => "reify_shim",
                    ty::InstanceKind::VTableShim(..) => "vtable_shim",
                    _ => "other",
                };
                o = o.s("rk", k);
            }
        }
        o.end()
    }

    fn constant(&self, owner: DefId, c: &ConstOperand<'tcx>) -> String {
        let tcx = self.tcx;
        let ty = c.const_.ty();
        let mut o = Obj::new().s("k", "const").s("ty", &self.ty(ty));
        o = o.s("s", &with_no_trimmed_paths!(format!("{}", c.const_)));
        if let ty::FnDef(def_id, args) = ty.kind() {
            o = o.raw("fn", self.fn_info(owner, *def_id, args));
            return o.end();
        }
        if let Const::Unevaluated(uv, _) = c.const_ {
            o = o.s("path", &self.path(uv.def));
            o = o.s("path_full", &with_no_trimmed_paths!(tcx.def_path_str_with_args(uv.def, uv.args)));
            o = o.b("promoted", uv.promoted.is_some());
            if let Some(p) = uv.promoted {
                o = o.n("promoted_idx", p.index());
            }
            let dk = tcx.def_kind(uv.def);
            if matches!(dk, DefKind::AssocConst { .. }) {
                let ai = tcx.associated_item(uv.def);
                if let ty::AssocContainer::Trait = ai.container {
                    o = o.s("trait", &self.path(tcx.parent(uv.def)));
                    if let Some(t) = uv.args.get(0).and_then(|a| a.as_type()) {
                        o = o.s("self_ty", &self.ty(t));
                    }
                }
                o = o.s("name", ai.name().as_str());
            }
        }
        // evaluate scalar ints / bools / chars when not generic
        let scalar_ty = ty.is_integral() || ty.is_bool() || ty.is_char();
        if scalar_ty && !c.const_.has_non_region_param() {
            let env = TypingEnv::post_analysis(tcx, owner);
            let r = std::panic::catch_unwind(std::panic::AssertUnwindSafe(|| {
                c.const_.try_eval_scalar_int(tcx, env)
            }));
            if let Ok(Some(si)) = r {
                let size = si.size();
                let v: String = if ty.is_signed() {
                    format!("{}", si.to_int(size))
                } else {
                    format!("{}", si.to_uint(size))
                };
                o = o.s("val", &v);
            }
        }
        o.end()
    }

    fn operand(&self, owner: DefId, body: &Body<'tcx>, op: &Operand<'tcx>) -> String {
        match op {
            Operand::Copy(p) => Obj::new().s("k", "copy").raw("pl", self.place(body, p)).end(),
            Operand::Move(p) => Obj::new().s("k", "move").raw("pl", self.place(body, p)).end(),
            Operand::Constant(c) => self.constant(owner, c),
            #[allow(unreachable_patterns)]
            other => Obj::new().s("k", "other").s("s", &format!("{:?}", other)).end(),
        }
    }

    fn rvalue(&self, owner: DefId, body: &Body<'tcx>, rv: &Rvalue<'tcx>) -> String {
        let tcx = self.tcx;
        match rv {
            Rvalue::Use(op, ..) => Obj::new().s("k", "use").raw("op", self.operand(owner, body, op)).end(),
            Rvalue::Repeat(op, n) => Obj::new()
                .s("k", "repeat")
                .raw("op", self.operand(owner, body, op))
                .s("count", &with_no_trimmed_paths!(n.to_string()))
                .end(),
            Rvalue::Ref(_, bk, p) => Obj::new()
                .s("k", "ref")
                .b("mut", matches!(bk, BorrowKind::Mut { .. }))
                .s("bk", &format!("{:?}", bk))
                .raw("pl", self.place(body, p))
                .end(),
            Rvalue::RawPtr(kind, p) => Obj::new()
                .s("k", "rawptr")
                .s("pk", &format!("{:?}", kind))
                .raw("pl", self.place(body, p))
                .end(),
            Rvalue::Cast(ck, op, ty) => {
                let cks = match ck {
                    CastKind::IntToInt => "IntToInt".to_string(),
                    CastKind::Transmute => "Transmute".to_string(),
                    other => format!("{:?}", other),
                };
                Obj::new()
                    .s("k", "cast")
                    .s("ck", &cks)
                    .raw("op", self.operand(owner, body, op))
                    .s("ty", &self.ty(*ty))
                    .s("from_ty", &self.ty(op.ty(&body.local_decls, tcx)))
                    .end()
            }
            Rvalue::BinaryOp(op, lr) => {
                let (l, r) = &**lr;
                Obj::new()
                    .s("k", "bin")
                    .s("op", &format!("{:?}", op))
                    .raw("l", self.operand(owner, body, l))
                    .raw("r", self.operand(owner, body, r))
                    .s("lty", &self.ty(l.ty(&body.local_decls, tcx)))
                    .end()
            }
            Rvalue::UnaryOp(op, a) => Obj::new()
                .s("k", "un")
                .s("op", &format!("{:?}", op))
                .raw("a", self.operand(owner, body, a))
                .end(),
            Rvalue::Discriminant(p) => {
                Obj::new().s("k", "discr").raw("pl", self.place(body, p)).s("of", &self.ty(self.place_ty(body, p))).end()
            }
            Rvalue::CopyForDeref(p) => Obj::new().s("k", "copyderef").raw("pl", self.place(body, p)).end(),
            Rvalue::Aggregate(kind, ops) => {
                let opsj = jarr(ops.iter().map(|o| self.operand(owner, body, o)).collect());
                match &**kind {
                    AggregateKind::Array(t) => {
                        Obj::new().s("k", "agg").s("ak", "array").s("elem", &self.ty(*t)).raw("ops", opsj).end()
                    }
                    AggregateKind::Tuple => Obj::new().s("k", "agg").s("ak", "tuple").raw("ops", opsj).end(),
                    AggregateKind::Adt(did, vi, args, _, active) => {
                        let adt = tcx.adt_def(*did);
                        let v = adt.variant(*vi);
                        let fields: Vec<String> = match active {
                            Some(f) => vec![js(v.fields[*f].name.as_str())],
                            None => v.fields.iter().map(|f| js(f.name.as_str())).collect(),
                        };
                        Obj::new()
                            .s("k", "agg")
                            .s("ak", "adt")
                            .s("adt", &self.path(*did))
                            .s("variant", v.name.as_str())
                            .n("vi", vi.index())
                            .raw("fields", jarr(fields))
                            .raw("targs", jarr(args.iter().map(|a| js(&with_no_trimmed_paths!(a.to_string()))).collect()))
                            .raw("ops", opsj)
                            .end()
                    }
                    AggregateKind::Closure(did, _) => {
                        Obj::new().s("k", "agg").s("ak", "closure").s("def", &self.path(*did)).raw("ops", opsj).end()
                    }
                    AggregateKind::Coroutine(did, _) | AggregateKind::CoroutineClosure(did, _) => {
                        Obj::new().s("k", "agg").s("ak", "coroutine").s("def", &self.path(*did)).raw("ops", opsj).end()
                    }
                    AggregateKind::RawPtr(t, _) => {
                        Obj::new().s("k", "agg").s("ak", "rawptr").s("elem", &self.ty(*t)).raw("ops", opsj).end()
                    }
                }
            }
            other => Obj::new().s("k", "other").s("s", &format!("{:?}", other)).end(),
        }
    }

    fn statement(&self, owner: DefId, body: &Body<'tcx>, st: &Statement<'tcx>) -> Option<String> {
        match &st.kind {
            StatementKind::Assign(b) => {
                let (pl, rv) = &**b;
                Some(
                    Obj::new()
                        .s("k", "assign")
                        .raw("pl", self.place(body, pl))
                        .raw("rv", self.rvalue(owner, body, rv))
                        .s("pty", &self.ty(self.place_ty(body, pl)))
                        .raw("sp", self.span(st.source_info.span))
                        .end(),
                )
            }
            StatementKind::SetDiscriminant { place, variant_index } => Some(
                Obj::new()
                    .s("k", "setdiscr")
                    .raw("pl", self.place(body, place))
                    .n("vi", variant_index.index())
                    .raw("sp", self.span(st.source_info.span))
                    .end(),
            ),
            StatementKind::Intrinsic(i) => Some(
                Obj::new()
                    .s("k", "intrinsic")
                    .s("s", &format!("{:?}", i))
                    .raw("sp", self.span(st.source_info.span))
                    .end(),
            ),
            _ => None,
        }
    }

    fn unwind(&self, u: &UnwindAction) -> String {
        match u {
            UnwindAction::Cleanup(bb) => bb.index().to_string(),
            _ => "null".to_string(),
        }
    }

    fn terminator(&self, owner: DefId, body: &Body<'tcx>, t: &Terminator<'tcx>) -> String {
        let sp = self.span(t.source_info.span);
        match &t.kind {
            TerminatorKind::Goto { target } => Obj::new().s("k", "goto").n("t", target.index()).end(),
            TerminatorKind::SwitchInt { discr, targets } => {
                let mut vals = Vec::new();
                let mut tgts = Vec::new();
                for (v, bb) in targets.iter() {
                    vals.push(js(&v.to_string()));
                    tgts.push(bb.index().to_string());
                }
                Obj::new()
                    .s("k", "switch")
                    .raw("op", self.operand(owner, body, discr))
                    .s("opty", &self.ty(discr.ty(&body.local_decls, self.tcx)))
                    .raw("vals", jarr(vals))
                    .raw("targets", jarr(tgts))
                    .n("otherwise", targets.otherwise().index())
                    .raw("sp", sp)
                    .end()
            }
            TerminatorKind::Return => Obj::new().s("k", "return").raw("sp", sp).end(),
            TerminatorKind::Unreachable => Obj::new().s("k", "unreachable").end(),
            TerminatorKind::UnwindResume => Obj::new().s("k", "resume").end(),
            TerminatorKind::UnwindTerminate(_) => Obj::new().s("k", "terminate").end(),
            TerminatorKind::Drop { place, target, unwind, .. } => Obj::new()
                .s("k", "drop")
                .raw("pl", self.place(body, place))
                .n("t", target.index())
                .raw("unwind", self.unwind(unwind))
                .end(),
            TerminatorKind::Call { func, args, destination, target, unwind, fn_span, .. } => {
                let argsj = jarr(args.iter().map(|a| self.operand(owner, body, &a.node)).collect());
                let argtys = jarr(
                    args.iter().map(|a| js(&self.ty(a.node.ty(&body.local_decls, self.tcx)))).collect(),
                );
                Obj::new()
                    .s("k", "call")
                    .raw("func", self.operand(owner, body, func))
                    .raw("args", argsj)
                    .raw("argtys", argtys)
                    .raw("dest", self.place(body, destination))
                    .s("dty", &self.ty(self.place_ty(body, destination)))
                    .raw("t", target.map(|b| b.index().to_string()).unwrap_or("null".into()))
                    .raw("unwind", self.unwind(unwind))
                    .raw("fsp", self.span(*fn_span))
                    .raw("sp", sp)
                    .end()
            }
            TerminatorKind::TailCall { func, args, .. } => {
                let argsj = jarr(args.iter().map(|a| self.operand(owner, body, &a.node)).collect());
                Obj::new().s("k", "tailcall").raw("func", self.operand(owner, body, func)).raw("args", argsj).raw("sp", sp).end()
            }
            TerminatorKind::Assert { cond, expected, msg, target, unwind } => {
                let m = match &**msg {
                    AssertKind::BoundsCheck { len, index } => Obj::new()
                        .s("k", "BoundsCheck")
                        .raw("ops", jarr(vec![self.operand(owner, body, len), self.operand(owner, body, index)]))
                        .end(),
                    AssertKind::Overflow(op, a, b) => Obj::new()
                        .s("k", "Overflow")
                        .s("op", &format!("{:?}", op))
                        .raw("ops", jarr(vec![self.operand(owner, body, a), self.operand(owner, body, b)]))
                        .end(),
                    AssertKind::OverflowNeg(a) => {
                        Obj::new().s("k", "OverflowNeg").raw("ops", jarr(vec![self.operand(owner, body, a)])).end()
                    }
                    AssertKind::DivisionByZero(a) => {
                        Obj::new().s("k", "DivisionByZero").raw("ops", jarr(vec![self.operand(owner, body, a)])).end()
                    }
                    AssertKind::RemainderByZero(a) => {
                        Obj::new().s("k", "RemainderByZero").raw("ops", jarr(vec![self.operand(owner, body, a)])).end()
                    }
                    other => Obj::new().s("k", "Other").s("s", &format!("{:?}", other)).raw("ops", "[]".into()).end(),
                };
                Obj::new()
                    .s("k", "assert")
                    .raw("cond", self.operand(owner, body, cond))
                    .b("expected", *expected)
                    .raw("msg", m)
                    .n("t", target.index())
                    .raw("unwind", self.unwind(unwind))
                    .raw("sp", sp)
                    .end()
            }
            TerminatorKind::FalseEdge { real_target, .. } => {
                Obj::new().s("k", "goto").n("t", real_target.index()).end()
            }
            TerminatorKind::FalseUnwind { real_target, .. } => {
                Obj::new().s("k", "goto").n("t", real_target.index()).end()
            }
            other => Obj::new().s("k", "other").s("s", &format!("{:?}", other)).raw("sp", sp).end(),
        }
    }

    fn body(&self, ldid: LocalDefId, body: &Body<'tcx>, promoted: Option<usize>) -> String {
        let tcx = self.tcx;
        let def_id = ldid.to_def_id();
        let dk = tcx.def_kind(def_id);
        let mut o = Obj::new();
        let mut path = self.path(def_id);
        if let Some(p) = promoted {
            path = format!("{}::promoted[{}]", path, p);
        }
        o = o.s("path", &path);
        let dks = match dk {
            DefKind::AssocConst { .. } => "AssocConst".to_string(),
            DefKind::Const { .. } => "Const".to_string(),
            _ => format!("{:?}", dk),
        };
        o = o.s("def_kind", &dks);
        o = o.s("name", &tcx.opt_item_name(def_id).map(|s| s.to_string()).unwrap_or_default());
        let root = tcx.typeck_root_def_id(def_id);
        o = o.s("root", &self.path(root));
        if let Some(parent) = tcx.opt_parent(def_id) {
            o = o.s("parent", &self.path(parent));
            o = o.s("parent_kind", &format!("{:?}", tcx.def_kind(parent)));
        }
        // containing impl / trait (of the typeck root)
        if let Some(parent) = tcx.opt_parent(root) {
            match tcx.def_kind(parent) {
                DefKind::Impl { .. } => {
                    let st = tcx.type_of(parent).instantiate_identity().skip_norm_wip();
                    o = o.s("impl_self_ty", &self.ty(st));
                    if let Some(tr) = tcx.impl_opt_trait_ref(parent) {
                        let tr = tr.instantiate_identity().skip_norm_wip();
                        o = o.s("impl_trait", &self.path(tr.def_id));
                        o = o.s("impl_trait_full", &with_no_trimmed_paths!(tr.to_string()));
                    }
                    let auto = tcx.is_automatically_derived(parent);
                    o = o.b("derived", auto);
                }
                DefKind::Trait => {
                    o = o.s("in_trait", &self.path(parent));
                }
                _ => {}
            }
        }
        if matches!(dk, DefKind::Fn | DefKind::AssocFn) {
            o = o.s("vis", &format!("{:?}", tcx.visibility(def_id)));
            let sig = tcx.fn_sig(def_id).instantiate_identity().skip_norm_wip().skip_binder();
            o = o.raw("inputs", jarr(sig.inputs().iter().map(|t| js(&self.ty(*t))).collect()));
            o = o.s("output", &self.ty(sig.output()));
            let gens = tcx.generics_of(def_id);
            let mut gnames = Vec::new();
            for i in 0..gens.count() {
                gnames.push(js(gens.param_at(i, tcx).name.as_str()));
            }
            o = o.raw("generics", jarr(gnames));
        }
        o = o.raw("span", self.span(body.span));
        o = o.n("arg_count", body.arg_count);
        // locals
        let mut locals = Vec::new();
        for (_l, d) in body.local_decls.iter_enumerated() {
            locals.push(
                Obj::new()
                    .s("ty", &self.ty(d.ty))
                    .b("mut", d.mutability.is_mut())
                    .end(),
            );
        }
        o = o.raw("locals", jarr(locals));
        // debug info
        let mut dbg = Vec::new();
        for v in body.var_debug_info.iter() {
            let mut d = Obj::new().s("name", v.name.as_str());
            match &v.value {
                VarDebugInfoContents::Place(p) => {
                    d = d.raw("pl", self.place(body, p));
                }
                VarDebugInfoContents::Const(c) => {
                    d = d.raw("const", self.constant(def_id, c));
                }
            }
            if let Some(a) = v.argument_index {
                d = d.n("arg", a as usize);
            }
            d = d.raw("sp", self.span(v.source_info.span));
            dbg.push(d.end());
        }
        o = o.raw("debug", jarr(dbg));
        // blocks
        let mut blocks = Vec::new();
        for (_bb, data) in body.basic_blocks.iter_enumerated() {
            let stmts: Vec<String> =
                data.statements.iter().filter_map(|s| self.statement(def_id, body, s)).collect();
            let term = match &data.terminator {
                Some(t) => self.terminator(def_id, body, t),
                None => "null".to_string(),
            };
            blocks.push(Obj::new().b("cleanup", data.is_cleanup).raw("stmts", jarr(stmts)).raw("term", term).end());
        }
        o = o.raw("blocks", jarr(blocks));
        o.end()
    }

    fn adts_impls_traits(&self) -> (Vec<String>, Vec<String>, Vec<String>, Vec<String>) {
        let tcx = self.tcx;
        let mut adts = Vec::new();
        let mut impls = Vec::new();
        let mut traits = Vec::new();
        let mut consts = Vec::new();
        for ldid in tcx.hir_crate_items(()).definitions() {
            let def_id = ldid.to_def_id();
            match tcx.def_kind(def_id) {
                DefKind::Struct | DefKind::Enum | DefKind::Union => {
                    let adt = tcx.adt_def(def_id);
                    let mut variants = Vec::new();
                    for (vi, v) in adt.variants().iter_enumerated() {
                        let fields: Vec<String> = v
                            .fields
                            .iter()
                            .map(|f| {
                                Obj::new()
                                    .s("name", f.name.as_str())
                                    .s("ty", &self.ty(tcx.type_of(f.did).instantiate_identity().skip_norm_wip()))
                                    .s("vis", &format!("{:?}", f.vis))
                                    .end()
                            })
                            .collect();
                        let discr = if adt.is_enum() {
                            format!("{}", adt.discriminant_for_variant(tcx, vi).val)
                        } else {
                            "0".to_string()
                        };
                        variants.push(
                            Obj::new().s("name", v.name.as_str()).s("discr", &discr).raw("fields", jarr(fields)).end(),
                        );
                    }
                    adts.push(
                        Obj::new()
                            .s("path", &self.path(def_id))
                            .s("kind", &format!("{:?}", tcx.def_kind(def_id)))
                            .raw("span", self.span(tcx.def_span(def_id)))
                            .raw("variants", jarr(variants))
                            .end(),
                    );
                }
                DefKind::Impl { .. } => {
                    let st = tcx.type_of(def_id).instantiate_identity().skip_norm_wip();
                    let mut o = Obj::new().s("path", &self.path(def_id)).s("self_ty", &self.ty(st));
                    if let Some(tr) = tcx.impl_opt_trait_ref(def_id) {
                        let tr = tr.instantiate_identity().skip_norm_wip();
                        o = o.s("trait", &self.path(tr.def_id));
                        o = o.s("trait_full", &with_no_trimmed_paths!(tr.to_string()));
                    }
                    o = o.b("derived", tcx.is_automatically_derived(def_id));
                    let mut items = Vec::new();
                    for ai in tcx.associated_items(def_id).in_definition_order() {
                        let mut io = Obj::new()
                            .s("name", ai.name().as_str())
                            .s("kind", &format!("{:?}", ai.tag()))
                            .s("path", &self.path(ai.def_id));
                        if let Some(tid) = ai.trait_item_def_id() {
                            io = io.s("trait_item", &self.path(tid));
                        }
                        if matches!(tcx.def_kind(ai.def_id), DefKind::AssocConst { .. }) {
                            let cty = tcx.type_of(ai.def_id).instantiate_identity().skip_norm_wip();
                            io = io.s("ty", &self.ty(cty));
                            if let Some(v) = self.eval_const_item(ai.def_id, cty) {
                                io = io.s("val", &v);
                            }
                        }
                        if matches!(tcx.def_kind(ai.def_id), DefKind::AssocTy) {
                            let aty = tcx.type_of(ai.def_id).instantiate_identity().skip_norm_wip();
                            io = io.s("ty", &self.ty(aty));
                        }
                        items.push(io.end());
                    }
                    o = o.raw("items", jarr(items));
                    o = o.raw("span", self.span(tcx.def_span(def_id)));
                    impls.push(o.end());
                }
                DefKind::Trait => {
                    let mut items = Vec::new();
                    for ai in tcx.associated_items(def_id).in_definition_order() {
                        let mut io = Obj::new()
                            .s("name", ai.name().as_str())
                            .s("kind", &format!("{:?}", ai.tag()))
                            .s("path", &self.path(ai.def_id))
                            .b("has_default", ai.defaultness(tcx).has_value());
                        if matches!(tcx.def_kind(ai.def_id), DefKind::AssocFn) {
                            let idents = tcx.fn_arg_idents(ai.def_id);
                            io = io.raw(
                                "params",
                                jarr(idents.iter().map(|i| js(&i.map(|i| i.name.to_string()).unwrap_or_default())).collect()),
                            );
                            let sig = tcx.fn_sig(ai.def_id).instantiate_identity().skip_norm_wip().skip_binder();
                            io = io.raw("inputs", jarr(sig.inputs().iter().map(|t| js(&self.ty(*t))).collect()));
                            io = io.s("output", &self.ty(sig.output()));
                        }
                        items.push(io.end());
                    }
                    traits.push(
                        Obj::new()
                            .s("path", &self.path(def_id))
                            .raw("items", jarr(items))
                            .raw("span", self.span(tcx.def_span(def_id)))
                            .end(),
                    );
                }
                DefKind::Const { .. } | DefKind::Static { .. } => {
                    let cty = tcx.type_of(def_id).instantiate_identity().skip_norm_wip();
                    let mut o = Obj::new().s("path", &self.path(def_id)).s("ty", &self.ty(cty));
                    if matches!(tcx.def_kind(def_id), DefKind::Const { .. }) {
                        if let Some(v) = self.eval_const_item(def_id, cty) {
                            o = o.s("val", &v);
                        }
                    }
                    o = o.raw("span", self.span(tcx.def_span(def_id)));
                    consts.push(o.end());
                }
                DefKind::Fn | DefKind::AssocFn => {}
                _ => {}
            }
        }
        (adts, impls, traits, consts)
    }

    fn eval_const_item(&self, def_id: DefId, cty: Ty<'tcx>) -> Option<String> {
        let tcx = self.tcx;
        if !(cty.is_integral() || cty.is_bool() || cty.is_char()) {
            return None;
        }
        // only for consts without generic parameters in scope
        let gens = tcx.generics_of(def_id);
        if gens.count() > 0 {
            return None;
        }
        let r = std::panic::catch_unwind(std::panic::AssertUnwindSafe(|| tcx.const_eval_poly(def_id)));
        match r {
            Ok(Ok(cv)) => {
                let si = cv.try_to_scalar_int()?;
                let size = si.size();
                Some(if cty.is_signed() { format!("{}", si.to_int(size)) } else { format!("{}", si.to_uint(size)) })
            }
            _ => None,
        }
    }
}

struct Cb;

impl Callbacks for Cb {
    fn after_analysis<'tcx>(&mut self, _compiler: &rustc_interface::interface::Compiler, tcx: TyCtxt<'tcx>) -> Compilation {
        let out = match std::env::var("MIRFACTS_OUT") {
            Ok(o) => o,
            Err(_) => return Compilation::Continue,
        };
        let nonce = std::env::var("MIRFACTS_NONCE").unwrap_or_default();
        let cx = Cx { tcx };
        let crate_name = tcx.crate_name(rustc_hir::def_id::LOCAL_CRATE).to_string();
        let crate_types: Vec<String> = tcx.crate_types().iter().map(|c| js(&format!("{:?}", c))).collect();
        let is_test = tcx.sess.opts.test;
        let mut bodies = Vec::new();
        let mut nbodies = 0usize;
        for ldid in tcx.hir_body_owners() {
            let def_id = ldid.to_def_id();
            let dk = tcx.def_kind(def_id);
            match dk {
                DefKind::Fn | DefKind::AssocFn | DefKind::Closure => {
                    if !tcx.is_mir_available(def_id) {
                        continue;
                    }
                    let body = tcx.optimized_mir(def_id);
                    bodies.push(cx.body(ldid, body, None));
                    nbodies += 1;
                    let promoted = tcx.promoted_mir(def_id);
                    for (pi, pb) in promoted.iter_enumerated() {
                        bodies.push(cx.body(ldid, pb, Some(pi.index())));
                    }
                }
                // associated / free constants with a body of their own: their MIR is what const-eval would run; exported so
                // that sibling adapter impls (`const TAG: Tag = <IC as Constraint>::TAG`) can be compared
                DefKind::AssocConst { .. } | DefKind::Const { .. } => {
                    if !tcx.is_mir_available(def_id) {
                        continue;
                    }
                    let body = tcx.mir_for_ctfe(def_id);
                    bodies.push(cx.body(ldid, body, None));
                }
                _ => {}
            }
        }
        let (adts, impls, traits, consts) = cx.adts_impls_traits();
        let input = tcx.sess.local_crate_source_file().map(|f| format!("{:?}", f)).unwrap_or_default();
        let feats: Vec<String> = std::env::args()
            .collect::<Vec<_>>()
            .windows(2)
            .filter(|w| w[0] == "--cfg")
            .map(|w| js(&w[1]))
            .collect();
        let doc = Obj::new()
            .s("crate", &crate_name)
            .raw("cfg", jarr(feats))
            .s("nonce", &nonce)
            .b("test", is_test)
            .raw("crate_types", jarr(crate_types))
            .s("input", &format!("{:?}", input))
            .n("n_fn_bodies", nbodies)
            .raw("bodies", jarr(bodies))
            .raw("adts", jarr(adts))
            .raw("impls", jarr(impls))
            .raw("traits", jarr(traits))
            .raw("consts", jarr(consts))
            .end();
        let fname = format!(
            "{}/{}-{}-{}.json",
            out,
            crate_name,
            if is_test { "test" } else { "lib" },
            std::process::id()
        );
        let tmp = format!("{}.tmp", fname);
        std::fs::write(&tmp, doc).expect("mirfacts: cannot write fact file");
        std::fs::rename(&tmp, &fname).expect("mirfacts: cannot rename fact file");
        Compilation::Continue
    }
}

fn main() {
    let mut args: Vec<String> = std::env::args().collect();
    // invoked as wrapper: argv[1] is the path of the real rustc
    if args.len() > 1 && (args[1].ends_with("rustc") || args[1].contains("/rustc")) {
        args.remove(1);
    }
    let mut cb = Cb;
    rustc_driver::run_compiler(&args, &mut cb);
}

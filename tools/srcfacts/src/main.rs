// srcfacts: syntax-level facts that MIR no longer contains (cfg-gated regions, string vocabularies,
// literal arrays). Usage: srcfacts <repo-root> <out.json> <file.rs>...
use proc_macro2::{Span, TokenStream, TokenTree};
use quote::ToTokens;
use std::fmt::Write as _;
use syn::spanned::Spanned;
use syn::visit::{self, Visit};

fn js(s: &str) -> String {
    let mut o = String::with_capacity(s.len() + 2);
    o.push('"');
    for c in s.chars() {
        match c {
            '"' => o.push_str("\\\""),
            '\\' => o.push_str("\\\\"),
            '\n' => o.push_str("\\n"),
            '\r' => o.push_str("\\r"),
            '\t' => o.push_str("\\t"),
            c if (c as u32) < 0x20 => {
                let _ = write!(o, "\\u{:04x}", c as u32);
            }
            c => o.push(c),
        }
    }
    o.push('"');
    o
}

fn jarr(items: &[String]) -> String {
    format!("[{}]", items.join(","))
}

fn sp(s: Span) -> String {
    let a = s.start();
    let b = s.end();
    format!("[{},{},{},{}]", a.line, a.column + 1, b.line, b.column + 1)
}

fn cfg_pred(attr: &syn::Attribute) -> Option<(String, String)> {
    let p = attr.path();
    if p.is_ident("cfg") || p.is_ident("cfg_attr") {
        let name = if p.is_ident("cfg") { "cfg" } else { "cfg_attr" };
        let toks = match &attr.meta {
            syn::Meta::List(l) => l.tokens.to_string(),
            other => other.to_token_stream().to_string(),
        };
        return Some((name.to_string(), toks));
    }
    None
}

#[derive(Default)]
struct RegionScan {
    tries: Vec<String>,
    jumps: Vec<String>,
    macros: Vec<String>,
    methods: Vec<String>,
    index: usize,
    lets: Vec<String>,
    assigns: Vec<String>,
    cfg_macro: usize,
}

fn scan_tokens(ts: TokenStream, r: &mut RegionScan) {
    for tt in ts {
        match tt {
            TokenTree::Group(g) => scan_tokens(g.stream(), r),
            TokenTree::Punct(p) => {
                if p.as_char() == '?' {
                    r.tries.push(format!("{}", p.span().start().line));
                }
            }
            TokenTree::Ident(i) => {
                let s = i.to_string();
                if s == "return" || s == "break" || s == "continue" {
                    r.jumps.push(format!("{}@{}", s, i.span().start().line));
                }
                if s == "unwrap" || s == "expect" {
                    r.methods.push(format!("{}@{}", s, i.span().start().line));
                }
            }
            _ => {}
        }
    }
}

impl<'ast> Visit<'ast> for RegionScan {
    fn visit_expr_try(&mut self, e: &'ast syn::ExprTry) {
        self.tries.push(format!("{}", e.question_token.span().start().line));
        visit::visit_expr_try(self, e);
    }
    fn visit_expr_return(&mut self, e: &'ast syn::ExprReturn) {
        self.jumps.push(format!("return@{}", e.span().start().line));
        visit::visit_expr_return(self, e);
    }
    fn visit_expr_break(&mut self, e: &'ast syn::ExprBreak) {
        self.jumps.push(format!("break@{}", e.span().start().line));
        visit::visit_expr_break(self, e);
    }
    fn visit_expr_continue(&mut self, e: &'ast syn::ExprContinue) {
        self.jumps.push(format!("continue@{}", e.span().start().line));
        visit::visit_expr_continue(self, e);
    }
    fn visit_expr_index(&mut self, e: &'ast syn::ExprIndex) {
        self.index += 1;
        visit::visit_expr_index(self, e);
    }
    fn visit_expr_method_call(&mut self, e: &'ast syn::ExprMethodCall) {
        self.methods.push(format!("{}@{}", e.method, e.method.span().start().line));
        visit::visit_expr_method_call(self, e);
    }
    fn visit_macro(&mut self, m: &'ast syn::Macro) {
        let name = m.path.segments.last().map(|s| s.ident.to_string()).unwrap_or_default();
        if name == "cfg" {
            self.cfg_macro += 1;
        }
        self.macros.push(format!("{}@{}", name, m.span().start().line));
        scan_tokens(m.tokens.clone(), self);
    }
    fn visit_local(&mut self, l: &'ast syn::Local) {
        let mut ids = Vec::new();
        collect_pat_idents(&l.pat, &mut ids);
        for i in ids {
            self.lets.push(i);
        }
        visit::visit_local(self, l);
    }
    fn visit_expr_assign(&mut self, e: &'ast syn::ExprAssign) {
        self.assigns.push(e.left.to_token_stream().to_string());
        visit::visit_expr_assign(self, e);
    }
    fn visit_expr_binary(&mut self, e: &'ast syn::ExprBinary) {
        use syn::BinOp::*;
        match e.op {
            AddAssign(_) | SubAssign(_) | MulAssign(_) | DivAssign(_) | RemAssign(_) | BitXorAssign(_)
            | BitAndAssign(_) | BitOrAssign(_) | ShlAssign(_) | ShrAssign(_) => {
                self.assigns.push(e.left.to_token_stream().to_string());
            }
            _ => {}
        }
        visit::visit_expr_binary(self, e);
    }
}

fn collect_pat_idents(p: &syn::Pat, out: &mut Vec<String>) {
    match p {
        syn::Pat::Ident(i) => {
            out.push(i.ident.to_string());
            if let Some((_, sub)) = &i.subpat {
                collect_pat_idents(sub, out);
            }
        }
        syn::Pat::Tuple(t) => t.elems.iter().for_each(|e| collect_pat_idents(e, out)),
        syn::Pat::TupleStruct(t) => t.elems.iter().for_each(|e| collect_pat_idents(e, out)),
        syn::Pat::Struct(s) => s.fields.iter().for_each(|f| collect_pat_idents(&f.pat, out)),
        syn::Pat::Reference(r) => collect_pat_idents(&r.pat, out),
        syn::Pat::Type(t) => collect_pat_idents(&t.pat, out),
        syn::Pat::Slice(s) => s.elems.iter().for_each(|e| collect_pat_idents(e, out)),
        syn::Pat::Or(o) => o.cases.iter().for_each(|e| collect_pat_idents(e, out)),
        syn::Pat::Paren(p) => collect_pat_idents(&p.pat, out),
        _ => {}
    }
}

struct FnInfo {
    name: String,
    imp: String,
    tr: String,
    span: Span,
    strings: Vec<String>,
    let_underscore: Vec<usize>,
}

struct V {
    cfgs: Vec<String>,
    consts: Vec<String>,
    enums: Vec<String>,
    fns: Vec<FnInfo>,
    fn_stack: Vec<usize>,
    impl_stack: Vec<(String, String)>,
    mod_stack: Vec<String>,
    cfg_macros: Vec<String>,
}

impl V {
    fn region<T: ToTokens>(&mut self, attrs: &[syn::Attribute], kind: &str, node: &T, scan: impl Fn(&mut RegionScan)) {
        for a in attrs {
            if let Some((which, pred)) = cfg_pred(a) {
                let mut r = RegionScan::default();
                scan(&mut r);
                let span = node.to_token_stream().into_iter().fold(None, |acc: Option<(Span, Span)>, t| match acc {
                    None => Some((t.span(), t.span())),
                    Some((f, _)) => Some((f, t.span())),
                });
                let (first, last) = span.unwrap_or((a.span(), a.span()));
                let s = format!(
                    "[{},{},{},{}]",
                    first.start().line,
                    first.start().column + 1,
                    last.end().line,
                    last.end().column + 1
                );
                let q = |v: &Vec<String>| jarr(&v.iter().map(|x| js(x)).collect::<Vec<_>>());
                let func = self.fn_stack.last().map(|i| self.fns[*i].name.clone()).unwrap_or_default();
                self.cfgs.push(format!(
                    "{{\"attr\":{},\"pred\":{},\"kind\":{},\"span\":{},\"fn\":{},\"tries\":{},\"jumps\":{},\"macros\":{},\"methods\":{},\"index\":{},\"lets\":{},\"assigns\":{},\"text\":{}}}",
                    js(&which), js(&pred), js(kind), s, js(&func), q(&r.tries), q(&r.jumps), q(&r.macros), q(&r.methods),
                    r.index, q(&r.lets), q(&r.assigns), js(&node.to_token_stream().to_string().chars().take(300).collect::<String>())
                ));
            }
        }
    }

    fn add_string(&mut self, s: &str, ctx: &str, line: usize) {
        if let Some(i) = self.fn_stack.last() {
            self.fns[*i].strings.push(format!("{{\"s\":{},\"ctx\":{},\"line\":{}}}", js(s), js(ctx), line));
        }
    }

    fn macro_strings(&mut self, name: &str, ts: TokenStream) {
        for tt in ts {
            match tt {
                TokenTree::Group(g) => self.macro_strings(name, g.stream()),
                TokenTree::Literal(l) => {
                    let txt = l.to_string();
                    if txt.starts_with('"') || txt.starts_with("r\"") || txt.starts_with("r#") {
                        if let Ok(ls) = syn::parse_str::<syn::LitStr>(&txt) {
                            let line = l.span().start().line;
                            self.add_string(&ls.value(), &format!("macro:{}", name), line);
                        }
                    }
                }
                _ => {}
            }
        }
    }
}

impl<'ast> Visit<'ast> for V {
    fn visit_item_mod(&mut self, m: &'ast syn::ItemMod) {
        self.region(&m.attrs, "mod", m, |r| r.visit_item_mod(m));
        self.mod_stack.push(m.ident.to_string());
        visit::visit_item_mod(self, m);
        self.mod_stack.pop();
    }
    fn visit_item_impl(&mut self, i: &'ast syn::ItemImpl) {
        self.region(&i.attrs, "impl", i, |r| r.visit_item_impl(i));
        let ty = i.self_ty.to_token_stream().to_string().replace(' ', "");
        let tr = i.trait_.as_ref().map(|(_, p, _)| p.to_token_stream().to_string().replace(' ', "")).unwrap_or_default();
        self.impl_stack.push((ty, tr));
        visit::visit_item_impl(self, i);
        self.impl_stack.pop();
    }
    fn visit_item_fn(&mut self, f: &'ast syn::ItemFn) {
        self.region(&f.attrs, "fn", f, |r| r.visit_item_fn(f));
        self.fns.push(FnInfo { name: f.sig.ident.to_string(), imp: String::new(), tr: String::new(), span: f.span(), strings: vec![], let_underscore: vec![] });
        self.fn_stack.push(self.fns.len() - 1);
        for p in f.sig.inputs.iter() {
            if let syn::FnArg::Typed(t) = p {
                self.region(&t.attrs, "param", t, |_| {});
            }
        }
        visit::visit_item_fn(self, f);
        self.fn_stack.pop();
    }
    fn visit_impl_item_fn(&mut self, f: &'ast syn::ImplItemFn) {
        self.region(&f.attrs, "fn", f, |r| r.visit_impl_item_fn(f));
        let (imp, tr) = self.impl_stack.last().cloned().unwrap_or_default();
        self.fns.push(FnInfo { name: f.sig.ident.to_string(), imp, tr, span: f.span(), strings: vec![], let_underscore: vec![] });
        self.fn_stack.push(self.fns.len() - 1);
        for p in f.sig.inputs.iter() {
            if let syn::FnArg::Typed(t) = p {
                self.region(&t.attrs, "param", t, |_| {});
            }
        }
        visit::visit_impl_item_fn(self, f);
        self.fn_stack.pop();
    }
    fn visit_trait_item_fn(&mut self, f: &'ast syn::TraitItemFn) {
        self.region(&f.attrs, "fn", f, |r| r.visit_trait_item_fn(f));
        self.fns.push(FnInfo { name: f.sig.ident.to_string(), imp: String::new(), tr: "trait".into(), span: f.span(), strings: vec![], let_underscore: vec![] });
        self.fn_stack.push(self.fns.len() - 1);
        visit::visit_trait_item_fn(self, f);
        self.fn_stack.pop();
    }
    fn visit_item_struct(&mut self, s: &'ast syn::ItemStruct) {
        self.region(&s.attrs, "struct", s, |_| {});
        visit::visit_item_struct(self, s);
    }
    fn visit_field(&mut self, f: &'ast syn::Field) {
        self.region(&f.attrs, "field", f, |_| {});
        visit::visit_field(self, f);
    }
    fn visit_variant(&mut self, v: &'ast syn::Variant) {
        self.region(&v.attrs, "variant", v, |_| {});
        visit::visit_variant(self, v);
    }
    fn visit_item_use(&mut self, u: &'ast syn::ItemUse) {
        self.region(&u.attrs, "use", u, |_| {});
    }
    fn visit_item_enum(&mut self, e: &'ast syn::ItemEnum) {
        self.region(&e.attrs, "enum", e, |_| {});
        let mut derives = Vec::new();
        for a in &e.attrs {
            if a.path().is_ident("derive") || a.path().is_ident("cfg_attr") {
                if let syn::Meta::List(l) = &a.meta {
                    for tt in l.tokens.clone() {
                        collect_idents(tt, &mut derives);
                    }
                }
            }
        }
        let vars: Vec<String> = e.variants.iter().map(|v| {
            let nf = v.fields.len();
            let disc = v.discriminant.as_ref().map(|(_, e)| e.to_token_stream().to_string()).unwrap_or_default();
            format!("{{\"name\":{},\"fields\":{},\"discr\":{}}}", js(&v.ident.to_string()), nf, js(&disc))
        }).collect();
        let attrs: Vec<String> = e.attrs.iter()
            .filter(|a| !a.path().is_ident("derive") && !a.path().is_ident("doc"))
            .map(|a| js(&a.meta.to_token_stream().to_string())).collect();
        self.enums.push(format!(
            "{{\"name\":{},\"line\":{},\"derives\":{},\"attrs\":{},\"variants\":{}}}",
            js(&e.ident.to_string()), e.span().start().line,
            jarr(&derives.iter().map(|d| js(d)).collect::<Vec<_>>()), jarr(&attrs), jarr(&vars)
        ));
        visit::visit_item_enum(self, e);
    }
    fn visit_item_const(&mut self, c: &'ast syn::ItemConst) {
        self.region(&c.attrs, "const", c, |_| {});
        self.const_item(&c.ident.to_string(), &c.expr, c.span());
        visit::visit_item_const(self, c);
    }
    fn visit_impl_item_const(&mut self, c: &'ast syn::ImplItemConst) {
        self.const_item(&c.ident.to_string(), &c.expr, c.span());
        visit::visit_impl_item_const(self, c);
    }
    fn visit_item_static(&mut self, c: &'ast syn::ItemStatic) {
        self.const_item(&c.ident.to_string(), &c.expr, c.span());
        visit::visit_item_static(self, c);
    }
    fn visit_stmt(&mut self, s: &'ast syn::Stmt) {
        match s {
            syn::Stmt::Local(l) => {
                self.region(&l.attrs, "stmt-let", l, |r| r.visit_local(l));
                if let syn::Pat::Wild(_) = &l.pat {
                    if let Some(i) = self.fn_stack.last() {
                        let line = l.span().start().line;
                        self.fns[*i].let_underscore.push(line);
                    }
                }
            }
            syn::Stmt::Macro(m) => {
                self.region(&m.attrs, "stmt-macro", m, |r| r.visit_macro(&m.mac));
            }
            syn::Stmt::Expr(e, _) => {
                let attrs = expr_attrs(e);
                self.region(attrs, "stmt-expr", e, |r| r.visit_expr(e));
            }
            _ => {}
        }
        visit::visit_stmt(self, s);
    }
    fn visit_expr(&mut self, e: &'ast syn::Expr) {
        // call / method-call arguments and struct-literal fields with attributes
        match e {
            syn::Expr::Call(c) => {
                for a in c.args.iter() {
                    self.region(expr_attrs(a), "arg", a, |r| r.visit_expr(a));
                }
            }
            syn::Expr::MethodCall(c) => {
                for a in c.args.iter() {
                    self.region(expr_attrs(a), "arg", a, |r| r.visit_expr(a));
                }
                // string arguments of comparison-like methods
                let m = c.method.to_string();
                for a in c.args.iter() {
                    if let syn::Expr::Lit(syn::ExprLit { lit: syn::Lit::Str(s), .. }) = a {
                        self.add_string(&s.value(), &format!("arg:{}", m), s.span().start().line);
                    }
                }
            }
            syn::Expr::Struct(st) => {
                for f in st.fields.iter() {
                    self.region(&f.attrs, "field-init", f, |r| r.visit_expr(&f.expr));
                }
            }
            syn::Expr::Macro(m) => {
                let name = m.mac.path.segments.last().map(|s| s.ident.to_string()).unwrap_or_default();
                if name == "cfg" {
                    let func = self.fn_stack.last().map(|i| self.fns[*i].name.clone()).unwrap_or_default();
                    self.cfg_macros.push(format!("{{\"pred\":{},\"line\":{},\"fn\":{}}}", js(&m.mac.tokens.to_string()), m.span().start().line, js(&func)));
                }
                self.macro_strings(&name, m.mac.tokens.clone());
            }
            syn::Expr::Lit(syn::ExprLit { lit: syn::Lit::Str(s), .. }) => {
                self.add_string(&s.value(), "expr", s.span().start().line);
            }
            syn::Expr::Lit(syn::ExprLit { lit: syn::Lit::Char(c), .. }) => {
                self.add_string(&c.value().to_string(), "char", c.span().start().line);
            }
            _ => {}
        }
        visit::visit_expr(self, e);
    }
    fn visit_stmt_macro(&mut self, m: &'ast syn::StmtMacro) {
        let name = m.mac.path.segments.last().map(|s| s.ident.to_string()).unwrap_or_default();
        self.macro_strings(&name, m.mac.tokens.clone());
        visit::visit_stmt_macro(self, m);
    }
    fn visit_arm(&mut self, a: &'ast syn::Arm) {
        self.region(&a.attrs, "arm", a, |r| r.visit_arm(a));
        let mut lits = Vec::new();
        collect_pat_strs(&a.pat, &mut lits);
        for (s, line) in lits {
            self.add_string(&s, "pattern", line);
        }
        visit::visit_arm(self, a);
    }
}

fn collect_idents(tt: TokenTree, out: &mut Vec<String>) {
    match tt {
        TokenTree::Ident(i) => out.push(i.to_string()),
        TokenTree::Group(g) => g.stream().into_iter().for_each(|t| collect_idents(t, out)),
        _ => {}
    }
}

fn collect_pat_strs(p: &syn::Pat, out: &mut Vec<(String, usize)>) {
    match p {
        syn::Pat::Lit(l) => {
            if let syn::Lit::Str(s) = &l.lit {
                out.push((s.value(), s.span().start().line));
            }
            if let syn::Lit::Char(c) = &l.lit {
                out.push((c.value().to_string(), c.span().start().line));
            }
        }
        syn::Pat::Or(o) => o.cases.iter().for_each(|c| collect_pat_strs(c, out)),
        syn::Pat::Tuple(t) => t.elems.iter().for_each(|c| collect_pat_strs(c, out)),
        syn::Pat::TupleStruct(t) => t.elems.iter().for_each(|c| collect_pat_strs(c, out)),
        syn::Pat::Reference(r) => collect_pat_strs(&r.pat, out),
        syn::Pat::Paren(r) => collect_pat_strs(&r.pat, out),
        syn::Pat::Ident(i) => {
            if let Some((_, s)) = &i.subpat {
                collect_pat_strs(s, out)
            }
        }
        _ => {}
    }
}

fn expr_attrs(e: &syn::Expr) -> &[syn::Attribute] {
    use syn::Expr::*;
    match e {
        Array(x) => &x.attrs, Assign(x) => &x.attrs, Async(x) => &x.attrs, Await(x) => &x.attrs, Binary(x) => &x.attrs,
        Block(x) => &x.attrs, Break(x) => &x.attrs, Call(x) => &x.attrs, Cast(x) => &x.attrs, Closure(x) => &x.attrs,
        Continue(x) => &x.attrs, Field(x) => &x.attrs, ForLoop(x) => &x.attrs, If(x) => &x.attrs, Index(x) => &x.attrs,
        Let(x) => &x.attrs, Lit(x) => &x.attrs, Loop(x) => &x.attrs, Macro(x) => &x.attrs, Match(x) => &x.attrs,
        MethodCall(x) => &x.attrs, Paren(x) => &x.attrs, Path(x) => &x.attrs, Range(x) => &x.attrs, Reference(x) => &x.attrs,
        Repeat(x) => &x.attrs, Return(x) => &x.attrs, Struct(x) => &x.attrs, Try(x) => &x.attrs, Tuple(x) => &x.attrs,
        Unary(x) => &x.attrs, Unsafe(x) => &x.attrs, While(x) => &x.attrs, _ => &[],
    }
}

impl V {
    fn const_item(&mut self, name: &str, expr: &syn::Expr, span: Span) {
        let mut elems = Vec::new();
        let mut ok = false;
        let inner = match expr {
            syn::Expr::Reference(r) => &*r.expr,
            e => e,
        };
        if let syn::Expr::Array(a) = inner {
            ok = true;
            for e in a.elems.iter() {
                match e {
                    syn::Expr::Lit(l) => match &l.lit {
                        syn::Lit::Str(s) => elems.push(js(&s.value())),
                        syn::Lit::Int(i) => elems.push(js(i.base10_digits())),
                        syn::Lit::Char(c) => elems.push(js(&c.value().to_string())),
                        other => elems.push(js(&other.to_token_stream().to_string())),
                    },
                    other => elems.push(js(&other.to_token_stream().to_string())),
                }
            }
        }
        let val = expr.to_token_stream().to_string();
        self.consts.push(format!(
            "{{\"name\":{},\"line\":{},\"array\":{},\"elems\":{},\"expr\":{}}}",
            js(name), span.start().line, ok, jarr(&elems), js(&val.chars().take(200).collect::<String>())
        ));
    }
}

fn main() {
    let args: Vec<String> = std::env::args().collect();
    if args.len() < 3 {
        eprintln!("usage: srcfacts <repo-root> <out.json> <file.rs>...");
        std::process::exit(2);
    }
    let root = &args[1];
    let mut files = Vec::new();
    for path in &args[3..] {
        let src = match std::fs::read_to_string(path) {
            Ok(s) => s,
            Err(e) => {
                eprintln!("srcfacts: cannot read {}: {}", path, e);
                std::process::exit(1);
            }
        };
        let ast = match syn::parse_file(&src) {
            Ok(a) => a,
            Err(e) => {
                eprintln!("srcfacts: cannot parse {}: {}", path, e);
                std::process::exit(1);
            }
        };
        let mut v = V { cfgs: vec![], consts: vec![], enums: vec![], fns: vec![], fn_stack: vec![], impl_stack: vec![], mod_stack: vec![], cfg_macros: vec![] };
        // crate-level / file-level inner attributes
        for a in &ast.attrs {
            if let Some((which, pred)) = cfg_pred(a) {
                v.cfgs.push(format!("{{\"attr\":{},\"pred\":{},\"kind\":\"file\",\"span\":{},\"fn\":\"\",\"tries\":[],\"jumps\":[],\"macros\":[],\"methods\":[],\"index\":0,\"lets\":[],\"assigns\":[],\"text\":\"\"}}", js(&which), js(&pred), sp(a.span())));
            }
        }
        v.visit_file(&ast);
        let rel = path.strip_prefix(root.as_str()).unwrap_or(path).trim_start_matches('/').to_string();
        let fns: Vec<String> = v.fns.iter().map(|f| {
            format!(
                "{{\"name\":{},\"impl\":{},\"trait\":{},\"span\":{},\"strings\":{},\"let_underscore\":{}}}",
                js(&f.name), js(&f.imp), js(&f.tr), sp(f.span), jarr(&f.strings),
                jarr(&f.let_underscore.iter().map(|l| l.to_string()).collect::<Vec<_>>())
            )
        }).collect();
        files.push(format!(
            "{{\"path\":{},\"cfgs\":{},\"cfg_macros\":{},\"consts\":{},\"enums\":{},\"fns\":{}}}",
            js(&rel), jarr(&v.cfgs), jarr(&v.cfg_macros), jarr(&v.consts), jarr(&v.enums), jarr(&fns)
        ));
    }
    let out = format!("{{\"files\":{}}}", jarr(&files));
    std::fs::write(&args[2], out).expect("srcfacts: cannot write output");
}

#!/usr/bin/env python3
"""Regenerates /verif/MANIFEST.json from the per-property metadata below (only properties whose
check module exists are claimed; the others are listed under not_applicable)."""
import json
import os

VERIF = os.path.dirname(os.path.dirname(os.path.abspath(__file__)))

TRUST = ("Trusted: rustc nightly MIR construction and type resolution, syn's parser, the transcription of the cited "
         "standards into /verif/tables/*.json, reviewed reasons in tables/discharged_sites.json. Decides only the "
         "structural clauses named; the behavioural quantifier of the property (all values / inputs) is not decided.")

META = {
    "C01": dict(tech="static analysis: sibling codec-skeleton agreement of UperWriter/UperReader (call sets, constraint arguments, nesting of framing combinators, count decisions) + path rules (scope restoration, length-determinant discipline) over MIR",
                text="Decides structural preconditions of UPER symmetry on the current tree: every descriptor and every "
                     "UperWriter/UperReader kind pair calls the same primitives with the same constraint descriptors, "
                     "scope save/restore on all paths, one shared field order in the generator, length-determinant "
                     "fragment discipline. Does not decide decode(encode(v)) == v.", ref="5/C01"),
    "C02": dict(tech="static analysis: frozen X.691 threshold/constant table matched against normalised MIR comparison and call facts, near-miss detection; sign-sensitivity of the 11.8 octet count (value origins); selector-bit patterns of the alternative encoding forms (dominating write_bit / read_bit branches) against an X.691 table",
                text="Decides that each X.691 threshold and constant the conformance profile needs (127/128, 16383/16384, 64K, "
                     "64/63, n-1, character widths, fragment unit and clamp) is present exactly in the writer and reader "
                     "function it belongs to, and that no off-by-one neighbour of such a value occurs. Does not decide "
                     "bit-exactness of composed encodings.", ref="4, 5/C02"),
    "C03": dict(tech="static analysis: sibling state-machine agreement over MIR aggregates and field writes, must-pass-through of the root-component countdown, path-resolved conditions of the presence-bit accesses",
                text="Decides agreement of the writer's and reader's presence-bitmap state machines (Scope construction, "
                     "per-variant cursor discipline, optional notion, error-site census). Not the bit positions for every shape.",
                ref="5/C03"),
    "C04": dict(tech="static analysis: interprocedural wire-taint to panic/alloc/loop sinks over MIR with dominating-guard discharge; visible-length path rule",
                text="Decides that no wire-derived value reaches a panic-capable operation (overflow/bounds/div asserts, "
                     "unwrap/expect/index/slice/copy_from_slice calls), allocation or loop bound in the decoders without a "
                     "dominating test, and that length-scoped readers test the visible end before advancing. "
                     "Over-approximates taint; does not decide stack depth or time.", ref="3/T1, 5/C04"),
    "C05": dict(tech="static analysis: dataflow facts on the extension-addition reader/writer (MIR value origins), constant-offset mirror of the transmitted addition count, no-error-after-content and unaltered-index rules of the open-type / index readers",
                text="Decides the dataflow facts cross-version decoding needs: the transmitted addition count bounds the "
                     "presence range and is retained, open-type skip uses the position captured before the content, both "
                     "optional wrappers wrap additions as open types. Not the decoded values for schema pairs.", ref="5/C05"),
    "C06": dict(tech="static analysis: must-check-before-success path rule over MIR CFGs (no Ok return around the range decision), path-resolved refusal (comparison outcomes and the extensible parameter along every path to a success return or emitting call); X.680 alphabet table decided by interval partitioning of Charset::is_valid",
                text="Decides that on every path to an Ok return of an encoding primitive / kind the value has been compared "
                     "with each present bound and every emitting call is dominated by that comparison; error vocabulary census.",
                ref="5/C06"),
    "C07": dict(tech="static analysis: field-provenance of copy constructors over MIR aggregates; dropped-parse census; sentinel agreement of the SIZE parser; name-match-is-an-alternative path rule of the import lookup",
                text="Decides that the resolve/copy stages of the front end construct every field of every model struct from the "
                     "same-named field of the source (no dropped, swapped or defaulted field). Not the token-consuming parser.",
                ref="5/C07"),
    "C08": dict(tech="static analysis: printer/parser table agreement over MIR string tests and match arms (word -> variant built), inverse-table check of the model conversions, constant provenance of printed constraints (syn templates + MIR origins)",
                text="Decides that for every asn::Type / Rust shape / tag class the generator can print, the attribute parser's arm "
                     "for the printed word builds the same variant; that into_asn inverts definition_type_to_rust_type; and that each "
                     "printed bound / flag / count comes from the getter it names. Does not decide equality of the re-read model for "
                     "every argument shape.", ref="5/C08"),
    "C09": dict(tech="static analysis: keyword table inclusion (syn const arrays), who-may-print rule, sibling agreement of the two type printers (MIR match arms), once-only name mangling (flag and probe of every literal rendering, closure parameters resolved through own calls)",
                text="Decides that the generator's keyword escape table covers every Rust keyword that can be an ASN.1 identifier "
                     "and that field names are printed through the escaping helper.", ref="5/C09"),
    "C10": dict(tech="static analysis: sibling boundary/skeleton agreement of PackedWrite/PackedRead pairs, length-determinant discipline, parameter-taint to panic sinks, selector-bit agreement of writer and reader paths, loop-variance of the continuation-fragment destination",
                text="Decides writer/reader agreement on every threshold and constraint argument of the 13 primitive pairs, the "
                     "fragment protocol (returned fragment size used / read size tested against 16K) and error-not-panic for "
                     "inadmissible arguments. Not the numeric bit pattern.", ref="5/C10"),
    "C11": dict(tech="static analysis: dominance of bounds checks over accesses, no panicking subtraction ahead of the checks, sibling boundary agreement, cursor discipline over MIR",
                text="Decides the error-not-panic clause and the cursor/growth discipline of the bit-level primitives.", ref="5/C11"),
    "C12": dict(tech="static analysis: lookup-provenance path rule, cast census, normalisation-twin table, Option-key equality guarded by is_some, name-match-is-an-alternative path rule of the module selection, normaliser and resolver field provenance over MIR",
                text="Decides that value-reference resolution can only copy the looked-up literal or fail, uses no lossy cast, "
                     "and that literal-sensitive parse-time normalisation has a post-resolve twin.", ref="5/C12"),
    "C13": dict(tech="static analysis: event-before-event path rules on the tokenizer CFG (flush before separator events, consume only what was peeked, delimiter consumed where the nesting level changes), per-character-only access to the text",
                text="Decides that every separator event flushes the pending token before the next append and that token "
                     "locations are built from the same line/column expressions.", ref="5/C13"),
    "C14": dict(tech="static analysis: census and discharge of panic-capable sites reachable from the front-end entry points; recursion-descends rule on the call graph",
                text="Decides that no panic-capable construct is reachable from tokenizer/parser/resolver/converters except "
                     "reviewed ones and that recursion descends structurally or consumes input.", ref="5/C14"),
    "C15": dict(tech="static analysis: guard-constant/variant/cast table of the integer cascade, bound provenance and fallbacks of absent bounds, edge-cut reachability of the unsigned choice, extensible guard at every narrowing call (MIR)",
                text="Decides table consistency of the integer-type cascade (guard constant, constructed variant, cast width agree "
                     "and ascend; extensible -> 64 bit) and provenance of min/max. Not narrowest-type for all pairs.", ref="5/C15"),
    "C16": dict(tech="static analysis: enum declaration order + derived Ord, sort-key types, who-sorts / no-keyed-order rule, X.680 universal tag table",
                text="Decides the ordering mechanism for SET components and tag assignment tables.", ref="5/C16"),
    "C17": dict(tech="static analysis: counter-advance path rule, wire-type and width-cascade sibling agreement, narrow-before-arithmetic rule of the 32-bit decoders, recursion of the ProtobufEq wrappers, varint length of reader vs writer, unconditional tag of enclosed content (config with feature protobuf)",
                text="Decides field-counter discipline, wire-type and width agreement between protobuf writer and reader, and "
                     "back-end neutrality. Compiles a configuration the pinned test baseline never builds.", ref="5/C17"),
    "C18": dict(tech="static analysis: agreement of two independent RustType->wire-type chains, field numbering, writer width cascade = model cascade",
                text="Decides that the runtime writer and the .proto generator agree on wire type and field number per Rust type.",
                ref="5/C18"),
    "C19": dict(tech="static analysis: cfg-region neutrality (syn cfg spans x MIR of both configurations), panic-capable sites and state access of feature-only code in the MIR of the feature build",
                text="Decides the property up to listed assumptions: code gated on descriptive-deserialize-errors contains no "
                     "control transfer, writes only gated state, binds nothing ungated code reads, and the ungated skeleton is "
                     "identical in both configurations.", ref="3/T9, 5/C19"),
    "C20": dict(tech="static analysis: inverse-table, boundary and skeleton agreement of DER writer/reader; bit provenance of the identifier octet; absence of PER-only constants in the ENUMERATED codec",
                text="Decides class-bit table inversion, length-form boundary agreement and skeleton symmetry of the implemented DER "
                     "primitives.", ref="5/C20"),
}


def main():
    props = [json.loads(l) for l in open(os.path.join(VERIF, "properties.jsonl"))]
    checks = []
    na = []
    for p in props:
        pid = p["id"]
        mod = os.path.join(VERIF, "asn1verif", "props", pid.lower() + ".py")
        if os.path.exists(mod):
            m = META[pid]
            checks.append({
                "property_id": pid,
                "quick_cmd": "./check %s --tier quick" % pid,
                "thorough_cmd": "./check %s --tier thorough" % pid,
                "evidence_file": "/verif/evidence/%s.json" % pid,
                "replay_cmd_template": "./check %s --replay {path}" % pid,
                "engine": "asn1verif",
                "level_claimed": {"category": "other", "text": m["text"], "design_ref": "DESIGN.md section " + m["ref"]},
                "level_note": TRUST,
                "technique": m["tech"],
            })
        else:
            na.append({"property_id": pid,
                       "reason": "no rule implemented yet for this property; the structural clauses designed in DESIGN.md "
                                 "section 5 are not built, and the behavioural quantifier itself is outside static analysis"})
    manifest = {
        "version": 1,
        "setup_cmd": "./setup.sh",
        "hooks": {
            "guard": "asn1rs_verif",
            "enable": "none needed: the analysis is purely static; /repo is compiled unmodified with cargo +nightly check through the mirfacts rustc wrapper",
            "baseline_off_cmd": "cd /repo && cargo nextest run --workspace --no-fail-fast --tool-config-file pb:/w/lib/nextest.toml --profile pb --test-threads 8 --offline",
            "source_commits": [],
            "add_only": True,
        },
        "engines": [
            {"name": "mirfacts", "path": "/verif/tools/mirfacts", "serves_properties": [c["property_id"] for c in checks],
             "kind_free_text": "rustc_private driver (nightly) injected as RUSTC_WORKSPACE_WRAPPER; serialises type-resolved MIR of the workspace crates as JSON"},
            {"name": "srcfacts", "path": "/verif/tools/srcfacts", "serves_properties": ["C08", "C09", "C19"],
             "kind_free_text": "syn-based source fact extractor: cfg-gated regions, string vocabularies, const arrays"},
            {"name": "asn1verif", "path": "/verif/asn1verif", "serves_properties": [c["property_id"] for c in checks],
             "kind_free_text": "python rules over the facts: CFG/dominators, value origins, boundary normal form, taint, tables"},
        ],
        "checks": checks,
        "notes": "Static analysis only: no code of /repo is executed. Fact cache keyed by content hash of /repo under /verif/.cache.",
        "not_applicable": na,
    }
    with open(os.path.join(VERIF, "MANIFEST.json"), "w") as fh:
        json.dump(manifest, fh, indent=1)
    print("claimed:", [c["property_id"] for c in checks])


if __name__ == "__main__":
    main()

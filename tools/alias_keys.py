#!/usr/bin/env python3
"""Adds the origin based key (`…:~<origins>#n`) of every sink that currently matches a reviewed entry or an open finding under
its name based key, so that the entry survives the introduction / renaming of locals.  Run on the unchanged tree only."""
import json
import os
import sys

V = os.path.dirname(os.path.dirname(os.path.abspath(__file__)))
sys.path.insert(0, V)
os.environ["VERIF_NO_EVIDENCE"] = "1"
from asn1verif import core, taint as TT          # noqa: E402
from asn1verif.props import c04, c10, c14        # noqa: E402

tp = os.path.join(V, "tables", "discharged_sites.json")
tables = json.load(open(tp))
kp = os.path.join(V, "known_findings.json")
known = json.load(open(kp))
added = 0


def alias(section, rulename, sinks):
    global added
    tab = tables.get(section, {})
    for s in sinks:
        if s.okey == s.key:
            continue
        if s.key in tab and s.okey not in tab:
            tab[s.okey] = tab[s.key]
            added += 1
        for e in list(known["findings"]):
            if e.get("rule") == rulename and e.get("key") == s.key and e.get("status") == "open":
                if not any(x.get("rule") == rulename and x.get("key") == s.okey for x in known["findings"]):
                    d = dict(e)
                    d["key"] = s.okey
                    d["alias_of"] = s.key
                    known["findings"].append(d)
                    added += 1


ctx = core.Ctx("C04")
P = ctx.program()
T = TT.Taint(P, c04.entry_bodies(P), source_traits=c04.SOURCE_TRAITS, tainted_fields=c04.TAINTED_FIELDS, untaintable_fields=c04.CURSOR_FIELDS).run()
alias("C04", "C04.R1", T.sinks())
ctx = core.Ctx("C14")
T = TT.Taint(P, c14.entries(ctx, "x"), everything=True).run()
alias("C14", "C14.R1", T.sinks())
try:
    T = c10.param_taint(P) if hasattr(c10, "param_taint") else None
except Exception:
    T = None
if T is not None:
    alias("C10.R3", "C10.R3", T.sinks())
json.dump(tables, open(tp, "w"), indent=1)
json.dump(known, open(kp, "w"), indent=1)
print("aliases added:", added)

"""String-keyed tables in MIR: `match s { "word" => … }`, `if s.eq_ignore_ascii_case("word")`, format templates and what
their arguments are printed from.  Used for printer / parser agreement rules (T7)."""
import re

from . import expr as X
from . import facts as F
from .mir import span_tuple, span_loc

STR_TESTS = ("eq", "ne", "eq_ignore_ascii_case", "ends_with", "starts_with")


class StrTest:
    __slots__ = ("word", "kind", "bb", "true_bb", "false_bb", "loc", "subject")

    def __repr__(self):
        return "<%s %r @%s>" % (self.kind, self.word, self.loc)


def unquote(s):
    try:
        return bytes(s[1:-1], "utf-8").decode("unicode_escape") if "\\" in s else s[1:-1]
    except Exception:
        return s[1:-1]


def const_str(ex, P=None, crate=None):
    """string literal behind an origin expression (also through a promoted constant), or None"""
    e = ex
    for _ in range(8):
        if e[0] in ("ref", "deref", "mut"):
            e = e[1]
        elif e[0] == "cast":
            e = e[2]
        else:
            break
    if e[0] == "promoted" and P is not None:
        pb = P.bodies.get("%s::%s::promoted[%s]" % (crate, e[1], e[2]))
        if pb is not None:
            lits = [o["s"] for bb, j, s in pb.all_statements() if s["k"] == "assign"
                    for o in [s["rv"].get("op")] if isinstance(o, dict) and o.get("k") == "const" and o.get("ty") == "&str"]
            if len(lits) == 1:
                return unquote(lits[0])
        return None
    if e[0] == "constx" and e[2] in ("&str", "&'static str") and len(e[1]) >= 2 and e[1][0] == '"':
        return unquote(e[1])
    return None


def str_tests(P, body, O=None):
    """string comparisons against a literal whose result controls a branch"""
    O = O or X.Origins(body, P)
    out = []
    for cs in body.calls():
        if cs.name not in STR_TESTS:
            continue
        args = O.call_args(cs)
        words = [(i, const_str(a, P, body.crate)) for i, a in enumerate(args)]
        words = [(i, w) for i, w in words if w is not None]
        if len(words) != 1 or len(args) != 2:
            continue
        i, w = words[0]
        # the branch: the destination local is switched on in the continuation block (possibly through `!`)
        dest = cs.dest["l"] if not cs.dest["p"] else None
        tb = cs.target
        if dest is None or tb is None:
            continue
        found = None
        seen = set()
        while tb is not None and tb not in seen and found is None:
            seen.add(tb)
            t = body.blocks[tb]["term"]
            if t and t["k"] == "switch":
                ex = O.switch_cond(tb)
                neg = False
                e = ex
                while e[0] == "un" and e[1] == "Not":
                    neg = not neg
                    e = e[2]
                if e[0] == "call" and e[4] == span_loc(cs.sp) and X.last_seg(e[1]) == cs.name:
                    found = (tb, t, neg)
                break
            if t and t["k"] == "goto":
                tb = t["t"]
            else:
                break
        if found is None:
            # the result was stored in a flag and is tested later (`let is_x = word == "x"; .. if is_x`): the one switch whose
            # condition is this very call
            cands = []
            for sbb, st_ in body.switches():
                e = O.switch_cond(sbb)
                neg = False
                while e[0] == "un" and e[1] == "Not":
                    neg = not neg
                    e = e[2]
                while e[0] == "cast":
                    e = e[2]
                if e[0] == "call" and e[4] == span_loc(cs.sp) and X.last_seg(e[1]) == cs.name and body.dominates(cs.bb, sbb):
                    cands.append((sbb, st_, neg))
            if len(cands) == 1:
                found = cands[0]
        if found is None:
            continue
        tb, t, neg = found
        if len(t["vals"]) != 1:
            continue
        zero_t, other_t = t["targets"][0], t["otherwise"]
        if int(t["vals"][0]) != 0:
            zero_t, other_t = other_t, zero_t
        true_bb, false_bb = other_t, zero_t
        if neg:
            true_bb, false_bb = false_bb, true_bb
        if cs.name == "ne":
            true_bb, false_bb = false_bb, true_bb
        st = StrTest()
        st.word = w
        st.kind = "eq" if cs.name == "ne" else cs.name
        st.bb = cs.bb
        st.true_bb = true_bb
        st.false_bb = false_bb
        st.loc = span_loc(cs.sp)
        st.subject = F.rd(args[1 - i])
        out.append(st)
    return out


def true_region(body, st, tests, exclusive=False):
    """blocks executed when the test holds: reachable from the true edge without passing through another string test;
    `exclusive` removes what the false edge reaches as well (for nested two-way tests)"""
    stop = {t.bb for t in tests if t is not st and not body.dominates(st.true_bb, t.bb)}
    seen = set()
    work = [st.true_bb]
    while work:
        b = work.pop()
        if b in seen or b in stop:
            continue
        seen.add(b)
        for s in body.succ[b]:
            work.append(s)
    if exclusive:
        seen -= body.reach_from(st.false_bb)
    return seen


def mentions(P, body, blocks, adt_suffix, depth=2, _seen=None):
    """variants of the enum `…adt_suffix` built inside `blocks`: aggregates, constructor fn items passed around, closures
    created there, and local helper functions returning the type (followed `depth` levels)"""
    out = set()
    _seen = _seen if _seen is not None else set()
    variants = None
    adt = None
    for k, a in P.adts.items():
        if k.endswith(adt_suffix) and a.get("kind") == "Enum":
            adt = a
            break
    if adt is not None:
        variants = {v["name"] for v in adt["variants"]}
    ctor = re.compile(r"\b" + re.escape(adt_suffix.split("::", 1)[-1] if adt_suffix.startswith("asn1rs_model::") else adt_suffix)
                      + r"(?:::<[^{}]*?>)?::(\w+)")

    def from_path(s):
        for m in ctor.finditer(s or ""):
            nm = m.group(1)
            if variants is None or nm in variants:
                out.add(nm)
            else:
                # helper constructor: follow
                follow(nm, s)

    def follow(name, s):
        if depth <= 0:
            return
        for cand in P.find(body.crate, "::" + name):
            if cand.def_kind not in ("AssocFn", "Fn") or cand.path in _seen:
                continue
            ist = cand.impl_self_ty or ""
            if not ist.split("<")[0].endswith(adt_suffix.split("::")[-1]):
                continue
            _seen.add(cand.path)
            out.update(mentions(P, cand, cand.reachable, adt_suffix, depth - 1, _seen))

    for bb in sorted(blocks):
        blk = body.blocks[bb]
        for s in blk["stmts"]:
            if s["k"] != "assign":
                continue
            rv = s["rv"]
            if rv["k"] == "agg":
                if rv.get("ak") == "adt" and (rv["adt"] == adt_suffix or rv["adt"].endswith("::" + adt_suffix)):
                    out.add(rv["variant"])
                elif rv.get("ak") == "closure":
                    cb = P.bodies.get("%s::%s" % (body.crate, rv["def"]))
                    if cb is not None and cb.path not in _seen:
                        _seen.add(cb.path)
                        out.update(mentions(P, cb, cb.reachable, adt_suffix, depth, _seen))
            for key in ("op", "l", "r", "a"):
                o = rv.get(key)
                if isinstance(o, dict) and o.get("k") == "const":
                    from_path(o.get("s", ""))
            for o in rv.get("ops", []):
                if o.get("k") == "const":
                    from_path(o.get("s", ""))
        t = blk["term"]
        if t and t["k"] == "call":
            f = t["func"]
            if f["k"] == "const":
                fn = f.get("fn") or {}
                from_path(fn.get("full") or f.get("s", ""))
            for o in t["args"]:
                if o.get("k") == "const":
                    from_path(o.get("s", ""))
    return out


PLACEHOLDER = re.compile(r"\{\{|\}\}|\{[^{}]*\}")


def placeholders(t):
    return [m.group(0) for m in PLACEHOLDER.finditer(t) if m.group(0) not in ("{{", "}}")]


FORMAT_MACROS = ("format", "write", "writeln", "vec", "println", "panic")


def _templates(strings, helper=None):
    return sorted(((s["line"], 0, s["s"], helper) for s in strings
                   if s["ctx"].startswith("macro:") and s["ctx"].split(":")[1] in FORMAT_MACROS and placeholders(s["s"])), key=lambda x: x[0])


def format_sites(src_fn, bodies, P):
    """pairs each format template of a source function with the origins of the values printed into its placeholders.
    `bodies` are the MIR bodies of the function and of its closures.  Returns (templates, arguments) for `align`.
    Templates of helpers that were expanded into the function (inline.py) are kept apart, and so are the arguments of each
    expansion: a helper called twice prints its templates twice."""
    templ = _templates(src_fn.get("own_strings", src_fn["strings"]))
    for hp, hf in sorted(src_fn.get("helper_fns", {}).items()):
        templ.extend(_templates(hf["strings"], hp))
    args = []
    for b in bodies:
        O = X.Origins(b, P)
        for cs in b.calls():
            if cs.name in ("new_display", "new_debug", "new_lower_hex", "new_upper_hex") and cs.args:
                sp = span_tuple(cs.term["sp"]["s"]) if isinstance(cs.term.get("sp"), dict) else None
                a = O.call_args(cs)[0]
                inl = b.blocks[cs.bb].get("inl")
                args.append(((sp[1], sp[2]) if sp else (0, 0), F.rd(a), cs.name, a, b, tuple(inl) if inl else None))
    args.sort(key=lambda x: x[0])
    return templ, args


def _instantiate(t, args, P):
    """a placeholder that is filled with a string literal is replaced by the literal (`"const {}: .."` printed with "MIN")"""
    out_args = []
    pieces = re.split(r"(\{\{|\}\}|\{[^{}]*\})", t)
    res = []
    k = 0
    for piece in pieces:
        if piece.startswith("{") and piece.endswith("}") and piece not in ("{{", "}}"):
            a = args[k]
            k += 1
            lit = const_str(a[3], P, a[4].crate) if piece in ("{}",) else None
            if lit is not None and "{" not in lit and "}" not in lit:
                res.append(lit)
            else:
                res.append(piece)
                out_args.append(a)
        else:
            res.append(piece)
    return "".join(res), out_args


def align(templ, args, P=None):
    """sequential alignment of templates (source order) with printed arguments (source order), separately for the function's
    own templates and for every expansion of a helper; returns [(line, template, [arguments])] or None when the counts differ"""
    groups = {}
    for a in args:
        groups.setdefault(a[5] if len(a) > 5 else None, []).append(a)
    out = []
    helpers_seen = set()
    for tag, gargs in sorted(groups.items(), key=lambda kv: (kv[0] is not None, kv[0] or ())):
        helper = tag[0] if tag else None
        gt = [t for t in templ if (t[3] if len(t) > 3 else None) == helper]
        helpers_seen.add(helper)
        need = sum(len(placeholders(t[2])) for t in gt)
        if need != len(gargs):
            return None
        i = 0
        for t in gt:
            k = len(placeholders(t[2]))
            text, rest = _instantiate(t[2], gargs[i:i + k], P)
            out.append((t[0], text, rest))
            i += k
    # templates whose group printed nothing at all (no arguments found) cannot be aligned
    for t in templ:
        if (t[3] if len(t) > 3 else None) not in helpers_seen and placeholders(t[2]):
            return None
    out.sort(key=lambda x: x[0])
    return out


def controlling_branch(body, O, bb):
    """nearest two-way switch that decides whether block `bb` runs: (switch_bb, condition origin, bb_on_nonzero_side)"""
    cands = [s for s, t in body.switches() if s != bb and body.dominates(s, bb) and len(t["vals"]) == 1]
    cands.sort(key=lambda s: -len(body.dom.get(s, ())))
    for s in cands:
        t = body.blocks[s]["term"]
        zero_t, other_t = t["targets"][0], t["otherwise"]
        if int(t["vals"][0]) != 0:
            zero_t, other_t = other_t, zero_t
        rz = bb in body.reach_from(zero_t)
        ro = bb in body.reach_from(other_t)
        if rz == ro:
            continue
        ex = O.switch_cond(s)
        neg = False
        while ex[0] == "un" and ex[1] == "Not":
            neg = not neg
            ex = ex[2]
        return s, ex, (ro != neg)
    return None


def literal_sites(body, text):
    """blocks in which the string literal `text` is used"""
    out = []
    for bb in sorted(body.reachable):
        blk = body.blocks[bb]
        hit = False
        for s in blk["stmts"]:
            if s["k"] == "assign":
                rv = s["rv"]
                for o in [rv.get(k) for k in ("op", "l", "r", "a")] + list(rv.get("ops", [])):
                    if isinstance(o, dict) and o.get("k") == "const" and o.get("ty") == "&str" and unquote(o["s"]) == text:
                        hit = True
        t = blk["term"]
        if t and t["k"] == "call":
            for o in t["args"]:
                if o.get("k") == "const" and o.get("ty") == "&str" and unquote(o["s"]) == text:
                    hit = True
        if hit:
            out.append(bb)
    return out

"""In-memory model of the MIR facts written by tools/mirfacts (see DESIGN.md section 2.3)."""
import glob
import json
import os
from collections import defaultdict


def place_str(pl):
    s = "_%d" % pl["l"]
    for p in pl["p"]:
        k = p["k"]
        if k == "deref":
            s = "(*%s)" % s
        elif k == "field":
            s = "%s.%s" % (s, p["n"])
        elif k == "downcast":
            s = "(%s as %s)" % (s, p["n"])
        elif k == "index":
            s = "%s[_%d]" % (s, p["l"])
        elif k == "cindex":
            s = "%s[%s%d]" % (s, "-" if p["from_end"] else "", p["offset"])
        elif k == "subslice":
            s = "%s[%d..%s%d]" % (s, p["from"], "-" if p["from_end"] else "", p["to"])
        else:
            s = "%s.?%s" % (s, p.get("s", k))
    return s


def span_file(sp):
    return sp["s"].split(":")[0] if sp else ""


def span_line(sp):
    try:
        return int(sp["s"].split(":")[1])
    except Exception:
        return 0


def span_loc(sp):
    """file:line of the user-visible location (call site for macro expansions)."""
    if not sp:
        return "?"
    s = sp.get("exp", {}).get("cs") or sp["s"]
    parts = s.split(":")
    return "%s:%s" % (parts[0], parts[1])


def span_tuple(s):
    """'file:l:c:el:ec' -> (file, l, c, el, ec)"""
    parts = s.rsplit(":", 4)
    return (parts[0], int(parts[1]), int(parts[2]), int(parts[3]), int(parts[4]))


class CallSite:
    __slots__ = ("body", "bb", "term", "fn", "args", "dest", "target", "sp")

    def __init__(self, body, bb, term):
        self.body = body
        self.bb = bb
        self.term = term
        self.fn = term["func"].get("fn") if term["func"]["k"] == "const" else None
        self.args = term["args"]
        self.dest = term["dest"]
        self.target = term["t"]
        self.sp = term.get("fsp") or term.get("sp")

    @property
    def callee(self):
        """Best static name of the callee: the resolved instance when there is one."""
        if self.fn is None:
            return None
        return self.fn.get("resolved") or self.fn["def"]

    @property
    def decl(self):
        return self.fn["def"] if self.fn else None

    @property
    def name(self):
        return self.fn["name"] if self.fn else None

    @property
    def trait(self):
        return self.fn.get("trait") if self.fn else None

    @property
    def is_local(self):
        if self.fn is None:
            return False
        return self.fn.get("resolved_local", self.fn["local"])

    def loc(self):
        return span_loc(self.sp)

    def site_loc(self):
        """file:line of the call as seen from the analysed function: for a call inside an expanded helper (inline.py) the
        place where the helper was called"""
        sp = self.body.blocks[self.bb].get("inl_sp")
        return span_loc(sp) if sp else self.loc()

    def site_lines(self):
        """(first line, last line) of the expansion call this call belongs to, or None outside expansions"""
        sp = self.body.blocks[self.bb].get("inl_sp")
        if not sp:
            return None
        t = span_tuple(sp["s"])
        return (t[1], t[3])

    def __repr__(self):
        return "<call %s at %s>" % (self.callee, self.loc())


class Body:
    def __init__(self, crate, raw):
        self.crate = crate
        self.raw = raw
        self.path = raw["path"]
        self.key = crate + "::" + raw["path"]
        self.name = raw.get("name", "")
        # promoted constants are bodies of their own; they must never be taken for the function they were promoted from
        self.def_kind = raw["def_kind"] if "::promoted[" not in raw["path"] else "Promoted"
        self.blocks = raw["blocks"]
        self.locals = raw["locals"]
        self.arg_count = raw["arg_count"]
        self.impl_trait = raw.get("impl_trait")
        self.impl_self_ty = raw.get("impl_self_ty")
        self.root = raw.get("root")
        self.parent = raw.get("parent")
        self.derived = raw.get("derived", False)
        self.file = span_file(raw["span"])
        self.line = span_line(raw["span"])
        self._succ = None
        self._pred = None
        self._dom = None
        self._calls = None
        self._names = None
        self._defs = None
        self._reach = None

    # ------------------------------------------------------------- names
    @property
    def names(self):
        """local index -> source name (only for whole-local debug entries)"""
        if self._names is None:
            n = {}
            for d in self.raw["debug"]:
                pl = d.get("pl")
                if pl is not None and not pl["p"]:
                    n.setdefault(pl["l"], d["name"])
            self._names = n
        return self._names

    def local_by_name(self, name):
        return [l for l, n in self.names.items() if n == name]

    def param_names(self):
        out = {}
        for d in self.raw["debug"]:
            if "arg" in d and d.get("pl") is not None and not d["pl"]["p"]:
                out[d["pl"]["l"]] = d["name"]
        return out

    def upvar_names(self):
        """for closures: field index of the environment -> captured variable name"""
        out = {}
        for d in self.raw["debug"]:
            pl = d.get("pl")
            if pl is None or pl["l"] != 1:
                continue
            fields = [p for p in pl["p"] if p["k"] == "field"]
            if fields:
                out.setdefault(fields[0]["i"], d["name"])
        return out

    # ------------------------------------------------------------- cfg
    def successors(self, bb, unwind=False):
        t = self.blocks[bb]["term"]
        if t is None:
            return []
        k = t["k"]
        out = []
        if k == "goto":
            out = [t["t"]]
        elif k == "switch":
            out = list(t["targets"]) + [t["otherwise"]]
        elif k in ("drop", "assert"):
            out = [t["t"]]
            if unwind and t.get("unwind") is not None:
                out.append(t["unwind"])
        elif k == "call":
            if t["t"] is not None:
                out = [t["t"]]
            if unwind and t.get("unwind") is not None:
                out.append(t["unwind"])
        return out

    @property
    def succ(self):
        if self._succ is None:
            self._succ = [self.successors(i) for i in range(len(self.blocks))]
        return self._succ

    @property
    def pred(self):
        if self._pred is None:
            p = [[] for _ in self.blocks]
            for i, ss in enumerate(self.succ):
                for s in ss:
                    p[s].append(i)
            self._pred = p
        return self._pred

    @property
    def reachable(self):
        if self._reach is None:
            seen = {0}
            st = [0]
            while st:
                b = st.pop()
                for s in self.succ[b]:
                    if s not in seen:
                        seen.add(s)
                        st.append(s)
            self._reach = seen
        return self._reach

    @property
    def dom(self):
        """dominator sets (block -> set of dominating blocks), over normal edges"""
        if self._dom is None:
            n = len(self.blocks)
            reach = self.reachable
            order = self.rpo()
            dom = {b: None for b in reach}
            dom[0] = {0}
            changed = True
            while changed:
                changed = False
                for b in order:
                    if b == 0:
                        continue
                    ps = [dom[p] for p in self.pred[b] if p in reach and dom[p] is not None]
                    if not ps:
                        continue
                    new = set.intersection(*ps) | {b}
                    if new != dom[b]:
                        dom[b] = new
                        changed = True
            self._dom = {b: (d if d is not None else {b}) for b, d in dom.items()}
        return self._dom

    def rpo(self):
        seen = set()
        post = []
        stack = [(0, iter(self.succ[0]))]
        seen.add(0)
        while stack:
            b, it = stack[-1]
            adv = False
            for s in it:
                if s not in seen:
                    seen.add(s)
                    stack.append((s, iter(self.succ[s])))
                    adv = True
                    break
            if not adv:
                post.append(b)
                stack.pop()
        return list(reversed(post))

    def dominates(self, a, b):
        return b in self.dom and a in self.dom[b]

    def reach_from(self, start, avoid=()):
        """blocks reachable from block `start` (inclusive) over normal edges without entering `avoid`"""
        avoid = set(avoid)
        seen = set()
        st = [start]
        while st:
            b = st.pop()
            if b in seen or b in avoid:
                continue
            seen.add(b)
            st.extend(self.succ[b])
        return seen

    def return_blocks(self):
        return [i for i in self.reachable if self.blocks[i]["term"] and self.blocks[i]["term"]["k"] == "return"]

    def sccs(self):
        """Tarjan SCCs of the normal-edge CFG; returns list of sets with size>1 or self loop"""
        index = {}
        low = {}
        onst = set()
        st = []
        out = []
        counter = [0]
        import sys
        sys.setrecursionlimit(10000)

        def visit(v):
            index[v] = low[v] = counter[0]
            counter[0] += 1
            st.append(v)
            onst.add(v)
            for w in self.succ[v]:
                if w not in index:
                    visit(w)
                    low[v] = min(low[v], low[w])
                elif w in onst:
                    low[v] = min(low[v], index[w])
            if low[v] == index[v]:
                comp = set()
                while True:
                    w = st.pop()
                    onst.discard(w)
                    comp.add(w)
                    if w == v:
                        break
                if len(comp) > 1 or v in self.succ[v]:
                    out.append(comp)

        for b in sorted(self.reachable):
            if b not in index:
                visit(b)
        return out

    # ------------------------------------------------------------- statements
    def calls(self):
        if self._calls is None:
            cs = []
            for i in sorted(self.reachable):
                t = self.blocks[i]["term"]
                if t and t["k"] == "call":
                    cs.append(CallSite(self, i, t))
            self._calls = cs
        return self._calls

    def asserts(self):
        out = []
        for i in sorted(self.reachable):
            t = self.blocks[i]["term"]
            if t and t["k"] == "assert":
                out.append((i, t))
        return out

    def switches(self):
        out = []
        for i in sorted(self.reachable):
            t = self.blocks[i]["term"]
            if t and t["k"] == "switch":
                out.append((i, t))
        return out

    @property
    def defs(self):
        """local -> list of (bb, idx, kind, payload); idx = statement index or -1 for terminator.
        kind: 'assign' (payload rvalue, whole-local), 'partial' (payload (place, rvalue)),
        'call' (payload CallSite, whole-local dest), 'callpartial'"""
        if self._defs is None:
            d = defaultdict(list)
            for i in sorted(self.reachable):
                bl = self.blocks[i]
                for j, s in enumerate(bl["stmts"]):
                    if s["k"] == "assign":
                        pl = s["pl"]
                        if not pl["p"]:
                            d[pl["l"]].append((i, j, "assign", s["rv"]))
                        else:
                            d[pl["l"]].append((i, j, "partial", (pl, s["rv"])))
                    elif s["k"] == "setdiscr":
                        d[s["pl"]["l"]].append((i, j, "partial", (s["pl"], None)))
                t = bl["term"]
                if t and t["k"] == "call":
                    pl = t["dest"]
                    cs = CallSite(self, i, t)
                    if not pl["p"]:
                        d[pl["l"]].append((i, -1, "call", cs))
                    else:
                        d[pl["l"]].append((i, -1, "callpartial", (pl, cs)))
            self._defs = d
        return self._defs

    def all_statements(self):
        for i in sorted(self.reachable):
            bl = self.blocks[i]
            for j, s in enumerate(bl["stmts"]):
                yield i, j, s

    def __repr__(self):
        return "<Body %s>" % self.key


class Crate:
    def __init__(self, raw, filename):
        self.raw = raw
        self.name = raw["crate"]
        self.cfg = raw["cfg"]
        self.crate_types = raw["crate_types"]
        self.test = raw["test"]
        self.filename = filename
        self.input = raw["input"]


class Program:
    """All MIR facts of one build configuration."""

    def __init__(self, directory):
        self.directory = directory
        self.crates = []
        self.bodies = {}      # key -> Body
        self.by_path = defaultdict(list)   # crate-local path -> [Body]
        self.adts = {}
        self.impls = []
        self.traits = {}
        self.consts = {}
        for f in sorted(glob.glob(os.path.join(directory, "*.json"))):
            with open(f) as fh:
                raw = json.load(fh)
            c = Crate(raw, f)
            # asn1rs_model is compiled twice (host dependency of the proc-macro crate without
            # `protobuf`, and the real dependency); keep the one with most features.
            self.crates.append(c)
        chosen = {}
        for c in self.crates:
            kind = (c.name, tuple(c.crate_types), c.test, c.input if c.test or "Executable" in c.crate_types else "")
            if kind not in chosen or len(c.cfg) > len(chosen[kind].cfg):
                chosen[kind] = c
        self.units = list(chosen.values())
        for c in self.units:
            unit_is_main_lib = (not c.test) and ("Executable" not in c.crate_types)
            for rb in c.raw["bodies"]:
                b = Body(c.name, rb)
                b.unit = c
                if unit_is_main_lib:
                    self.bodies[b.key] = b
                    self.by_path[rb["path"]].append(b)
                else:
                    self.bodies.setdefault(b.key + "@" + os.path.basename(c.filename), b)
            if unit_is_main_lib:
                for a in c.raw["adts"]:
                    self.adts[c.name + "::" + a["path"]] = a
                for im in c.raw["impls"]:
                    im = dict(im)
                    im["crate"] = c.name
                    self.impls.append(im)
                for t in c.raw["traits"]:
                    self.traits[c.name + "::" + t["path"]] = t
                for k in c.raw["consts"]:
                    self.consts[c.name + "::" + k["path"]] = k
        # functions the reviewed tree does not have are expanded into their callers (see inline.py)
        from . import inline
        inline.normalise(self, os.path.dirname(os.path.dirname(os.path.abspath(__file__))))

    def lib_bodies(self, crate=None):
        for b in self.bodies.values():
            if "@" in b.key.split("::")[-1]:
                continue
            if crate is None or b.crate == crate:
                yield b

    def body(self, crate, path):
        return self.bodies.get(crate + "::" + path)

    def find(self, crate, suffix):
        """bodies of `crate` whose path ends with `suffix` (excluding promoted)"""
        return [b for b in self.lib_bodies(crate) if b.path.endswith(suffix) and "::promoted[" not in b.path]

    def one(self, crate, suffix):
        r = self.find(crate, suffix)
        if len(r) != 1:
            raise KeyError("anchor %s::…%s matched %d bodies" % (crate, suffix, len(r)))
        return r[0]

    def closures_of(self, body):
        """closure bodies created (transitively) inside `body`"""
        prefs = tuple(p + "::{closure#" for p in [body.path] + list(body.raw.get("inlined", [])))
        return [b for b in self.lib_bodies(body.crate) if b.path.startswith(prefs) and "::promoted[" not in b.path]

    def resolve_callee(self, crate, cs):
        """Body of the callee of a call site if it is a workspace function with MIR."""
        if cs.fn is None:
            return None
        name = cs.fn.get("resolved") or cs.fn["def"]
        ccrate = cs.fn["crate"]
        # local paths are printed without crate prefix; extern workspace paths with it
        for cand in (crate + "::" + name, name):
            if cand in self.bodies:
                return self.bodies[cand]
        if ccrate in ("asn1rs", "asn1rs_model", "asn1rs_macros"):
            cand = name if name.startswith(ccrate + "::") else ccrate + "::" + name
            if cand in self.bodies:
                return self.bodies[cand]
            # extern path for impl methods: `<asn1rs_model::x::T as Trait>::m` -> local `<x::T as Trait>::m`
            stripped = name.replace(ccrate + "::", "")
            cand = ccrate + "::" + stripped
            if cand in self.bodies:
                return self.bodies[cand]
        return None

"""Helper normalisation (DESIGN.md section 2.4, "unknown helpers are inlined").

The rules of this package are written against the functions of the reviewed tree (tables/known_fns.json lists them).
A function the reviewed tree does not have - typically a private helper a later change extracted from a reviewed
function - is spliced into each of its callers before any rule looks at the program, so that the rules see the statements
where they used to be.  Inlining preserves behaviour, therefore analysing the inlined program is as valid as analysing
the original one; the table only chooses *which* calls are expanded, never whether something is checked: the statements of
the helper are analysed in every caller's copy, and the helper's own body leaves the program only when every use of it
was expanded (a new function that is also called indirectly, passed as a value, recursive or unused stays a body of
its own and is seen by every whole-program rule).

After a splice the `return`s of the helper flow into the caller's continuation.  Where the continuation immediately
tests the returned value (`helper(..)?`, `match helper(..) { Ok(..) => .., Err(..) => .. }`, `if helper(..)`) and a
return site assigns a value whose variant is syntactically known, that path is threaded to the matching successor, so
that a test made inside the helper dominates what it guards in the caller exactly as it did before the extraction.
"""
import copy
import json
import os

MAX_PATH = 14
MAX_HELPER_BLOCKS = 400


def _is_place(o):
    return isinstance(o, dict) and "k" not in o and isinstance(o.get("l"), int) and isinstance(o.get("p"), list)


def _map_locals(o, f):
    if isinstance(o, list):
        for x in o:
            _map_locals(x, f)
    elif isinstance(o, dict):
        if _is_place(o):
            o["l"] = f(o["l"])
        elif o.get("k") == "index" and isinstance(o.get("l"), int):
            o["l"] = f(o["l"])
        for k, v in o.items():
            if k in ("sp", "fsp", "fn", "span", "exp"):
                continue
            if isinstance(v, (dict, list)):
                _map_locals(v, f)


def _map_blocks(term, f):
    if term is None:
        return
    for k in ("t", "unwind", "otherwise"):
        if isinstance(term.get(k), int):
            term[k] = f(term[k])
    if isinstance(term.get("targets"), list):
        term["targets"] = [f(t) for t in term["targets"]]


def _plain(op):
    """local index if the operand is a copy/move of a whole local"""
    if isinstance(op, dict) and op.get("k") in ("copy", "move") and not op["pl"]["p"]:
        return op["pl"]["l"]
    return None


def _callee_path(term):
    f = term.get("func", {})
    if f.get("k") != "const" or "fn" not in f:
        return None
    return f["fn"]


def _succ(term):
    if term is None:
        return []
    k = term["k"]
    if k == "goto":
        return [term["t"]]
    if k == "switch":
        return list(term["targets"]) + [term["otherwise"]]
    if k in ("drop", "assert", "call"):
        return [term["t"]] if term.get("t") is not None else []
    return []


def _defines(stmt, local):
    return stmt.get("k") in ("assign", "setdiscr") and stmt["pl"]["l"] == local


class Inliner:
    def __init__(self, program, known):
        self.p = program
        self.known = known
        self.helpers = {}
        for b in program.lib_bodies():
            if b.def_kind not in ("Fn", "AssocFn") or b.impl_trait or b.raw.get("in_trait"):
                continue
            if "::promoted[" in b.path or "{closure" in b.path or b.derived:
                continue
            if b.key in known:
                continue
            if len(b.blocks) > MAX_HELPER_BLOCKS:
                continue
            if any(c.callee and program.resolve_callee(b.crate, c) is b for c in b.calls()):
                continue    # directly recursive: stays a call
            self.helpers[b.key] = b
        self.closures = {}          # closures that were expanded at a direct call (`let f = |x| ..; f(a)`): key -> body
        self._closure_stack = set()
        self.sites = 0
        self.log = []       # (helper key, caller key, file:line of the call)
        self.skipped = []   # (helper key, reason)

    # ------------------------------------------------------------------ driver
    def run(self):
        if not self.helpers:
            return
        # helpers that call helpers are completed first; a cycle among new helpers is left as calls
        state = {}

        def complete(key, stack):
            if state.get(key) == "done":
                return True
            if key in stack:
                return False
            stack = stack | {key}
            b = self.helpers[key]
            self._expand(b, lambda k: k != key and complete(k, stack))
            state[key] = "done"
            return True

        for key in sorted(self.helpers):
            complete(key, frozenset())
        for b in list(self.p.lib_bodies()):
            if b.key in self.helpers:
                continue
            if "::promoted[" in b.path:
                continue
            self._expand(b, lambda k: True)

    def _expand(self, body, allowed):
        raw = body.raw
        changed = True
        rounds = 0
        while changed and rounds < 4:
            changed = False
            rounds += 1
            for bi in range(len(raw["blocks"])):
                term = raw["blocks"][bi]["term"]
                if not term or term["k"] != "call" or raw["blocks"][bi].get("cleanup"):
                    continue
                fn = _callee_path(term)
                if fn is None:
                    continue
                h = self._resolve(body.crate, fn)
                if h is None:
                    cb = self._closure_target(body.crate, fn, term)
                    if cb is not None and cb.key != body.key and cb.key not in self._closure_stack:
                        # the closure's own helper / closure calls first, then the closure into its caller
                        self._closure_stack.add(cb.key)
                        self._expand(cb, allowed)
                        self._closure_stack.discard(cb.key)
                        self.closures[cb.key] = cb
                        self._splice(body, bi, cb, closure=True)
                        changed = True
                    continue
                if h.key == body.key or not allowed(h.key):
                    continue
                if len(term["args"]) != h.raw["arg_count"]:
                    self.skipped.append((h.key, "argument count differs at a call in " + body.key))
                    continue
                self._splice(body, bi, h)
                changed = True
        if rounds:
            body._succ = body._pred = body._dom = body._calls = body._names = body._defs = body._reach = None

    def _resolve(self, crate, fn):
        name = fn.get("resolved") or fn["def"]
        for cand in (crate + "::" + name, name, fn.get("crate", "") + "::" + name):
            h = self.helpers.get(cand)
            if h is not None:
                return h
        return None

    def _closure_target(self, crate, fn, term):
        """`f(a, b)` on a local closure: `<{closure} as Fn<(A, B)>>::call(&f, (a, b))`, resolved to the closure's body.  The
        environment is an explicit argument, so the body can be spliced like a helper: parameter 1 is the reference to the
        closure value, the others are the fields of the argument tuple"""
        if fn.get("name") not in ("call", "call_mut", "call_once"):
            return None
        res = fn.get("resolved") or ""
        if "{closure#" not in res:
            return None
        cb = self.p.bodies.get(crate + "::" + res) or self.p.bodies.get(res)
        if cb is None or cb.def_kind != "Closure" or len(cb.blocks) > MAX_HELPER_BLOCKS or len(term["args"]) != 2:
            return None
        tys = term.get("argtys") or []
        locs = cb.raw["locals"]
        if not tys or len(locs) < 2 or tys[0] != locs[1].get("ty"):
            return None         # called through a by-value / by-reference shim: the body's environment has another type
        a1 = term["args"][1]
        n = cb.raw["arg_count"] - 1
        if n and not (isinstance(a1, dict) and a1.get("k") in ("copy", "move")):
            return None
        return cb

    # ------------------------------------------------------------------ splice
    def _splice(self, body, bi, h, closure=False):
        C = body.raw
        H = h.raw
        call = C["blocks"][bi]["term"]
        loff = len(C["locals"])
        boff = len(C["blocks"])
        dest = call["dest"]
        direct = not dest["p"]
        ret = dest["l"] if direct else loff

        def ml(l):
            if l == 0 and direct:
                return ret
            return loff + l

        C["locals"].extend(copy.deepcopy(H["locals"]))
        for d in H["debug"]:
            d = copy.deepcopy(d)
            if "arg" in d:
                d["inl_arg"] = d.pop("arg")       # a parameter of the helper: an ordinary local of the caller now
            if d.get("pl") is not None:
                _map_locals(d["pl"], ml)
            d["inlined_from"] = H["path"]
            C["debug"].append(d)
        blocks = copy.deepcopy(H["blocks"])
        cont = call.get("t")
        unwind = call.get("unwind")
        sp = call.get("sp")
        self.sites += 1
        site = "%d" % self.sites
        for b in blocks:
            # which expansion a block belongs to (innermost helper, unique per expansion): rules that pair source facts of
            # the helper with its statements treat every copy separately
            inner = b.get("inl")
            b["inl"] = [inner[0], site + "/" + inner[1]] if inner else [H["path"], site]
            b["inl_sp"] = sp        # where (in the outermost caller) this expansion was called
            _map_locals(b["stmts"], ml)
            t = b["term"]
            if t is None:
                continue
            _map_locals(t, ml)
            _map_blocks(t, lambda x: x + boff)
            if t["k"] == "return":
                if not direct:
                    b["stmts"].append({"k": "assign", "pl": copy.deepcopy(dest),
                                       "rv": {"k": "use", "op": {"k": "move", "pl": {"l": ret, "p": []}}},
                                       "pty": call.get("dty", ""), "sp": sp})
                b["term"] = {"k": "goto", "t": cont} if cont is not None else {"k": "unreachable"}
            elif t["k"] == "resume" and unwind is not None:
                b["term"] = {"k": "goto", "t": unwind}
        entry = []
        if closure:
            entry.append({"k": "assign", "pl": {"l": loff + 1, "p": []}, "rv": {"k": "use", "op": call["args"][0]},
                          "pty": (call.get("argtys") or [""])[0], "sp": sp, "inlined_arg": True})
            tup = call["args"][1]
            for i in range(H["arg_count"] - 1):
                ty = H["locals"][2 + i].get("ty", "")
                op = {"k": "copy", "pl": {"l": tup["pl"]["l"], "p": list(copy.deepcopy(tup["pl"]["p"])) + [
                    {"k": "field", "i": i, "n": str(i), "ty": ty}]}}
                entry.append({"k": "assign", "pl": {"l": loff + 2 + i, "p": []}, "rv": {"k": "use", "op": op},
                              "pty": ty, "sp": sp, "inlined_arg": True})
        for i, a in enumerate(call["args"] if not closure else ()):
            entry.append({"k": "assign", "pl": {"l": loff + 1 + i, "p": []}, "rv": {"k": "use", "op": a},
                          "pty": (call.get("argtys") or [""] * (i + 1))[i], "sp": sp, "inlined_arg": True})
        C["blocks"][bi]["stmts"].extend(entry)
        C["blocks"][bi]["term"] = {"k": "goto", "t": boff, "inlined_call": H["path"], "sp": sp}
        C["blocks"].extend(blocks)
        C.setdefault("inlined", []).extend([H["path"]] + list(H.get("inlined", [])))
        self.log.append((h.key, body.key, (sp or {}).get("s", "?").rsplit(":", 3)[0]))
        if cont is not None and direct:
            self._thread(C, cont, ret, range(boff, boff + len(blocks)))

    # ------------------------------------------------------------------ jump threading at the seam
    def _seam(self, C, cont, x):
        """Walk from the continuation to the test of the returned value.
        Returns (chain blocks incl. the testing block, mode, info) or None."""
        chain = []
        cur = cont
        for _ in range(6):
            blk = C["blocks"][cur]
            t = blk["term"]
            if t is None:
                return None
            for s in blk["stmts"]:
                if _defines(s, x) and not (s["k"] == "assign" and s["rv"]["k"] == "discr"):
                    return None
            if t["k"] == "call":
                fn = _callee_path(t)
                if fn and fn["def"].endswith("Try::branch") and len(t["args"]) == 1 and _plain(t["args"][0]) == x \
                        and not t["dest"]["p"] and t.get("t") is not None:
                    b = t["dest"]["l"]
                    s_blk = C["blocks"][t["t"]]
                    sw = s_blk["term"]
                    if sw and sw["k"] == "switch":
                        d = _plain(sw["op"])
                        if d is not None and any(s["k"] == "assign" and s["pl"]["l"] == d and not s["pl"]["p"] and s["rv"]["k"] == "discr"
                                                 and s["rv"]["pl"]["l"] == b and not s["rv"]["pl"]["p"] for s in s_blk["stmts"]):
                            return chain + [cur, t["t"]], "try", {"b": b, "call_block": cur}
                return None
            if t["k"] == "switch":
                d = _plain(t["op"])
                if d == x:
                    return chain + [cur], "bool", {}
                if d is not None and any(s["k"] == "assign" and s["pl"]["l"] == d and not s["pl"]["p"] and s["rv"]["k"] == "discr"
                                         and s["rv"]["pl"]["l"] == x and not s["rv"]["pl"]["p"] for s in blk["stmts"]):
                    return chain + [cur], "match", {}
                return None
            if t["k"] in ("goto", "drop"):
                chain.append(cur)
                cur = t["t"]
                continue
            return None
        return None

    def _known_def(self, blk, x):
        """variant information of the last definition of local x in this block: ('variant', name, vi) / ('bool', val)"""
        t = blk["term"]
        if t and t["k"] == "call" and not t["dest"]["p"] and t["dest"]["l"] == x:
            fn = _callee_path(t)
            if fn and fn["def"].endswith("FromResidual::from_residual"):
                dty = t.get("dty", "")
                if dty.startswith("std::result::Result<") or dty.startswith("core::result::Result<"):
                    return ("variant", "Err", 1)
                if dty.startswith("std::option::Option<") or dty.startswith("core::option::Option<"):
                    return ("variant", "None", 0)
            return None
        for s in reversed(blk["stmts"]):
            if not _defines(s, x):
                continue
            if s["k"] != "assign" or s["pl"]["p"]:
                return None
            rv = s["rv"]
            if rv["k"] == "agg" and rv.get("ak") == "adt" and rv.get("variant") and isinstance(rv.get("vi"), int):
                return ("variant", rv["variant"], rv["vi"])
            if rv["k"] == "use" and rv["op"]["k"] == "const" and rv["op"].get("ty") == "bool":
                return ("bool", rv["op"].get("val"))
            return None
        return None

    def _thread(self, C, cont, x, region):
        seam = self._seam(C, cont, x)
        if seam is None:
            return
        chain, mode, info = seam
        test_blk = C["blocks"][chain[-1]]
        sw = test_blk["term"]
        for a in region:
            blk = C["blocks"][a]
            kd = self._known_def(blk, x)
            if kd is None:
                continue
            if (mode == "bool") != (kd[0] == "bool"):
                continue
            for first in sorted(set(_succ(blk["term"]))):
                path = self._path(C, first, cont, x)
                if path is None:
                    continue
                full = path + chain
                if len(full) > MAX_PATH:
                    continue
                # target of the test for the known variant
                if mode == "try":
                    cf = "0" if kd[1] in ("Ok", "Some") else "1"
                    target = sw["targets"][sw["vals"].index(cf)] if cf in sw["vals"] else sw["otherwise"]
                elif mode == "match":
                    v = str(kd[2])
                    target = sw["targets"][sw["vals"].index(v)] if v in sw["vals"] else sw["otherwise"]
                else:
                    v = str(kd[1])
                    target = sw["targets"][sw["vals"].index(v)] if v in sw["vals"] else sw["otherwise"]
                base = len(C["blocks"])
                new = []
                for n, pb in enumerate(full):
                    src = C["blocks"][pb]
                    nb = {"cleanup": src.get("cleanup", False), "stmts": copy.deepcopy(src["stmts"]), "term": None, "threaded_from": pb}
                    if src.get("inl"):
                        nb["inl"] = src["inl"]
                    last = n == len(full) - 1
                    st = src["term"]
                    if last:
                        nb["term"] = {"k": "goto", "t": target}
                    elif mode == "try" and pb == info["call_block"]:
                        nb["stmts"].extend(self._branch_stmts(C, x, info["b"], kd[1], st))
                        nb["term"] = {"k": "goto", "t": base + n + 1}
                    elif st["k"] == "drop":
                        nt = copy.deepcopy(st)
                        nt["t"] = base + n + 1
                        nb["term"] = nt
                    else:
                        nb["term"] = {"k": "goto", "t": base + n + 1}
                    new.append(nb)
                C["blocks"].extend(new)
                _map_blocks(blk["term"], lambda t, first=first, base=base: base if t == first else t)

    def _path(self, C, start, cont, x):
        """blocks from `start` to (excluding) the continuation over single-successor blocks that do not redefine x"""
        path = []
        cur = start
        for _ in range(MAX_PATH):
            if cur == cont:
                return path
            blk = C["blocks"][cur]
            t = blk["term"]
            if t is None or t["k"] not in ("goto", "drop"):
                return None
            if any(_defines(s, x) for s in blk["stmts"]):
                return None
            path.append(cur)
            cur = t["t"]
        return None

    def _branch_stmts(self, C, x, b, variant, call):
        """statements equal to `b = Try::branch(move x)` for a value of x of the given variant"""
        sp = call.get("sp")

        def payload(v):
            return {"k": "move", "pl": {"l": x, "p": [{"k": "downcast", "n": v, "vi": {"Ok": 0, "Err": 1, "None": 0, "Some": 1}[v]},
                                                       {"k": "field", "i": 0, "n": "0", "ty": "", "of": ""}]}}

        def agg(adt, v, vi, ops):
            return {"k": "agg", "ak": "adt", "adt": adt, "variant": v, "vi": vi, "fields": [str(i) for i in range(len(ops))], "targs": [], "ops": ops}

        if variant in ("Ok", "Some"):
            return [{"k": "assign", "pl": {"l": b, "p": []}, "rv": agg("std::ops::ControlFlow", "Continue", 0, [payload(variant)]),
                     "pty": call.get("dty", ""), "sp": sp}]
        tmp = len(C["locals"])
        C["locals"].append({"ty": "residual", "mut": True})
        if variant == "Err":
            inner = agg("std::result::Result", "Err", 1, [payload("Err")])
        else:
            inner = agg("std::option::Option", "None", 0, [])
        return [{"k": "assign", "pl": {"l": tmp, "p": []}, "rv": inner, "pty": "residual", "sp": sp},
                {"k": "assign", "pl": {"l": b, "p": []}, "rv": agg("std::ops::ControlFlow", "Break", 1, [{"k": "move", "pl": {"l": tmp, "p": []}}]),
                 "pty": call.get("dty", ""), "sp": sp}]


def load_known(verif):
    with open(os.path.join(verif, "tables", "known_fns.json")) as fh:
        return set(json.load(fh)["functions"])


def normalise(program, verif):
    if os.environ.get("VERIF_NO_INLINE"):
        program.inlined = []
        program.inline_skipped = []
        program.helper_bodies = {}
        program.expanded = {}
        return
    inl = Inliner(program, load_known(verif))
    inl.run()
    program.inlined = inl.log
    program.inline_skipped = inl.skipped
    program.new_functions = sorted(inl.helpers)
    program.helper_bodies = dict(inl.helpers)
    program.inlined_closures = sorted(inl.closures)
    program.expanded = {}
    if not inl.log:
        return
    # a helper every use of which was expanded is analysed through its callers only
    remaining = set()
    closure_ty = {}
    for ck, cb in inl.closures.items():
        closure_ty[cb.raw["locals"][1].get("ty", "").lstrip("&").replace("mut ", "")] = ck

    def scan(o, crate):
        if isinstance(o, list):
            for x in o:
                scan(x, crate)
        elif isinstance(o, dict):
            fn = o.get("fn")
            if isinstance(fn, dict) and "def" in fn:
                h = inl._resolve(crate, fn)
                if h is not None:
                    remaining.add(h.key)
            if o.get("k") == "call" and closure_ty:
                # a closure that is also handed to someone else (or still called somewhere) stays a body of its own
                txt = " ".join(o.get("argtys") or []) + " " + ((o.get("func") or {}).get("ty") or "")
                for ty, ck in closure_ty.items():
                    if ty and ty in txt:
                        remaining.add(ck)
            for k, v in o.items():
                if k in ("sp", "fsp", "fn", "span", "exp"):
                    continue
                if isinstance(v, (dict, list)):
                    scan(v, crate)

    for b in program.lib_bodies():
        if b.key in inl.helpers or b.key in inl.closures:
            continue
        scan(b.raw["blocks"], b.crate)
    callers = {}
    for hk, ck, _ in inl.log:
        callers.setdefault(hk, set()).add(ck)
    # helpers referenced only from other expanded helpers do not count as remaining uses: iterate to a fixed point
    changed = True
    gone = set()
    while changed:
        changed = False
        for hk in sorted(callers):
            if hk in gone or hk in remaining:
                continue
            gone.add(hk)
            changed = True
    for hk in gone:
        roots = set()
        stack = list(callers[hk])
        seen = set()
        while stack:
            ck = stack.pop()
            if ck in seen:
                continue
            seen.add(ck)
            if ck in gone:
                stack.extend(callers.get(ck, ()))
                continue
            cb = program.bodies.get(ck)
            if cb is not None:
                roots.add(cb.root or cb.path)
        program.expanded[hk] = sorted(roots)
    for hk in gone:
        hb = inl.helpers.get(hk) or inl.closures[hk]
        roots = program.expanded[hk]
        for b in list(program.lib_bodies(hb.crate)):
            if b.path.startswith(hb.path + "::{closure#") and roots:
                b.root = roots[0]
                b.roots = roots
                if b.parent == hb.path:
                    # the function that now creates this closure
                    for cb in program.lib_bodies(hb.crate):
                        if hb.path in cb.raw.get("inlined", ()) and any(
                                st["k"] == "assign" and st["rv"]["k"] == "agg" and st["rv"].get("ak") == "closure" and st["rv"]["def"] == b.path
                                for blk in cb.raw["blocks"] for st in blk["stmts"]):
                            b.parent = cb.path
                            break
        program.bodies.pop(hk, None)
        if hb in program.by_path.get(hb.path, []):
            program.by_path[hb.path].remove(hb)

"""Value origins: reconstructs, for an operand at a program point, a symbolic expression over
parameters, constants, fields and call results by following reaching definitions backwards
(DESIGN.md section 2.4).  Pure dataflow over MIR facts; nothing is evaluated except integer
arithmetic on literal constants."""
import re
from .mir import CallSite

MAX_DEPTH = 40

CMP_OPS = {"Lt", "Le", "Gt", "Ge", "Eq", "Ne"}
ARITH = {"Add", "Sub", "Mul", "Div", "Rem", "Shl", "Shr", "BitAnd", "BitOr", "BitXor",
         "AddWithOverflow", "SubWithOverflow", "MulWithOverflow", "AddUnchecked", "SubUnchecked",
         "MulUnchecked", "ShlUnchecked", "ShrUnchecked"}

INT_RANGES = {
    "u8": (0, 2**8 - 1), "u16": (0, 2**16 - 1), "u32": (0, 2**32 - 1), "u64": (0, 2**64 - 1),
    "u128": (0, 2**128 - 1), "usize": (0, 2**64 - 1),
    "i8": (-2**7, 2**7 - 1), "i16": (-2**15, 2**15 - 1), "i32": (-2**31, 2**31 - 1),
    "i64": (-2**63, 2**63 - 1), "i128": (-2**127, 2**127 - 1), "isize": (-2**63, 2**63 - 1),
}


def norm_op(op):
    for suf in ("WithOverflow", "Unchecked"):
        if op.endswith(suf):
            return op[: -len(suf)]
    return op


class Origins:
    """Origin expressions for one body."""

    def __init__(self, body, program=None):
        self.body = body
        self.program = program
        self.memo = {}
        self.inprog = set()
        self.params = body.param_names()
        self.upvars = body.upvar_names() if body.def_kind == "Closure" else {}
        # locals whose own storage is borrowed mutably somewhere in the body: a callee may write
        # through the borrow, so their reconstructed value is only a lower bound ("mut" marker)
        self.mut_borrowed = set()
        for _bb, _j, s in body.all_statements():
            if s["k"] == "assign" and s["rv"]["k"] in ("ref", "rawptr"):
                rv = s["rv"]
                if (rv.get("mut") or rv["k"] == "rawptr") and not (rv["pl"]["p"] and rv["pl"]["p"][0]["k"] == "deref"):
                    self.mut_borrowed.add(rv["pl"]["l"])

    # ---------------------------------------------------------------- reaching definitions
    def reaching_defs(self, local, bb, idx):
        """Definitions of `local` (whole or partial) that may reach statement `idx` of block `bb`
        (idx = len(stmts) means: the terminator). Returns list of def tuples (bb, idx, kind, payload)
        and a flag telling whether the function entry is reachable backwards without a def."""
        body = self.body
        defs_by_block = {}
        for d in body.defs.get(local, ()):
            defs_by_block.setdefault(d[0], []).append(d)
        found = []
        entry = False
        seen = set()
        # (block, upper bound idx exclusive; None = whole block incl. terminator)
        work = [(bb, idx)]
        while work:
            b, upto = work.pop()
            hit = None
            cands = defs_by_block.get(b, ())
            best = None
            for d in cands:
                di = d[1]
                pos = di if di >= 0 else 10**9  # call terminator defines at the very end
                if upto is not None and pos >= upto:
                    continue
                if d[2] in ("assign", "call"):
                    if best is None or pos > best[0]:
                        best = (pos, d)
            # partial defs after the best whole def also reach
            for d in cands:
                di = d[1]
                pos = di if di >= 0 else 10**9
                if upto is not None and pos >= upto:
                    continue
                if d[2] in ("partial", "callpartial") and (best is None or pos > best[0]):
                    found.append(d)
            if best is not None:
                found.append(best[1])
                continue
            if b == 0:
                entry = True
            for p in body.pred[b]:
                if p not in seen:
                    seen.add(p)
                    work.append((p, None))
        # dedupe
        uniq = []
        seen_ids = set()
        for d in found:
            k = (d[0], d[1], d[2])
            if k not in seen_ids:
                seen_ids.add(k)
                uniq.append(d)
        return uniq, entry

    # ---------------------------------------------------------------- expressions
    def const_ex(self, c):
        if "fn" in c:
            return ("fnitem", c["fn"].get("resolved") or c["fn"]["def"])
        label = None
        if "path" in c and not c.get("promoted"):
            label = c["path"]
        if c.get("trait") and "val" not in c:
            return ("assoc", c["trait"], c.get("name", ""), c.get("self_ty", ""))
        if "val" in c:
            return ("const", int(c["val"]), c["ty"], label)
        if c.get("promoted"):
            return ("promoted", c.get("path", ""), c.get("promoted_idx", 0))
        return ("constx", c.get("s", ""), c["ty"], label)

    def operand(self, op, bb, idx, depth=0):
        k = op["k"]
        if k == "const":
            return self.const_ex(op)
        if k in ("copy", "move"):
            return self.place(op["pl"], bb, idx, depth)
        return ("unknown", op.get("s", ""))

    def place(self, pl, bb, idx, depth=0):
        base = self.local(pl["l"], bb, idx, depth)
        return self.project(base, pl["p"], bb, idx, depth)

    def project(self, base, projs, bb, idx, depth):
        ex = base
        for p in projs:
            k = p["k"]
            if k == "deref":
                if ex[0] == "ref":
                    ex = ex[1]
                else:
                    ex = ("deref", ex)
            elif k == "field":
                ex = self.proj_field(ex, p)
            elif k == "downcast":
                if ex[0] == "phi" and all(a[0] == "agg" and a[1] == "adt" for a in ex[1]):
                    m = [a for a in ex[1] if a[3] == p["n"]]
                    if m:
                        ex = mk_phi(tuple(m))
                ex = ("downcast", ex, p["n"])
            elif k == "index":
                ex = ("index", ex, self.local(p["l"], bb, idx, depth + 1), p.get("ty", ""))
            elif k == "cindex":
                ex = ("index", ex, ("const", p["offset"], "usize", None), p.get("ty", ""))
            elif k == "subslice":
                ex = ("subslice", ex, p["from"], p["to"], p["from_end"])
            else:
                ex = ("proj?", ex, p.get("s", k))
        return ex

    def proj_field(self, ex, p):
        name = p["n"]
        i = p["i"]
        if ex[0] == "env" or (ex[0] == "deref" and ex[1][0] == "env"):
            return ("upvar", i, self.upvars.get(i, str(i)))
        if ex[0] == "bin" and ex[1].endswith("WithOverflow"):
            if i == 0:
                return ("bin", norm_op(ex[1]), ex[2], ex[3])
            return ("overflowflag", ex)
        if ex[0] == "agg":
            fields = ex[4]
            if ex[1] == "adt":
                for fname, fex in fields:
                    if fname == name:
                        return fex
            elif i < len(fields):
                return fields[i][1]
        if ex[0] == "phi":
            alts = tuple(self.proj_field(a, p) for a in ex[1])
            return mk_phi(alts)
        if ex[0] == "downcast" and ex[2] == "Continue" and ex[1][0] == "call" and ex[1][1].endswith("Try>::branch"):
            inner = ex[1][3][0]
            # `opt.ok_or(e)?` / `opt.ok_or_else(f)?` is the payload of `opt`
            if inner[0] == "call" and last_seg(inner[1]) in ("ok_or", "ok_or_else") and inner[3]:
                return some_payload(inner[3][0])
            return ("try", inner)
        if ex[0] == "downcast" and ex[2] == "Some" and i == 0:
            sp = some_payload(ex[1])
            if sp[0] != "field":
                return sp
        if ex[0] == "downcast" and ex[1][0] == "agg" and ex[1][1] == "adt" and ex[1][3] == ex[2]:
            for fname, fex in ex[1][4]:
                if fname == name:
                    return fex
        return ("field", ex, name, p.get("ty", ""))

    def local(self, l, bb, idx, depth=0):
        key = (l, bb, idx)
        if key in self.memo:
            return self.memo[key]
        if key in self.inprog or depth > MAX_DEPTH:
            return ("loop", l)
        self.inprog.add(key)
        try:
            ex = self._local(l, bb, idx, depth)
        finally:
            self.inprog.discard(key)
        ex = simplify(ex)
        self.memo[key] = ex
        return ex

    def _local(self, l, bb, idx, depth):
        body = self.body
        defs, entry = self.reaching_defs(l, bb, idx)
        alts = []
        if l == 0 and not defs:
            return ("uninit",)
        whole = [d for d in defs if d[2] in ("assign", "call")]
        partial = [d for d in defs if d[2] in ("partial", "callpartial")]
        if 1 <= l <= body.arg_count and (entry or not whole):
            if body.def_kind == "Closure" and l == 1:
                alts.append(("env",))
            else:
                alts.append(("param", l, self.params.get(l, "_%d" % l)))
        elif entry and not whole and not partial:
            alts.append(("uninit",))
        for d in whole:
            if d[2] == "assign":
                alts.append(self.rvalue(d[3], d[0], d[1], depth + 1))
            else:
                cs = d[3]
                alts.append(self.call_ex(cs, depth + 1))
        if partial and not whole:
            # aggregate built field by field (or mutated through projections)
            alts.append(("mutated", l, body.names.get(l, "_%d" % l)))
        elif partial:
            alts = [("mut", a) for a in alts]
        if not alts:
            return ("uninit",)
        ex = mk_phi(tuple(alts))
        if l in self.mut_borrowed and ex[0] != "mut":
            ex = ("mut", ex)
        return ex

    def call_ex(self, cs, depth):
        args = tuple(self.operand(a, cs.bb, len(self.body.blocks[cs.bb]["stmts"]), depth + 1) for a in cs.args)
        if cs.fn is None:
            f = cs.term["func"]
            fex = self.operand(f, cs.bb, len(self.body.blocks[cs.bb]["stmts"]), depth + 1)
            return ("callind", fex, args, cs.loc())
        if cs.fn["def"].endswith("mem::size_of") and len(cs.fn.get("args", [])) == 1:
            sz = {"u8": 1, "i8": 1, "u16": 2, "i16": 2, "u32": 4, "i32": 4, "u64": 8, "i64": 8, "usize": 8, "isize": 8,
                  "u128": 16, "i128": 16, "bool": 1, "char": 4}.get(cs.fn["args"][0])
            if sz is not None:
                return ("const", sz, "usize", None)
        callee, decl = cs.callee, cs.decl
        # the length of a fixed-size buffer is a constant: `[0u8; 8].len()`, `0_i64.to_be_bytes().len()`
        if last_seg(callee or "") == "len" and len(args) == 1:
            n = _fixed_len(args[0])
            if n is not None:
                return ("const", n, "usize", None)
        # `opt.unwrap_or(c)` is the same value as `match opt { Some(v) => v, None => c }` (const_unwrap_or!)
        if last_seg(callee or "") == "unwrap_or" and len(args) == 2 and "ption" in (callee or ""):
            return ("unwrap_or", args[0], args[1])
        # canonical callees: the free functions core::cmp::min / max are Ord::min / max
        seg = last_seg(callee or "")
        if seg in ("min", "max") and callee and ("cmp::min" in callee or "cmp::max" in callee) and len(args) == 2:
            callee = decl = "std::cmp::Ord::" + seg
        # `cond.then_some(v)` is `if cond { Some(v) } else { None }`
        if seg == "then_some" and len(args) == 2 and callee and "bool" in callee:
            return mk_phi((("agg", "adt", "std::option::Option", "None", ()),
                           ("agg", "adt", "std::option::Option", "Some", (("0", args[1]),))))
        return ("call", callee, decl, args, cs.loc(), cs.term.get("dty", ""))

    def rvalue(self, rv, bb, idx, depth):
        return simplify(self._rvalue(rv, bb, idx, depth))

    def _rvalue(self, rv, bb, idx, depth):
        k = rv["k"]
        if k == "use":
            return self.operand(rv["op"], bb, idx, depth)
        if k == "copyderef":
            return self.place(rv["pl"], bb, idx, depth)
        if k == "ref" or k == "rawptr":
            return ("ref", self.place(rv["pl"], bb, idx, depth))
        if k == "cast":
            return ("cast", rv["ty"], self.operand(rv["op"], bb, idx, depth), rv["ck"], rv.get("from_ty", ""))
        if k == "bin":
            return ("bin", rv["op"], self.operand(rv["l"], bb, idx, depth), self.operand(rv["r"], bb, idx, depth),
                    rv.get("lty", ""))
        if k == "un":
            return ("un", rv["op"], self.operand(rv["a"], bb, idx, depth))
        if k == "discr":
            return ("discr", self.place(rv["pl"], bb, idx, depth))
        if k == "agg":
            ops = [self.operand(o, bb, idx, depth) for o in rv["ops"]]
            ak = rv["ak"]
            if ak == "adt":
                names = rv["fields"]
                return ("agg", "adt", rv["adt"], rv["variant"], tuple(zip(names, ops)))
            if ak == "closure":
                return ("agg", "closure", rv["def"], "", tuple((str(i), o) for i, o in enumerate(ops)))
            return ("agg", ak, "", "", tuple((str(i), o) for i, o in enumerate(ops)))
        if k == "repeat":
            return ("repeat", self.operand(rv["op"], bb, idx, depth), rv["count"])
        return ("unknown", rv.get("s", k))

    # ---------------------------------------------------------------- convenience
    def term_operand(self, bb, op):
        return self.operand(op, bb, len(self.body.blocks[bb]["stmts"]))

    def switch_cond(self, bb):
        t = self.body.blocks[bb]["term"]
        return self.term_operand(bb, t["op"])

    def call_args(self, cs):
        n = len(self.body.blocks[cs.bb]["stmts"])
        return [self.operand(a, cs.bb, n) for a in cs.args]


CHECKED = {"checked_sub": "Sub", "checked_add": "Add", "checked_mul": "Mul", "checked_div": "Div"}


_INT_BYTES = {"i8": 1, "u8": 1, "i16": 2, "u16": 2, "i32": 4, "u32": 4, "i64": 8, "u64": 8, "i128": 16, "u128": 16, "isize": 8, "usize": 8}


def _fixed_len(ex):
    e = ex
    for _ in range(8):
        if e[0] in ("ref", "deref", "mut"):
            e = e[1]
        elif e[0] == "cast":
            e = e[2]
        else:
            break
    if e[0] == "repeat":
        try:
            return int(str(e[2]).split("_")[0])
        except ValueError:
            return None
    if e[0] == "agg" and e[1] == "array":
        return len(e[4])
    if e[0] == "call" and last_seg(e[1] or "") in ("to_be_bytes", "to_le_bytes", "to_ne_bytes"):
        m = re.search(r"impl (\w+)>", e[1] or "")
        if m and m.group(1) in _INT_BYTES:
            return _INT_BYTES[m.group(1)]
    return None


def some_payload(opt):
    """value inside `Some` of an Option-valued origin: checked arithmetic is its plain operation"""
    o = opt
    while o[0] in ("ref", "deref", "mut"):
        o = o[1]
    if o[0] == "call" and last_seg(o[1]) in CHECKED and len(o[3]) == 2:
        return ("bin", CHECKED[last_seg(o[1])], o[3][0], o[3][1])
    return ("field", ("downcast", opt, "Some"), "0", "")


def mk_phi(alts):
    flat = []
    for a in alts:
        if a[0] == "phi":
            flat.extend(a[1])
        else:
            flat.append(a)
    uniq = []
    for a in flat:
        if a not in uniq:
            uniq.append(a)
    if len(uniq) == 1:
        return uniq[0]
    try:
        uniq.sort(key=render)
    except Exception:
        pass
    return ("phi", tuple(uniq))


def is_some_field(ex):
    """matches `(O as Some).0` and returns O"""
    if ex[0] == "field" and ex[2] == "0" and ex[1][0] == "downcast" and ex[1][2] == "Some":
        return ex[1][1]
    return None


def simplify(ex):
    """local algebraic clean-up: constant folding of literal arithmetic, Option unwrap pattern"""
    k = ex[0]
    if k == "phi":
        alts = ex[1]
        if len(alts) == 2:
            for i in (0, 1):
                o = is_some_field(alts[i])
                if o is not None:
                    return ("unwrap_or", o, alts[1 - i])
        return ex
    if k == "bin":
        op = norm_op(ex[1]) if not ex[1].endswith("WithOverflow") else ex[1]
        l, r = ex[2], ex[3]
        if l[0] == "const" and r[0] == "const" and op in ("Add", "Sub", "Mul", "Div", "Shl", "Shr", "BitAnd", "BitOr"):
            a, b = l[1], r[1]
            try:
                v = {"Add": a + b, "Sub": a - b, "Mul": a * b, "Div": (a // b if b else None),
                     "Shl": a << b if 0 <= b < 256 else None, "Shr": a >> b if 0 <= b < 256 else None,
                     "BitAnd": a & b, "BitOr": a | b}[op]
            except Exception:
                v = None
            if v is not None:
                ty = l[2]
                rng = INT_RANGES.get(ty)
                if rng is None or rng[0] <= v <= rng[1]:
                    return ("const", v, ty, None)
        return ex
    if k == "un":
        a = ex[2]
        if ex[1] == "Not" and a[0] == "const" and a[2] in ("u8", "u16", "u32", "u64", "usize"):
            bits = {"u8": 8, "u16": 16, "u32": 32, "u64": 64, "usize": 64}[a[2]]
            return ("const", (~a[1]) & ((1 << bits) - 1), a[2], None)
        return ex
    if k == "cast":
        a = ex[2]
        if a[0] == "const" and ex[3] == "IntToInt":
            rng = INT_RANGES.get(ex[1])
            if rng and rng[0] <= a[1] <= rng[1]:
                return ("const", a[1], ex[1], a[3])
        return ex
    if k == "call":
        # integer From::from / Into::into on a literal: value preserving
        callee = ex[1]
        if ex[3] and len(ex[3]) == 1 and ex[3][0][0] == "const":
            if "::from" in callee and ("convert::From" in (ex[2] or "") or "convert::num" in callee):
                return ("const", ex[3][0][1], "int", ex[3][0][3])
        return ex
    return ex


_QUAL = None


def short(path):
    """`Trait::method` / `Type::method` / `module::function`, generic arguments stripped"""
    global _QUAL
    if path is None:
        return "?"
    import re
    if _QUAL is None:
        _QUAL = (re.compile(r"^<(.+) as ([^<>]+?)(<.*>)?>::([A-Za-z0-9_]+)(::\{closure#\d+\})*$"),
                 re.compile(r"<impl ([^<>]+?)(<.*>)? for (.+)>::([A-Za-z0-9_]+)((::\{closure#\d+\})*)$"))
    m = _QUAL[0].match(path)
    if m:
        return "%s::%s" % (m.group(2).split("::")[-1], m.group(4))
    m = _QUAL[1].search(path)
    if m:
        return "%s::%s%s" % (m.group(1).split("::")[-1], m.group(4), m.group(5) or "")
    p = re.sub(r"::<[^:]*>", "", path)
    # strip leading `<` of qualified paths
    segs = []
    depth = 0
    cur = ""
    for ch in p:
        if ch in "<(":
            depth += 1
        elif ch in ">)":
            depth -= 1
        if ch == ":" and depth == 0:
            if cur:
                segs.append(cur)
            cur = ""
        else:
            cur += ch
    if cur:
        segs.append(cur)
    segs = [s for s in segs if s]
    return "::".join(segs[-2:]) if len(segs) >= 2 else (segs[0] if segs else p)


def last_seg(path):
    s = short(path)
    return s.split("::")[-1]


def render(ex, depth=0):
    """canonical string of an origin expression (used as descriptor / key material)"""
    if depth > 12:
        return "…"
    k = ex[0]
    d = depth + 1
    if k == "const":
        return str(ex[1])
    if k == "constx":
        return ex[1]
    if k == "assoc":
        return "%s::%s" % (ex[3] or "?", ex[2])
    if k == "param":
        return ex[2]
    if k == "upvar":
        return "^" + ex[2]
    if k == "env":
        return "env"
    if k == "field":
        return "%s.%s" % (render(ex[1], d), ex[2])
    if k == "deref":
        return "*" + render(ex[1], d)
    if k == "ref":
        return "&" + render(ex[1], d)
    if k == "downcast":
        return "(%s as %s)" % (render(ex[1], d), ex[2])
    if k == "index":
        return "%s[%s]" % (render(ex[1], d), render(ex[2], d))
    if k == "subslice":
        return "%s[%s..%s%s]" % (render(ex[1], d), ex[2], "-" if ex[4] else "", ex[3])
    if k == "bin":
        return "(%s %s %s)" % (render(ex[2], d), norm_op(ex[1]), render(ex[3], d))
    if k == "un":
        return "%s(%s)" % (ex[1], render(ex[2], d))
    if k == "cast":
        return "(%s as %s)" % (render(ex[2], d), ex[1])
    if k == "call":
        return "%s(%s)" % (short(ex[1]), ", ".join(render(a, d) for a in ex[3]))
    if k == "callind":
        return "(%s)(%s)" % (render(ex[1], d), ", ".join(render(a, d) for a in ex[2]))
    if k == "agg":
        if ex[1] == "adt":
            return "%s::%s{%s}" % (last_seg(ex[2]), ex[3], ", ".join("%s: %s" % (n, render(e, d)) for n, e in ex[4]))
        if ex[1] == "closure":
            return "closure(%s)" % short(ex[2])
        return "%s(%s)" % (ex[1], ", ".join(render(e, d) for _, e in ex[4]))
    if k == "discr":
        return "discr(%s)" % render(ex[1], d)
    if k == "phi":
        return "phi{%s}" % " | ".join(sorted(render(a, d) for a in ex[1]))
    if k == "unwrap_or":
        return "unwrap_or(%s, %s)" % (render(ex[1], d), render(ex[2], d))
    if k == "try":
        return "%s?" % render(ex[1], d)
    if k == "mut":
        return "mut(%s)" % render(ex[1], d)
    if k == "mutated":
        return "mutated(%s)" % ex[2]
    if k == "loop":
        return "loop(_%s)" % ex[1]
    if k == "fnitem":
        return "fn:" + short(ex[1])
    if k == "promoted":
        return "promoted"
    if k == "repeat":
        return "[%s; %s]" % (render(ex[1], d), ex[2])
    if k == "overflowflag":
        return "overflow(%s)" % render(ex[1], d)
    if k == "uninit":
        return "uninit"
    return "%s?" % k


def walk(ex):
    """pre-order traversal of all sub-expressions"""
    yield ex
    k = ex[0]
    if k in ("field", "deref", "ref", "downcast", "discr", "mut", "overflowflag", "repeat", "subslice", "proj?", "try"):
        yield from walk(ex[1])
    elif k == "index":
        yield from walk(ex[1])
        yield from walk(ex[2])
    elif k == "bin":
        yield from walk(ex[2])
        yield from walk(ex[3])
    elif k == "un":
        yield from walk(ex[2])
    elif k == "cast":
        yield from walk(ex[2])
    elif k == "call":
        for a in ex[3]:
            yield from walk(a)
    elif k == "callind":
        yield from walk(ex[1])
        for a in ex[2]:
            yield from walk(a)
    elif k == "agg":
        for _, e in ex[4]:
            yield from walk(e)
    elif k == "phi":
        for a in ex[1]:
            yield from walk(a)
    elif k == "unwrap_or":
        yield from walk(ex[1])
        yield from walk(ex[2])


def strip(ex):
    """strips value-preserving wrappers: casts, refs, derefs, mut markers, copies through clone()"""
    while True:
        k = ex[0]
        if k in ("ref", "deref", "mut"):
            ex = ex[1]
        elif k == "cast":
            ex = ex[2]
        elif k == "call" and len(ex[3]) == 1 and last_seg(ex[1]) in (
                "clone", "from", "into", "to_owned", "borrow", "as_ref", "deref", "to_i64", "from_i64"):
            ex = ex[3][0]
        else:
            return ex


def mentions(ex, pred):
    return any(pred(e) for e in walk(ex))

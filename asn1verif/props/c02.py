"""C02 - X.691 bit-exactness inside the conformance profile (DESIGN.md sections 4 and 5/C02)."""
import json
import os

from .. import expr as X
from .. import facts as F
from .. import rules as R
from ..core import VERIF

ABS = ("abs", "unsigned_abs", "wrapping_abs", "saturating_abs", "checked_abs", "abs_diff")


def param_uses(ex, idx, under_abs=False, out=None):
    """occurrences of parameter `idx` in an origin expression: list of booleans `only seen through |x|`"""
    out = out if out is not None else []
    if not isinstance(ex, tuple) or not ex:
        return out
    if ex[0] == "param" and ex[1] == idx:
        out.append(under_abs)
        return out
    ua = under_abs or (ex[0] == "call" and X.last_seg(ex[1]) in ABS)
    for x in ex[1:]:
        if isinstance(x, tuple):
            if x and isinstance(x[0], str):
                param_uses(x, idx, ua, out)
            else:
                for y in x:
                    if isinstance(y, tuple):
                        if y and isinstance(y[0], str):
                            param_uses(y, idx, ua, out)
                        else:
                            for z in y:
                                if isinstance(z, tuple):
                                    param_uses(z, idx, ua, out)
    return out


def r3(ctx, rule="C02.R3"):
    ctx.rule(rule, "X.691 11.8 / 10.4 minimal two's complement: the octet count written by write_unconstrained_whole_number depends on "
                   "the value itself and not only on its magnitude |value| (-128 needs one octet, +128 two: no function of |value| "
                   "alone gives the minimal length)")
    P = ctx.program()
    bs = [b for b in P.find("asn1rs", "::write_unconstrained_whole_number") if b.def_kind == "AssocFn"]
    if len(bs) != 1:
        ctx.fail(rule, "anchor-lost:write_unconstrained_whole_number", "matched %d bodies" % len(bs))
        return
    b = bs[0]
    O = X.Origins(b, P)
    pn = b.param_names()
    vidx = [i for i, n in pn.items() if n == "value"]
    lds = [cs for cs in b.calls() if cs.name == "write_length_determinant"]
    if not vidx or not lds:
        ctx.fail(rule, "anchor-lost:length-of-11.8", "parameter `value` or the write_length_determinant call is gone", "%s:%d" % (b.file, b.line))
        return
    for cs in lds:
        a = O.call_args(cs)
        ex = a[3] if len(a) > 3 else ("unknown", "")
        uses = param_uses(ex, vidx[0])
        detail = {"function": b.path, "octet_count": F.rd(R.positional(ex))[:240], "uses_of_value": len(uses),
                  "uses_only_through_abs": sum(1 for u in uses if u)}
        if not uses:
            ctx.fail(rule, "11.8#length-independent-of-value", "the octet count `%s` does not depend on the value: the encoding is not "
                                                                "minimal" % detail["octet_count"][:80], cs.loc(), detail)
        elif all(uses):
            ctx.fail(rule, "11.8#length-from-magnitude-only", "the octet count is computed from |value| only (`%s`): negative powers of two "
                                                               "such as -128 get one octet too many (X.691 10.4 requires the minimal "
                                                               "two's complement form)" % detail["octet_count"][:100], cs.loc(), detail)
        else:
            ctx.ok(rule, "11.8#length-sign-sensitive", detail)


def run(ctx):
    ctx.rule("C02.R1", "T3-b standards table: every X.691 threshold / constant of tables/x691.json is present, exactly, "
                       "in the writer and in the reader function it is anchored in")
    ctx.rule("C02.R2", "T3-c near miss: no fact of the same shape lies within +-2 of a table value without being equal")
    with open(os.path.join(VERIF, "tables", "x691.json")) as fh:
        table = json.load(fh)
    n = R.check_table(ctx, "C02.R1", "C02.R2", table)
    ctx.floor("C02.R1", n, "C02.R1.entries")
    r3(ctx)

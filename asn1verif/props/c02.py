"""C02 - X.691 bit-exactness inside the conformance profile (DESIGN.md sections 4 and 5/C02)."""
import json
import os

from .. import expr as X
from .. import facts as F
from .. import rules as R
from ..core import VERIF

ABS = ("abs", "unsigned_abs", "wrapping_abs", "saturating_abs", "checked_abs", "abs_diff")


def param_uses(ex, idx, under_abs=False, out=None):
    """occurrences of parameter `idx` in an origin expression: list of booleans `only seen through |x|`"""
    out = out if out is not None else []
    if not isinstance(ex, tuple) or not ex:
        return out
    if ex[0] == "param" and ex[1] == idx:
        out.append(under_abs)
        return out
    ua = under_abs or (ex[0] == "call" and X.last_seg(ex[1]) in ABS)
    for x in ex[1:]:
        if isinstance(x, tuple):
            if x and isinstance(x[0], str):
                param_uses(x, idx, ua, out)
            else:
                for y in x:
                    if isinstance(y, tuple):
                        if y and isinstance(y[0], str):
                            param_uses(y, idx, ua, out)
                        else:
                            for z in y:
                                if isinstance(z, tuple):
                                    param_uses(z, idx, ua, out)
    return out


def r3(ctx, rule="C02.R3"):
    ctx.rule(rule, "X.691 11.8 / 10.4 minimal two's complement: the octet count written by write_unconstrained_whole_number depends on "
                   "the value itself and not only on its magnitude |value| (-128 needs one octet, +128 two: no function of |value| "
                   "alone gives the minimal length)")
    P = ctx.program()
    bs = [b for b in P.find("asn1rs", "::write_unconstrained_whole_number") if b.def_kind == "AssocFn"]
    if len(bs) != 1:
        ctx.fail(rule, "anchor-lost:write_unconstrained_whole_number", "matched %d bodies" % len(bs))
        return
    b = bs[0]
    O = X.Origins(b, P)
    pn = b.param_names()
    vidx = [i for i, n in pn.items() if n == "value"]
    lds = [cs for cs in b.calls() if cs.name == "write_length_determinant"]
    if not vidx or not lds:
        ctx.fail(rule, "anchor-lost:length-of-11.8", "parameter `value` or the write_length_determinant call is gone", "%s:%d" % (b.file, b.line))
        return
    for cs in lds:
        a = O.call_args(cs)
        ex = a[3] if len(a) > 3 else ("unknown", "")
        uses = param_uses(ex, vidx[0])
        detail = {"function": b.path, "octet_count": F.rd(R.positional(ex))[:240], "uses_of_value": len(uses),
                  "uses_only_through_abs": sum(1 for u in uses if u)}
        if not uses:
            ctx.fail(rule, "11.8#length-independent-of-value", "the octet count `%s` does not depend on the value: the encoding is not "
                                                                "minimal" % detail["octet_count"][:80], cs.loc(), detail)
        elif all(uses) or any(param_uses(alt, vidx[0]) and all(param_uses(alt, vidx[0]))
                              for e in X.walk(ex) if e[0] == "phi" for alt in e[1]):
            # the whole count, or the count of one branch (`if value < 0 { value.unsigned_abs().leading_zeros() } else ..`)
            ctx.fail(rule, "11.8#length-from-magnitude-only", "the octet count is computed from |value| only (`%s`): negative powers of two "
                                                               "such as -128 get one octet too many (X.691 10.4 requires the minimal "
                                                               "two's complement form)" % detail["octet_count"][:100], cs.loc(), detail)
        else:
            ctx.ok(rule, "11.8#length-sign-sensitive", detail)


def r4(ctx):
    from ..mir import span_loc
    rule = "C02.R4"
    ctx.rule(rule, "T6 model provenance (ASN model -> Rust model, from which every constraint constant is printed): in "
                   "definition_to_rust the extension position of a Struct / Enumeration comes from the extension position of the "
                   "ASN.1 type being converted, its tag from the tag handed in, and its fields from the fields of that same type")
    P = ctx.program()
    bs = [b for b in P.find("asn1rs_model", "::definition_to_rust") if b.def_kind == "AssocFn"]
    if len(bs) != 1:
        ctx.fail(rule, "anchor-lost:definition_to_rust", "matched %d bodies" % len(bs))
        return
    b = bs[0]
    O = X.Origins(b, P)
    pn = b.param_names()
    tag_param = [i for i, n in pn.items() if n == "tag"]
    n = 0
    for bb, j, st in b.all_statements():
        if not (st["k"] == "assign" and st["rv"]["k"] == "agg" and st["rv"].get("ak") == "adt"):
            continue
        adt = st["rv"]["adt"].split("::")[-1]
        if adt not in ("Rust", "Enumeration") or not st["rv"].get("fields") or st["rv"]["fields"] == ["0"]:
            continue
        fields = {nm: F.rd(R.positional(O.operand(o, bb, j))) for nm, o in zip(st["rv"]["fields"], st["rv"]["ops"])}
        src = None
        for v in fields.values():
            import re as _re
            m = _re.search(r"\(\$\d+ as (\w+)\)", v)
            if m:
                src = m.group(1)
        key = "%s::%s<-%s" % (adt, st["rv"]["variant"], src)
        n += 1
        probs = []
        for nm, v in fields.items():
            if nm == "tag" and tag_param and v != "$%d" % tag_param[0]:
                probs.append("tag is taken from `%s`, not from the tag handed in" % v[:60])
            if nm in ("extension_after", "extended_after_index"):
                if src is None or ("as %s)" % src) not in v or "extension_after" not in v:
                    probs.append("%s is `%s`, not the extension position of the converted type" % (nm, v[:60]))
            if nm == "fields" and (src is None or ("as %s).0.fields" % src) not in v):
                probs.append("fields are built from `%s`" % v[:60])
        detail = {"built": key, "fields": {k: v[:120] for k, v in fields.items()}}
        if probs:
            ctx.fail(rule, key, "; ".join(probs) + ": EXTENDED_AFTER_FIELD / STD_VARIANT_COUNT / TAG are then printed for a different type "
                                                   "than the one that was parsed", span_loc(st["sp"]), detail)
        else:
            ctx.ok(rule, key, detail)
    ctx.floor(rule, n, "C02.R4.aggregates")


MODEL_TYPES = ("Range", "Size", "Integer", "BitString", "ComponentTypeList", "Enumerated", "Choice")


def returned_values(P, body, depth=1):
    """origin expressions of the values a function can return; a call of a local function is replaced by that function's
    returned values with the arguments substituted (one level)"""
    O = X.Origins(body, P)
    out = []
    for d in body.defs.get(0, ()):
        if d[2] == "assign":
            out.append(O.rvalue(d[3], d[0], d[1], 0))
        elif d[2] == "call":
            cs = d[3]
            t = P.resolve_callee(body.crate, cs) if depth > 0 else None
            if t is None:
                continue
            sub = {}
            pn = t.param_names()
            for i, a in enumerate(O.call_args(cs)):
                if pn.get(i + 1):
                    sub[pn[i + 1]] = a
            for e in returned_values(P, t, depth - 1):
                out.append(R.substitute(e, sub))
    return out


def r5(ctx, rule="C02.R5"):
    ctx.rule(rule, "T6 rebuilders keep the marker: a method of the ASN model that takes a Range / Size / ... by `self` and returns a "
                   "value of the same type (wrap_opt, reconsider_constraints, with_*; constructors it calls are followed one level) "
                   "never fills a bool field of the rebuilt value with a constant - the extension marker printed as EXTENSIBLE comes "
                   "from the value that was parsed")
    P = ctx.program()
    n = 0
    for b in P.lib_bodies("asn1rs_model"):
        if b.def_kind != "AssocFn" or b.derived or "::tests::" in b.path:
            continue
        base = (b.impl_self_ty or "").split("<")[0].split("::")[-1]
        pn = b.param_names()
        locs = b.raw.get("locals") or [{}]
        ret = locs[0].get("ty", "") if locs else ""
        if base not in MODEL_TYPES or pn.get(1) != "self" or ("::%s<" % base not in ret + "<" and not ret.endswith("::" + base)):
            continue
        if b.name == "try_resolve":
            continue        # field provenance of the resolvers is C07.R1
        adt = None
        for k, a in P.adts.items():
            if k.startswith("asn1rs_model::") and k.endswith("::" + base):
                adt = a
        bools = {}
        if adt:
            for v in adt["variants"]:
                bools[v["name"]] = [f["name"] for f in v["fields"] if f["ty"] == "bool"]
        vals = returned_values(P, b)
        for e in vals:
            for x in X.walk(e):
                if x[0] == "agg" and x[1] == "adt" and x[2].endswith("::" + base):
                    n += 1
                    flds = dict(x[4])
                    key = "%s::%s#%s" % (base, b.name, x[3])
                    bad = [(f, flds[f]) for f in bools.get(x[3], []) if f in flds and F.strip_casts(flds[f])[0] == "const"]
                    detail = {"function": b.path, "rebuilt": "%s::%s" % (base, x[3]), "fields": {k: F.rd(R.positional(v))[:100] for k, v in flds.items()}}
                    if bad:
                        ctx.fail(rule, key, "%s::%s rebuilds the value with the constant `%s` in its bool field `%s`: the extension marker of "
                                            "the source is lost (EXTENSIBLE is then printed as false for an extensible constraint)"
                                 % (base, b.name, F.rd(bad[0][1]), bad[0][0]), "%s:%d" % (b.file, b.line), detail)
                    else:
                        ctx.ok(rule, key, detail)
    ctx.floor(rule, n, "C02.R5.rebuilds")


def run(ctx):
    ctx.rule("C02.R1", "T3-b standards table: every X.691 threshold / constant of tables/x691.json is present, exactly, "
                       "in the writer and in the reader function it is anchored in")
    ctx.rule("C02.R2", "T3-c near miss: no fact of the same shape lies within +-2 of a table value without being equal")
    with open(os.path.join(VERIF, "tables", "x691.json")) as fh:
        table = json.load(fh)
    n = R.check_table(ctx, "C02.R1", "C02.R2", table)
    ctx.floor("C02.R1", n, "C02.R1.entries")
    r3(ctx)
    r4(ctx)
    r5(ctx)
    from .c10 import selectors
    selectors(ctx, "C02.R6", pin=True)
    # the preamble constants of a SEQUENCE / SET are printed from the model's own fields (shared with C03 / C08)
    from .c03 import r5 as sequence_constants
    sequence_constants(ctx, rule="C02.R7")

"""C02 - X.691 bit-exactness inside the conformance profile (DESIGN.md sections 4 and 5/C02)."""
import json
import os

from .. import rules as R
from ..core import VERIF


def run(ctx):
    ctx.rule("C02.R1", "T3-b standards table: every X.691 threshold / constant of tables/x691.json is present, exactly, "
                       "in the writer and in the reader function it is anchored in")
    ctx.rule("C02.R2", "T3-c near miss: no fact of the same shape lies within +-2 of a table value without being equal")
    with open(os.path.join(VERIF, "tables", "x691.json")) as fh:
        table = json.load(fh)
    n = R.check_table(ctx, "C02.R1", "C02.R2", table)
    ctx.floor("C02.R1", n, "C02.R1.entries")

"""C13 - layout invariance of the tokenizer: flush discipline and location expressions (DESIGN.md section 5, C13)."""
from .. import expr as X
from .. import facts as F
from .. import rules as R
from ..mir import span_loc


def natural_loop(body, h):
    tails = [p for p in body.pred[h] if body.dominates(h, p)]
    loop = {h}
    stack = list(tails)
    while stack:
        n = stack.pop()
        if n not in loop:
            loop.add(n)
            stack.extend(p for p in body.pred[n] if p in body.reachable)
    return loop


def r1(ctx):
    rule = "C13.R1"
    ctx.rule(rule, "T8-b flush before append: after every separator event of Tokenizer::parse - the end of a line (normal loop exit and "
                   "`break` at a line comment) and the start of a block comment from normal mode - every CFG path to the next "
                   "Token::append passes Option::take on the pending token")
    P = ctx.program()
    try:
        b = P.one("asn1rs_model", "Tokenizer::parse")
    except KeyError as e:
        ctx.fail(rule, "anchor-lost:Tokenizer::parse", str(e))
        return
    O = X.Origins(b, P)
    prev = b.local_by_name("previous")
    nest = b.local_by_name("nest_lvl")
    citer = b.local_by_name("content_iterator")
    if not (ctx.anchor(rule, "local `previous`", prev) and ctx.anchor(rule, "local `nest_lvl`", nest)
            and ctx.anchor(rule, "local `content_iterator`", citer)):
        return
    appends = [cs for cs in b.calls() if cs.name == "append" and cs.fn and cs.fn["def"].endswith("Token::append")]
    if not ctx.anchor(rule, "call of Token::append", appends):
        return

    def refers(cs, locals_):
        for a in cs.args[:1]:
            if a.get("k") in ("copy", "move"):
                bases = set()
                l = a["pl"]["l"]
                # &mut previous  -> temp
                for d in b.defs.get(l, ()):
                    if d[2] == "assign" and d[3]["k"] in ("ref", "rawptr"):
                        bases.add(d[3]["pl"]["l"])
                if l in locals_ or bases & set(locals_):
                    return True
        return False

    prev_ptrs = R.pointers_to(b, prev)
    flushes = {cs.bb for cs in b.calls() if cs.name == "take" and cs.fn and "Option" in cs.fn["def"]
               and (refers(cs, prev) or (cs.args and cs.args[0].get("k") in ("copy", "move") and cs.args[0]["pl"]["l"] in prev_ptrs))}
    # a take whose payload is the receiver of Token::append reads the pending token in order to merge it: not a flush
    merge_takes = set()
    for app in appends:
        for e in X.walk(O.call_args(app)[0]):
            if e[0] == "call" and X.last_seg(e[1] or "") == "take":
                merge_takes.add(e[4])
    flushes = {cs.bb for cs in b.calls() if cs.bb in flushes and cs.name == "take" and cs.loc() not in merge_takes}
    if not ctx.anchor(rule, "Option::take on `previous`", sorted(flushes)):
        return
    append_blocks = {cs.bb for cs in appends}
    events = {}
    # (a) block comment start from normal mode: nest_lvl += 1 not under the `nest_lvl > 0` branch
    comment_mode = None
    for c in F.comparisons(b, O):
        if c.switch_bb is not None and c.rhs == "" and c.kind == "b" and c.boundary == 1 and "nest_lvl" in (c.lhs or "") or (
                c.switch_bb is not None and c.lex is not None and X.strip(c.lex)[0] in ("phi", "mut", "const", "bin", "loop")
                and c.kind == "b" and c.boundary == 1 and c.rhs == "" and _names_local(b, c, nest)):
            t = b.blocks[c.switch_bb]["term"]
            # true successor = otherwise (value != 0)
            comment_mode = (c.switch_bb, t["otherwise"])
            break
    def is_copy_of(op, locals_):
        if op.get("k") not in ("copy", "move"):
            return False
        l = op["pl"]["l"]
        if l in locals_:
            return True
        ds = b.defs.get(l, ())
        return len(ds) == 1 and ds[0][2] == "assign" and ds[0][3]["k"] == "use" and ds[0][3]["op"].get("k") in ("copy", "move") \
            and ds[0][3]["op"]["pl"]["l"] in locals_ and not ds[0][3]["op"]["pl"]["p"]

    if comment_mode is None:
        # find `nest_lvl > 0` through the statement's operand local
        for bb, j, s in b.all_statements():
            if s["k"] == "assign" and s["rv"]["k"] == "bin" and s["rv"]["op"] == "Gt":
                l = s["rv"]["l"]
                if is_copy_of(l, nest) and s["rv"]["r"].get("val") == "0":
                    t = b.blocks[bb]["term"]
                    if t and t["k"] == "switch":
                        comment_mode = (bb, t["otherwise"])
    if not ctx.anchor(rule, "`nest_lvl > 0` mode test", comment_mode):
        return
    in_comment = {x for x in b.reachable if b.dominates(comment_mode[1], x)}
    incs = []
    for bb, j, s in b.all_statements():
        if s["k"] == "assign" and s["pl"]["l"] in nest and not s["pl"]["p"]:
            ex = O.rvalue(s["rv"], bb, j, 0)
            txt = X.render(ex)
            if "Add" in txt and bb not in in_comment:
                incs.append((bb, span_loc(s["sp"])))
    if not ctx.anchor(rule, "`nest_lvl += 1` in normal mode (block comment start)", incs):
        return
    for bb, loc in incs:
        events["block-comment-start@" + str(len(events))] = (bb, loc)
    # (b) end of line: exits of the inner `while let Some(..) = content_iterator.next()` loop
    headers = []
    for cs in b.calls():
        if cs.name == "next" and refers(cs, citer):
            # loop header: the discriminant of its result is switched on
            dest = cs.dest["l"]
            if cs.target is not None and any(s["k"] == "assign" and s["rv"]["k"] == "discr" and s["rv"]["pl"]["l"] == dest
                                             for s in b.blocks[cs.target]["stmts"]):
                headers.append(cs)
    if not ctx.anchor(rule, "inner loop header `content_iterator.next()`", headers):
        return
    h = min(headers, key=lambda c: c.bb)
    loop = natural_loop(b, h.bb)
    exits = sorted({s for n in loop for s in b.succ[n] if s not in loop and s in b.reachable
                    and not (b.blocks[s]["term"] or {}).get("k") == "unreachable"})
    for e in exits:
        # ignore exits that only lead to a panic
        if not any(r in b.reach_from(e) for r in b.return_blocks()):
            continue
        events["end-of-line@%d" % len(events)] = (e, "exit of the per-line loop (block %d)" % e)
    n = 0
    for name, (bb, loc) in sorted(events.items()):
        n += 1
        reach = b.reach_from(bb, avoid=flushes)
        leak = sorted(reach & append_blocks)
        if bb in flushes:
            leak = []
        detail = {"event": name, "at": loc, "flush_blocks": sorted(flushes), "append_blocks": sorted(append_blocks)}
        if leak:
            ctx.fail(rule, name.split("@")[0] + "#no-flush", "after the separator event `%s` (%s) a path reaches Token::append without "
                     "`previous.take()`: the text before and after the separator is merged into one token" % (name.split("@")[0], loc),
                     loc if ":" in loc else "%s:%d" % (b.file, b.line), detail)
        else:
            ctx.ok(rule, name, detail)
    ctx.floor(rule, n, "C13.R1.events")


def _names_local(body, c, locals_):
    return False


def r2(ctx):
    rule = "C13.R2"
    ctx.rule(rule, "location agreement: Token::Text and Token::Separator are built with Location::at(line index + 1, column index + 1) "
                   "with equal argument descriptors, and Token::append keeps the left operand's location")
    P = ctx.program()
    try:
        b = P.one("asn1rs_model", "Tokenizer::parse")
        ap = P.one("asn1rs_model", "parse::token::Token::append")
    except KeyError as e:
        ctx.fail(rule, "anchor-lost", str(e))
        return
    O = X.Origins(b, P)
    # the location each token constructor is given (the value may be computed once and shared by both constructors)
    ats = []
    descs = []
    kinds = set()
    for bb, j, st in b.all_statements():
        rv = st.get("rv") or {}
        if st["k"] == "assign" and rv.get("k") == "agg" and rv.get("adt", "").endswith("Token") and rv.get("variant") in ("Text", "Separator"):
            e = O.operand(rv["ops"][0], bb, j)
            while e[0] in ("ref", "deref", "mut"):
                e = e[1]
            if e[0] == "call" and (e[1] or "").endswith("Location::at"):
                kinds.add(rv["variant"])
                descs.append(tuple(F.rd(a) for a in e[3]))

                class _Site:
                    def __init__(self, l):
                        self._l = l

                    def loc(self):
                        return self._l
                ats.append(_Site(span_loc(st["sp"])))
    detail = {"constructors": [{"at": c.loc(), "location_args": d} for c, d in zip(ats, descs)]}
    if kinds != {"Text", "Separator"}:
        ctx.fail(rule, "anchor-lost:Location::at", "expected Location::at at the Text and the Separator constructor, found it at %s" % sorted(kinds),
                 "%s:%d" % (b.file, b.line), detail)
    elif len(set(descs)) != 1:
        ctx.fail(rule, "constructors-differ", "Token::Text and Token::Separator compute their location differently: %s" % descs,
                 ats[0].loc(), detail)
    elif not all(d.endswith("Add 1)") for d in descs[0]):
        ctx.fail(rule, "one-based", "token locations are not (0-based enumerate index + 1): %s" % (descs[0],), ats[0].loc(), detail)
    elif ".0" not in descs[0][0] or ".0" not in descs[0][1] or descs[0][0] == descs[0][1]:
        ctx.fail(rule, "index-source", "line / column do not come from the two enumerate() indices: %s" % (descs[0],), ats[0].loc(), detail)
    else:
        ctx.ok(rule, "constructors", detail)
    # append keeps the left location
    Oa = X.Origins(ap, P)
    keeps = []
    for bb, j, s in ap.all_statements():
        if s["k"] == "assign" and s["rv"]["k"] == "agg" and s["rv"].get("variant") == "Text" and s["rv"]["adt"].endswith("Token"):
            loc_ex = Oa.operand(s["rv"]["ops"][0], bb, j)
            keeps.append(F.rd(R.positional(loc_ex)))
    d2 = {"function": ap.path, "location_of_merged_token": keeps}
    if not keeps:
        ctx.fail(rule, "anchor-lost:append-text", "Token::append no longer builds the merged Token::Text", "%s:%d" % (ap.file, ap.line), d2)
    elif not all("$1" in k and "$2" not in k for k in keeps):
        ctx.fail(rule, "append-location", "the merged token does not keep the location of the left (first) token: %s" % keeps,
                 "%s:%d" % (ap.file, ap.line), d2)
    else:
        ctx.ok(rule, "append-location", d2)


def r3(ctx):
    rule = "C13.R3"
    ctx.rule(rule, "sanctioned panic: Tokenizer::parse contains exactly one explicit panic site (the unterminated block comment)")
    P = ctx.program()
    try:
        b = P.one("asn1rs_model", "Tokenizer::parse")
    except KeyError as e:
        ctx.fail(rule, "anchor-lost", str(e))
        return
    ps = [cs for body in [b] + P.closures_of(b) for cs in body.calls()
          if cs.fn and cs.fn["def"].startswith("core::panicking::panic") and not (cs.sp or {}).get("exp", {}).get("name", "") == ""]
    ps = [cs for body in [b] + P.closures_of(b) for cs in body.calls()
          if cs.fn and (cs.fn["def"].startswith("core::panicking::") or cs.fn["def"].startswith("std::rt::begin_panic")
                        or cs.fn["def"].startswith("std::rt::panic_fmt"))]
    explicit = [cs for cs in ps if any(c.split(":")[1] in ("panic", "unreachable", "todo", "unimplemented", "assert", "assert_eq", "assert_ne")
                                       for c in ((cs.term.get("sp") or {}).get("exp") or {}).get("chain", []))]
    detail = {"explicit_panics": [c.loc() for c in explicit]}
    if len(explicit) != 1:
        ctx.fail(rule, "panic-count", "Tokenizer::parse has %d explicit panic sites; only the unterminated-comment panic is sanctioned" % len(explicit),
                 explicit[-1].loc() if explicit else "%s:%d" % (b.file, b.line), detail)
    else:
        ctx.ok(rule, "panic-count", detail)


def r4(ctx):
    rule = "C13.R4"
    ctx.rule(rule, "lookahead discipline: apart from the loop head, Tokenizer::parse consumes a character (`next()` on the peekable "
                   "character iterator) only after it has inspected that very character with `peek()` - consuming an un-peeked "
                   "character makes the result depend on what happens to follow (`**/`, `//*`)")
    P = ctx.program()
    try:
        b = P.one("asn1rs_model", "Tokenizer::parse")
    except KeyError as e:
        ctx.fail(rule, "anchor-lost:Tokenizer::parse", str(e))
        return

    def on_chars(cs):
        return any("Peekable<" in t and "Chars" in t for t in cs.term.get("argtys", []))
    nexts = [cs for cs in b.calls() if cs.name == "next" and on_chars(cs)]
    peeks = [cs for cs in b.calls() if cs.name == "peek" and on_chars(cs)]
    if not nexts or not peeks:
        ctx.fail(rule, "anchor-lost:character-iterator", "no next()/peek() calls on the character iterator", "%s:%d" % (b.file, b.line))
        return
    # loop head: the next() whose block dominates every other use of the iterator
    head = [n for n in nexts if all(m is n or b.dominates(n.bb, m.bb) for m in nexts + peeks)]
    if len(head) != 1:
        ctx.fail(rule, "anchor-lost:loop-head", "cannot identify the `while let Some(..) = it.next()` head (%d candidates)" % len(head),
                 "%s:%d" % (b.file, b.line))
        return
    k = 0
    for n in nexts:
        if n is head[0]:
            continue
        k += 1
        # a peek on a path-dominating block, with no other consumption in between
        pk = [p for p in peeks if p.bb != n.bb and b.dominates(p.bb, n.bb)
              and not any(m is not n and m is not head[0] and b.dominates(p.bb, m.bb) and b.dominates(m.bb, n.bb) for m in nexts)]
        tested = [p for p in pk if p.target is not None and any(
            s != n.bb and b.dominates(p.target, s) and b.dominates(s, n.bb) or s == p.target for s, t in b.switches()
            if b.dominates(p.target, s) and (s == n.bb or b.dominates(s, n.bb)))]
        key = "next#%d" % k
        detail = {"consumes_at": n.loc(), "peeked_at": [p.loc() for p in tested]}
        if not tested:
            ctx.fail(rule, key, "a character is consumed without having been peeked at: the token stream now depends on the character "
                                "that follows (e.g. the second `*` of `**/` is swallowed and the comment never closes)", n.loc(), detail)
        else:
            ctx.ok(rule, key, detail)
    ctx.floor(rule, k, "C13.R4.consumptions")
    # a comment delimiter that was recognised by look-ahead is consumed: every change of the nesting level that follows a peek
    # goes together with a next() in the same branch (otherwise the second character of `/*` / `*/` is looked at again and can
    # pair up with its neighbour: `/*/`)
    lvl = [l for l, nme in (b.names or {}).items() if nme == "nest_lvl"]
    changes = []
    for bb, j, st in b.all_statements():
        if st["k"] == "assign" and not st["pl"]["p"] and st["pl"]["l"] in lvl and st["rv"]["k"] in ("bin", "use", "field"):
            if st["rv"]["k"] == "use" and st["rv"]["op"].get("k") == "const":
                continue        # initialisation
            changes.append((bb, span_loc(st["sp"])))
    m = 0
    for bb, loc in changes:
        pk = [p for p in peeks if p.bb != bb and b.dominates(p.bb, bb)]
        if not pk:
            continue
        m += 1
        near = max(pk, key=lambda p: len(b.dom.get(p.bb, ())))
        cons = [n for n in nexts if n is not head[0] and b.dominates(near.bb, n.bb) and (b.dominates(bb, n.bb) or b.dominates(n.bb, bb) or n.bb == bb)]
        d = {"nesting_level_changed_at": loc, "recognised_by_peek_at": near.loc(), "consumed_at": [n.loc() for n in cons]}
        if not cons:
            ctx.fail(rule, "delimiter-consumed#%d" % m, "the comment nesting level changes after a look-ahead matched, but the matched "
                                                        "character is not consumed: it is examined again and can act as half of another "
                                                        "delimiter (`/*/`)", loc, d)
        else:
            ctx.ok(rule, "delimiter-consumed#%d" % m, d)
    ctx.floor(rule, m, "C13.R4.delimiters")


CONSUMERS = ("next", "next_or_err", "next_text_or_err", "next_separator_eq_or_err", "next_if_separator_and_eq", "read_string_literal",
             "read_hex_or_bit_string_literal", "next_text_eq_ignore_case_or_err", "next_text_eq_any_ignore_case_or_err")


def r5(ctx):
    rule = "C13.R5"
    ctx.rule(rule, "a reported location is the start of the reported item: in Model::read_literal the Location that goes into the "
                   "InvalidLiteral token is taken from the look-ahead token *before* anything of the literal is consumed (the call that "
                   "yields it dominates every consuming call) - taken afterwards it is the position of whatever follows the literal "
                   "and moves with white-space and comments")
    P = ctx.program()
    bs = [b for b in P.find("asn1rs_model", "::read_literal") if b.def_kind == "AssocFn"]
    if len(bs) != 1:
        ctx.fail(rule, "anchor-lost:read_literal", "matched %d bodies" % len(bs))
        return
    b = bs[0]
    O = X.Origins(b, P)
    locs = []
    for bb, j, st in b.all_statements():
        if st["k"] == "assign" and st["rv"]["k"] == "agg" and st["rv"].get("ak") == "adt" and st["rv"]["adt"].endswith("Token") \
                and st["rv"].get("variant") == "Text" and st["rv"]["ops"]:
            e = O.operand(st["rv"]["ops"][0], bb, j)
            for x in X.walk(e):
                if x[0] == "call" and X.last_seg(x[1]) == "location":
                    locs.append(x[4])
    consumers = [cs for cs in b.calls() if cs.name in CONSUMERS]
    loc_calls = [cs for cs in b.calls() if cs.name == "location" and cs.loc() in locs]
    if not loc_calls or not consumers:
        ctx.fail(rule, "read_literal#anchor-lost", "location capture (%d) / consuming calls (%d) not found" % (len(loc_calls), len(consumers)),
                 "%s:%d" % (b.file, b.line))
        return
    lc = loc_calls[0]
    late = [c for c in consumers if not b.dominates(lc.bb, c.bb)]
    detail = {"location_taken_at": lc.loc(), "consuming_calls": [c.loc() + " " + c.name for c in consumers]}
    if late:
        ctx.fail(rule, "read_literal#location-before-consumption", "the location of the InvalidLiteral token is taken at %s, which does not "
                                                                   "precede the consumption at %s: the error points behind the literal"
                 % (lc.loc(), late[0].loc()), lc.loc(), detail)
    else:
        ctx.ok(rule, "read_literal#location-before-consumption", detail)


def r6(ctx):
    rule = "C13.R6"
    ctx.rule(rule, "lexical decisions are made per character: Tokenizer::parse looks at the text only through `lines()` and `chars()` - "
                   "no search, split, trim or slice of a whole line (`line.find(\"--\")`, `split(\"/*\")`, `&line[..i]`) - because "
                   "whether `--` starts a comment depends on the block-comment depth *at that character*, which only the character "
                   "loop knows (a line cut at its first `--` loses the `*/` behind a `--` inside a block comment)")
    P = ctx.program()
    bs = [b for b in P.lib_bodies("asn1rs_model") if b.name == "parse" and "Tokenizer" in b.path and b.def_kind == "AssocFn"]
    if len(bs) != 1:
        ctx.fail(rule, "anchor-lost:Tokenizer::parse", "matched %d bodies" % len(bs))
        return
    b = bs[0]
    allowed = {"lines", "chars", "char_indices", "len", "is_empty", "bytes"}
    n = 0
    bad = []
    for body in [b] + P.closures_of(b):
        for cs in body.calls():
            callee = cs.callee or ""
            st = (cs.fn or {}).get("self_ty") or ""
            on_str = "<impl str>" in callee or st in ("str", "&str") or ("Index" in (cs.trait or "") and "str" == st)
            if not on_str:
                continue
            n += 1
            if cs.name not in allowed:
                bad.append((cs.name, cs.loc()))
    d = {"function": b.path, "text_level_calls": n, "other_than_lines_chars": bad}
    if bad:
        ctx.fail(rule, "Tokenizer::parse#whole-line-operation", "`%s` at %s works on a whole line of the input: the decision it makes does not "
                                                                "know the comment depth at the characters it skips" % bad[0], bad[0][1], d)
    else:
        ctx.ok(rule, "Tokenizer::parse#per-character", d)
    ctx.floor(rule, n, "C13.R6.calls")


def run(ctx):
    r1(ctx)
    r2(ctx)
    r3(ctx)
    r4(ctx)
    r5(ctx)
    r6(ctx)

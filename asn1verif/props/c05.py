"""C05 - extension additions across schema versions: dataflow facts in rw/uper.rs (DESIGN.md 5/C05)."""
import re
from .. import expr as X
from .. import facts as F
from .. import rules as R
from ..mir import span_loc

COUNT_CALLS = ("read_normally_small_length", "read_normally_small_non_negative_whole_number")


def mentions_call(ex, names, not_under=()):
    """does the expression mention a call of `names` that is not nested inside a call of `not_under`?"""
    def go(e, blocked):
        if e[0] == "call":
            nm = X.last_seg(e[1])
            if nm in names and not blocked:
                return True
            b2 = blocked or nm in not_under
            return any(go(a, b2) for a in e[3])
        k = e[0]
        subs = []
        if k in ("field", "deref", "ref", "downcast", "discr", "mut", "try", "overflowflag"):
            subs = [e[1]]
        elif k == "bin":
            subs = [e[2], e[3]]
        elif k in ("un", "cast"):
            subs = [e[2]]
        elif k == "agg":
            subs = [x for _, x in e[4]]
        elif k == "phi":
            subs = list(e[1])
        elif k == "unwrap_or":
            subs = [e[1], e[2]]
        elif k == "index":
            subs = [e[1], e[2]]
        return any(go(x, blocked) for x in subs)
    return go(ex, False)


def r1_r2(ctx):
    r1 = "C05.R1"
    r2 = "C05.R2"
    ctx.rule(r1, "transmitted count bounds the presence range: in Scope::read_from_field the end of the range stored in Scope::AllBitField "
                 "depends on the addition count read from the wire (otherwise presence bits the sender never wrote are read from the "
                 "first open type)")
    ctx.rule(r2, "transmitted count is retained: the number of additions the sender wrote (beyond those this schema knows) is stored in "
                 "the scope / reader state or used to skip them - if it only bounds the known range and the bitmap skip, unknown "
                 "additions of a newer sender stay unread")
    P = ctx.program()
    try:
        b = P.one("asn1rs", "rw::uper::Scope::read_from_field")
    except KeyError as e:
        ctx.fail(r1, "anchor-lost:read_from_field", str(e))
        return
    bodies = [b] + P.closures_of(b)
    ranges = []
    retained = []
    uses = []
    for body in bodies:
        O = X.Origins(body, P)
        for bb, j, s in body.all_statements():
            if s["k"] == "assign" and s["rv"]["k"] == "agg" and s["rv"].get("adt", "").endswith("uper::Scope"):
                for nm, o in zip(s["rv"]["fields"], s["rv"]["ops"]):
                    ex = O.operand(o, bb, j)
                    if s["rv"]["variant"] == "AllBitField":
                        ranges.append((ex, span_loc(s["sp"])))
                    if mentions_call(ex, COUNT_CALLS, not_under=("min", "max", "clamp")):
                        retained.append(("Scope::%s.%s" % (s["rv"]["variant"], nm), span_loc(s["sp"])))
        for cs in body.calls():
            args = O.call_args(cs)
            if any(mentions_call(a, COUNT_CALLS) for a in args) and cs.name not in ("branch", "from_residual", "try_from", "ok", "and_then",
                                                                                  "checked_add", "ok_or", "into"):
                uses.append("%s(%s)" % (cs.name, ", ".join(X.render(a)[:50] for a in args[1:])))
                if cs.name not in ("min", "max", "set_pos", "remaining", "new_display", "warning", "push", "format"):
                    if any(mentions_call(a, COUNT_CALLS, not_under=("min", "max", "clamp")) for a in args) and cs.is_local:
                        retained.append((cs.name, cs.loc()))
    if not ctx.anchor(r1, "Scope::AllBitField construction in read_from_field", ranges):
        return
    ex, loc = ranges[0]
    end = None
    if ex[0] == "agg":
        for nm, x in ex[4]:
            if nm == "end":
                end = x
    detail = {"function": b.path, "range": X.render(ex)[:200]}
    if end is None:
        ctx.fail(r1, "anchor-lost:range-end", "AllBitField is not built from a Range literal", loc, detail)
    elif not mentions_call(end, COUNT_CALLS):
        ctx.fail(r1, "read_from_field#presence-range-end", "the presence range of the extension additions ends at `%s`, which does not depend on "
                                                          "the transmitted addition count: data of an older sender is misread" % X.render(end)[:80],
                 loc, detail)
    else:
        ctx.ok(r1, "read_from_field#presence-range-end", detail)
    # the bitmap skip covers every transmitted presence bit: set_pos(start + transmitted), not the clamped (known) count
    skips = []
    for body in bodies:
        O = X.Origins(body, P)
        for cs in body.calls():
            if cs.name == "set_pos":
                a = O.call_args(cs)
                if len(a) > 1:
                    skips.append((a[1], cs.loc()))
    r6 = "C05.R6"
    ctx.rule(r6, "bitmap skip: after the addition count is read, read_from_field moves the cursor by the *transmitted* count of "
                 "presence bits (not by the number this schema knows): a newer sender's extra presence bits must not be taken for the "
                 "first open-type length")
    if not skips:
        ctx.fail(r6, "anchor-lost:set_pos", "read_from_field no longer skips the presence bitmap with set_pos", loc)
    for a, l in skips:
        d6 = {"function": b.path, "set_pos_argument": X.render(a)[:200]}
        if not mentions_call(a, COUNT_CALLS, not_under=("min", "max", "clamp")):
            ctx.fail(r6, "read_from_field#bitmap-skip", "the presence bitmap is skipped by `%s`, which is not the transmitted addition count "
                                                         "(unclamped): when the sender knows more additions than this schema the "
                                                         "remaining presence bits are read as data" % X.render(a)[:90], l, d6)
        else:
            ctx.ok(r6, "read_from_field#bitmap-skip", d6)
    # the presence range starts where the bitmap starts: at the cursor position taken before the skip, without arithmetic
    r9 = "C05.R9"
    ctx.rule(r9, "bitmap anchor: the range stored in Scope::AllBitField starts at the cursor position read *before* the bitmap is skipped "
                 "(the first transmitted presence bit belongs to the first addition this schema knows); a range anchored at the end of the "
                 "transmitted bitmap reads the presence bits of a newer sender's unknown additions for the known ones")
    start = None
    if ex[0] == "agg":
        for nm, x in ex[4]:
            if nm == "start":
                start = x
    d9 = {"function": b.path, "range_start": X.render(start)[:160] if start is not None else None}
    st = X.strip(start) if start is not None else None
    if st is None:
        ctx.fail(r9, "anchor-lost:range-start", "AllBitField is not built from a Range literal", loc, d9)
    elif not (st[0] == "call" and X.last_seg(st[1] or "") == "pos"):
        ctx.fail(r9, "read_from_field#presence-range-start", "the presence range of the extension additions starts at `%s`, not at the cursor "
                                                            "position in front of the bitmap" % X.render(start)[:90], loc, d9)
    else:
        late = []
        for body in bodies:
            sk = [cs for cs in body.calls() if cs.name == "set_pos"]
            for cs in body.calls():
                if cs.name == "pos" and cs.loc() == st[4] and any(k.target is not None and body.dominates(k.target, cs.bb) for k in sk):
                    late.append(cs.loc())
        if late:
            ctx.fail(r9, "read_from_field#presence-range-start", "the start of the presence range is read after the bitmap was skipped", late[0], d9)
        else:
            ctx.ok(r9, "read_from_field#presence-range-start", d9)
    d2 = {"function": b.path, "uses_of_transmitted_count": sorted(set(uses))[:8], "retained_in": retained}
    if retained:
        ctx.ok(r2, "read_from_field#count-retained", d2)
    else:
        ctx.fail(r2, "read_from_field#count-dropped", "the transmitted addition count is only used to bound the known presence range and to skip "
                                                     "the bitmap (%s): additions this schema does not know are never skipped" % sorted(set(uses))[:4],
                 loc, d2)


def r3(ctx):
    rule = "C05.R3"
    ctx.rule(rule, "open-type skip: on success read_whole_sub_slice sets the position to (position captured before the content) + 8 * length, "
                   "so a known addition that grew in a newer version is skipped to its end")
    P = ctx.program()
    try:
        b = P.one("asn1rs", "UperReader::<B>::read_whole_sub_slice")
    except KeyError as e:
        ctx.fail(rule, "anchor-lost:read_whole_sub_slice", str(e))
        return
    O = X.Origins(b, P)
    fcalls = [cs for cs in b.calls() if cs.fn and (cs.trait or "").split("::")[-1] in ("FnOnce", "FnMut", "Fn")]
    sets = [cs for cs in b.calls() if cs.name == "set_pos"]
    poss = [cs for cs in b.calls() if cs.name == "pos"]
    detail = {"function": b.path, "set_pos": [(c.loc(), F.rd(R.positional(O.call_args(c)[1]))) for c in sets]}
    if not fcalls or not sets or not poss:
        ctx.fail(rule, "anchor-lost:calls", "closure call / set_pos / pos not found", "%s:%d" % (b.file, b.line), detail)
        return
    f = fcalls[0]
    good = []
    for sp in sets:
        arg = F.rd(R.positional(O.call_args(sp)[1]))
        after = f.target is not None and b.dominates(f.target, sp.bb)
        start_before = all(b.dominates(p.bb, f.bb) for p in poss if ("pos(" in arg))
        if after and "pos(" in arg and "$2 Mul 8" in arg and start_before:
            good.append(sp)
    if not good:
        ctx.fail(rule, "read_whole_sub_slice#skip", "after the content closure the position is not set to start + 8 * length_bytes", sets[0].loc(), detail)
        return
    # only on success: dominated by the is_ok test
    sp = good[0]
    oks = [cs for cs in b.calls() if cs.name == "is_ok"]
    if not any(c.target is not None and b.dominates(c.target, sp.bb) for c in oks):
        ctx.fail(rule, "read_whole_sub_slice#skip-on-success", "the skip is not conditional on the success of the content decoder", sp.loc(), detail)
    else:
        ctx.ok(rule, "read_whole_sub_slice#skip", detail)


def r4(ctx):
    rule = "C05.R4"
    ctx.rule(rule, "writer side: Scope::write_into_field writes the addition count and initialises the presence bits from the same field "
                   "(number_of_ext_fields)")
    P = ctx.program()
    try:
        b = P.one("asn1rs", "rw::uper::Scope::write_into_field")
    except KeyError as e:
        ctx.fail(rule, "anchor-lost:write_into_field", str(e))
        return
    O = X.Origins(b, P)
    cnt = [cs for cs in b.calls() if cs.name in ("write_normally_small_non_negative_whole_number", "write_normally_small_length")]
    rng = []
    for bb, j, s in b.all_statements():
        if s["k"] == "assign" and s["rv"]["k"] == "agg" and s["rv"].get("adt", "").endswith("ops::Range"):
            ex = O.rvalue(s["rv"], bb, j, 0)
            rng.append(X.render(ex))
    carg = [F.rd(R.positional(O.call_args(c)[1])) for c in cnt]
    detail = {"count_argument": carg, "ranges": rng[:4]}
    loops = [r for r in rng if "start: 0" in r and "number_of_ext_fields" in r]
    if not cnt or not all("number_of_ext_fields" in a and a.endswith("Sub 1)") for a in carg):
        ctx.fail(rule, "count-source", "the addition count is written from `%s`, not from number_of_ext_fields - 1" % carg,
                 cnt[0].loc() if cnt else "%s:%d" % (b.file, b.line), detail)
    elif not loops:
        ctx.fail(rule, "bitmap-init", "the presence bits are not initialised for 0..number_of_ext_fields", "%s:%d" % (b.file, b.line), detail)
    else:
        ctx.ok(rule, "write_into_field", detail)


BIAS_CALLS = {"checked_add": 1, "wrapping_add": 1, "saturating_add": 1, "overflowing_add": 1, "strict_add": 1, "unchecked_add": 1,
              "checked_sub": -1, "wrapping_sub": -1, "saturating_sub": -1, "overflowing_sub": -1, "strict_sub": -1, "unchecked_sub": -1}
PASS_CALLS = ("try_from", "from", "into", "try_into", "ok", "ok_or", "ok_or_else", "unwrap", "unwrap_or", "unwrap_or_default", "expect",
              "min", "max", "clamp", "branch", "map_err", "clone")


def count_biases(P, body, ex, is_count, out, depth=0):
    """constant offsets applied to the value for which `is_count` holds on the way up to `ex` (descends through conversions, Option /
    Result plumbing, min / max, and the closures given to map / and_then)"""
    if depth > 24 or not isinstance(ex, tuple) or not ex:
        return False
    if is_count(ex):
        return True
    k = ex[0]
    if k == "bin" and ex[1] in ("Add", "Sub", "AddWithOverflow", "SubWithOverflow", "AddUnchecked", "SubUnchecked"):
        sign = 1 if ex[1].startswith("Add") else -1
        l = count_biases(P, body, ex[2], is_count, out, depth + 1)
        r = count_biases(P, body, ex[3], is_count, out, depth + 1)
        for hit, other, sg in ((l, ex[3], sign), (r, ex[2], 1 if sign == 1 else None)):
            o = F.strip_casts(other)
            if hit and o[0] == "const" and sg is not None:
                out.append(sg * int(o[1]))
        return l or r
    if k == "call":
        nm = X.last_seg(ex[1] or "")
        args = ex[3]
        if nm in BIAS_CALLS and len(args) == 2:
            hit = count_biases(P, body, args[0], is_count, out, depth + 1)
            o = F.strip_casts(args[1])
            if hit and o[0] == "const":
                out.append(BIAS_CALLS[nm] * int(o[1]))
            return hit
        if nm in ("map", "and_then", "map_or", "map_or_else", "then", "filter_map") and len(args) >= 2:
            hit = count_biases(P, body, args[0], is_count, out, depth + 1)
            if hit:
                for a in args[1:]:
                    if a[0] == "agg" and a[1] == "closure":
                        cb = P.bodies.get("%s::%s" % (body.crate, a[2]))
                        if cb is None:
                            continue
                        Oc = X.Origins(cb, P)
                        for d in cb.defs.get(0, ()):
                            rv = Oc.rvalue(d[3], d[0], d[1], 0) if d[2] == "assign" else Oc.call_ex(d[3], 0)
                            count_biases(P, cb, rv, lambda e: e[0] == "param" and e[1] == 2, out, depth + 1)
            return hit
        if nm in PASS_CALLS or nm in ("Some", "Ok"):
            return any([count_biases(P, body, a, is_count, out, depth + 1) for a in args[:1]])
        return False
    subs = []
    if k in ("field", "deref", "ref", "downcast", "mut", "try"):
        subs = [ex[1]]
    elif k == "cast":
        subs = [ex[2]]
    elif k == "agg":
        subs = [x for _, x in ex[4]]
    elif k == "phi":
        subs = list(ex[1])
    elif k == "unwrap_or":
        subs = [ex[1]]
    return any([count_biases(P, body, x, is_count, out, depth + 1) for x in subs])


def r8(ctx):
    rule = "C05.R8"
    ctx.rule(rule, "count bias mirror (X.691 19.8: the number of additions n is sent as the normally small length n - 1): "
                   "Scope::write_into_field subtracts exactly 1 before writing the count (C05.R4) and Scope::read_from_field adds exactly 1 "
                   "to the value read before it is used as the number of presence bits (range end, bitmap skip)")
    P = ctx.program()
    try:
        b = P.one("asn1rs", "rw::uper::Scope::read_from_field")
    except KeyError as e:
        ctx.fail(rule, "anchor-lost:read_from_field", str(e))
        return

    def is_count(e):
        return e[0] == "call" and X.last_seg(e[1] or "") in COUNT_CALLS

    def is_known(e):
        return e[0] == "field" and e[2] == "number_of_ext_fields"

    n = 0
    for body in [b] + P.closures_of(b):
        O = X.Origins(body, P)
        by_loc = {c.loc(): c for c in body.calls()}
        counts = [c for c in body.calls() if c.name in COUNT_CALLS]
        for cs in body.calls():
            if cs.name not in ("set_pos", "min"):
                continue
            allargs = O.call_args(cs)
            for a in allargs[1 if cs.name == "set_pos" else 0:]:
                if not mentions_call(a, COUNT_CALLS):
                    # the other operand of the clamp: the number of additions this version knows, as it is
                    if cs.name == "min" and any(mentions_call(x, COUNT_CALLS) for x in allargs) and any(is_known(e) for e in X.walk(a)):
                        out2 = []
                        count_biases(P, body, a, is_known, out2)
                        n += 1
                        d2 = {"function": body.path, "use": "min", "value": X.render(a)[:200], "offsets": out2}
                        if out2:
                            ctx.fail(rule, "read_from_field#min-known-bias", "the number of additions this version knows enters the clamp of the "
                                                                             "presence range with the constant offsets %s while the transmitted count "
                                                                             "enters it as n: with fewer additions on the wire than known the range is "
                                                                             "one bit off" % out2, cs.loc(), d2)
                        else:
                            ctx.ok(rule, "read_from_field#min-known-bias", d2)
                    continue
                out = []
                count_biases(P, body, a, is_count, out)
                n += 1
                key = "read_from_field#%s-bias" % cs.name
                detail = {"function": body.path, "use": cs.name, "value": X.render(a)[:260], "offsets": out}
                if cs.name == "set_pos":
                    # a position taken after k presence bits of the bitmap were already read (`let first = bits.read_bit()?; let
                    # pos = bits.pos(); .. set_pos(pos + (n - 1))`) is k bits into the bitmap
                    k = 0
                    for e in X.walk(a):
                        if e[0] == "call" and X.last_seg(e[1] or "") == "pos" and len(e) > 4 and e[4] in by_loc:
                            pc = by_loc[e[4]]
                            ks = [sum(1 for c2 in body.calls() if c2.name == "read_bit" and c2.bb != cc.bb and body.dominates(cc.bb, c2.bb)
                                      and (body.dominates(c2.bb, pc.bb) and c2.bb != pc.bb)) for cc in counts if body.dominates(cc.bb, pc.bb)]
                            k = max([k] + ks)
                    detail["bits_of_the_bitmap_read_before_the_position"] = k
                    if k and sum(out) + k == 1:
                        ctx.ok(rule, key, detail)
                        continue
                if out != [1]:
                    ctx.fail(rule, key, "the transmitted addition count is used with the constant offsets %s instead of exactly +1 (the writer "
                                        "sends n - 1): the reader expects a different number of presence bits than were written" % out,
                             cs.loc(), detail)
                else:
                    ctx.ok(rule, key, detail)
    ctx.floor(rule, n, "C05.R8.uses")


def r5(ctx):
    from . import c01
    rule = "C05.R5"
    ctx.rule(rule, "both optional wrappers wrap: write_opt, write_default, read_opt and read_default all pass the value through with_buffer, "
                   "the only place where the open-type length of an extension addition is produced / consumed")
    P = ctx.program()
    for side, ty in (("write", "<rw::uper::UperWriter as descriptor::Writer>::"), ("read", "<rw::uper::UperReader<B> as descriptor::Reader>::")):
        for k in ("opt", "default"):
            bs = [b for b in P.lib_bodies("asn1rs") if b.path == ty + side + "_" + k]
            if len(bs) != 1:
                ctx.fail(rule, "anchor-lost:%s_%s" % (side, k), "not found")
                continue
            sk = c01.skeleton(ctx, bs[0], 0)
            names = sorted({e[0] for e in sk})
            if "with_buffer" not in names:
                ctx.fail(rule, "%s_%s" % (side, k), "%s_%s does not pass the value through with_buffer: an extension addition of this kind "
                                                    "is encoded inline without the open-type length and cannot be skipped by an older reader" % (side, k),
                         "%s:%d" % (bs[0].file, bs[0].line), {"skeleton": names})
            else:
                ctx.ok(rule, "%s_%s" % (side, k), {"skeleton": names})


def r10(ctx):
    rule = "C05.R10"
    ctx.rule(rule, "an open type is skipped, never judged: in UperReader::with_buffer and read_whole_sub_slice (closures included) no error "
                   "is built on a path that follows the successful return of the content closure - how much of the announced octets the "
                   "content used is not a reason to fail, because a reader of an older version stops early inside an addition whose own "
                   "type has grown and relies on the length to skip the rest")
    P = ctx.program()
    n = 0
    for fn in ("with_buffer", "read_whole_sub_slice"):
        roots = [b for b in P.lib_bodies("asn1rs") if "UperReader" in b.path and b.name == fn and b.def_kind == "AssocFn"]
        if len(roots) != 1:
            ctx.fail(rule, "anchor-lost:" + fn, "matched %d bodies" % len(roots))
            continue
        root = roots[0]
        calls = []
        for body in [root] + P.closures_of(root):
            for cs in body.calls():
                if cs.name in ("call_once", "call", "call_mut") and cs.fn and "closure@" not in (cs.fn.get("self_ty") or "") \
                        and re.match(r"^[A-Z]\w{0,2}$", (cs.fn.get("self_ty") or "").lstrip("&").replace("mut ", "")):
                    calls.append((body, cs))
        if not calls:
            # the content closure is handed on (with_buffer -> read_whole_sub_slice) or wrapped; nothing is called here
            ctx.ok(rule, fn, {"function": root.path, "content_closure_calls": 0}, nontrivial=False)
            continue
        for body, cs in calls:
            n += 1
            after = body.reach_from(cs.target) if cs.target is not None else set()
            bad = []
            for bb in sorted(after):
                for st in body.blocks[bb]["stmts"]:
                    rv = st.get("rv") or {}
                    if st["k"] == "assign" and rv.get("k") == "agg" and (rv.get("adt") or "").endswith(("err::ErrorKind", "err::Error")):
                        bad.append(("ErrorKind::%s" % rv.get("variant"), span_loc(st["sp"])))
                t = body.blocks[bb]["term"]
                if t and t["k"] == "call":
                    full = ((t["func"].get("fn") or {}).get("full") or "")
                    if re.search(r"err::Error::\w+$", full) and not full.endswith("::from"):
                        bad.append((full.split("::")[-1], span_loc(t["sp"])))
            key = "%s#after-content" % (body.root or body.path).split("::")[-1] if body is not root else fn + "#after-content"
            detail = {"function": body.path, "content_closure_called_at": cs.loc(), "errors_built_afterwards": bad[:4]}
            if bad:
                ctx.fail(rule, fn + "#after-content", "after the content of the open type was read successfully, %s is built at %s: the reader "
                                                     "refuses an addition because of what its content left unread" % bad[0], bad[0][1], detail)
            else:
                ctx.ok(rule, fn + "#after-content", detail)
    ctx.floor(rule, n, "C05.R10.calls")


def r11(ctx):
    rule = "C05.R11"
    ctx.rule(rule, "an unknown extension value is an error, never another value: the index UperReader::read_enumerated / read_choice hand "
                   "to `from_choice_index` / use to select the content is the index that was read (plus the root count for extension "
                   "values) - it is not clamped, wrapped or masked into the range this version knows (`index.min(last_known)` delivers "
                   "the newest known variant for every newer one)")
    P = ctx.program()
    n = 0
    for fn in ("read_enumerated", "read_choice"):
        roots = [b for b in P.lib_bodies("asn1rs") if "UperReader" in b.path and b.name == fn and b.def_kind == "AssocFn" and "Reader>::" in b.path]
        if len(roots) != 1:
            ctx.fail(rule, "anchor-lost:" + fn, "matched %d bodies" % len(roots))
            continue
        root = roots[0]
        uses = []
        for body in [root] + P.closures_of(root):
            O = X.Origins(body, P)
            for cs in body.calls():
                if cs.name in ("from_choice_index", "read_content") and (cs.trait or "").split("::")[-1] == "Constraint":
                    args = O.call_args(cs)
                    idx = args[0] if cs.name == "from_choice_index" else (args[0] if len(args) == 1 else args[0])
                    tys = cs.term.get("argtys") or []
                    for i, a in enumerate(args):
                        if i < len(tys) and tys[i] not in ("u64", "usize", "u32", "u16", "u8"):
                            continue        # not the index (the reader itself)
                        a_root = R.in_root_terms(P, body, a) if body is not root else a
                        uses.append((cs, a_root))
        if not uses:
            ctx.fail(rule, fn + "#anchor-lost:index-use", "%s no longer selects a variant by index" % fn, "%s:%d" % (root.file, root.line))
            continue
        for cs, a in uses:
            bad = None
            for e in X.walk(a):
                if e[0] == "call" and X.last_seg(e[1] or "") in ("min", "clamp", "rem_euclid", "wrapping_rem", "checked_rem"):
                    bad = X.last_seg(e[1])
                elif e[0] == "bin" and X.norm_op(e[1]) in ("Rem", "BitAnd"):
                    bad = X.norm_op(e[1])
            n += 1
            d = {"function": root.path, "call": cs.loc(), "index": F.rd(R.positional(a))[:200]}
            if bad:
                ctx.fail(rule, fn + "#index-altered", "the index read from the wire passes through `%s` before the variant is selected: a "
                                                      "value this version does not know is delivered as another value instead of failing"
                         % bad, cs.loc(), d)
            else:
                ctx.ok(rule, fn + "#index", d)
    ctx.floor(rule, n, "C05.R11.uses")


def r12(ctx):
    rule = "C05.R12"
    ctx.rule(rule, "one boundary for `the presence bits are used up`: every comparison of a presence range's start with its end in "
                   "Scope::read_from_field and Scope::write_into_field splits at start < end (a bit is read / written only while the "
                   "position lies inside the transmitted bitmap) - `start <= end` consults the bit behind the bitmap, which belongs to "
                   "the first addition's open type, when the sender knew fewer additions than the reader")
    P = ctx.program()
    n = 0
    for fn in ("rw::uper::Scope::read_from_field", "rw::uper::Scope::write_into_field"):
        try:
            b = P.one("asn1rs", fn)
        except KeyError as e:
            ctx.fail(rule, "anchor-lost:" + fn, str(e))
            continue
        O = X.Origins(b, P)
        for c in F.comparisons(b, O):
            if c.kind != "b" or not c.lhs or not c.rhs:
                continue
            ends = sorted((c.lhs.rsplit(".", 1)[-1], c.rhs.rsplit(".", 1)[-1]))
            if ends != ["end", "start"] or c.lhs.rsplit(".", 1)[0] != c.rhs.rsplit(".", 1)[0]:
                continue
            n += 1
            # normal form `end - start` (lhs is the alphabetically smaller rendering): reading allowed while end - start >= 1
            bnd = c.boundary if c.lhs.endswith(".end") else (-c.boundary + 1)
            d = {"function": b.path, "comparison": c.raw[:120], "at": c.loc, "boundary_on_end_minus_start": bnd}
            key = "%s#%s" % (fn.split("::")[-1], "start-end")
            if bnd != 1:
                ctx.fail(rule, key, "`%s` at %s does not split at start < end (it splits at end - start >= %d): the bit behind the presence "
                                    "bitmap is consulted, or its last bit is not" % (c.raw[-50:], c.loc, bnd), c.loc, d)
            else:
                ctx.ok(rule, key, d)
    ctx.floor(rule, n, "C05.R12.comparisons")


def run(ctx):
    r1_r2(ctx)
    r3(ctx)
    r4(ctx)
    r5(ctx)
    r8(ctx)
    r10(ctx)
    r11(ctx)
    r12(ctx)
    from .c16 import r7 as choice_tag_from_root_alternatives
    choice_tag_from_root_alternatives(ctx, rule="C05.R7")

"""C18 - protobuf bytes agree with the generated .proto: agreement of two independent chains from a RustType to a wire
type and a field number (DESIGN.md 5/C18)."""
import json
import os

from .. import expr as X
from .. import facts as F
from .. import rules as R
from ..core import VERIF
from . import c17


def r1(ctx, table):
    rule = "C18.R1"
    ctx.rule(rule, "T7 wire-type chain: for every RustType leaf, path 1 (descriptor kind -> ProtobufWriter::write_K -> Format written with "
                   "the tag, and whether a field number is consumed) agrees with path 2 (definition_type_to_protobuf_type -> ProtobufType "
                   "-> proto3 wire type; every schema field is numbered)")
    P = ctx.program()
    ws, _ = c17.kind_bodies(ctx, rule)
    tf = c17.tagged_formats(P)
    try:
        conv = P.one("asn1rs_model", "::definition_type_to_protobuf_type")
    except KeyError as e:
        ctx.fail(rule, "anchor-lost:definition_type_to_protobuf_type", str(e))
        return
    O = X.Origins(conv, P)
    path2 = {}
    for a in R.match_tables(P, conv, O):
        if len(a.path) != 1:
            continue
        eff = R.arm_effects(P, conv, a, O)
        vs = [x.split("::")[-1] for x in eff["aggs"] if x.startswith("ProtobufType::")]
        path2[a.path[0][1]] = vs
    n = 0
    for variant, kind in sorted(table["rust_type_kind"].items()):
        wb = ws.get(kind)
        if wb is None:
            ctx.fail(rule, "anchor-lost:write_" + kind, "ProtobufWriter::write_%s not found" % kind)
            continue
        n += 1
        fmts = c17.writer_format(P, wb, tf)
        consumes = any(s["k"] == "assign" and "tag_counter" in [p.get("n") for p in s["pl"]["p"]] for _, _, s in wb.all_statements())
        pts = path2.get(variant)
        detail = {"rust_type": variant, "kind": kind, "runtime_wire_type": sorted(map(str, fmts)), "runtime_consumes_field_number": consumes,
                  "schema_type": pts}
        if not pts or len(pts) != 1:
            ctx.fail(rule, variant + "#schema", "definition_type_to_protobuf_type maps RustType::%s to %s (expected one ProtobufType)" % (variant, pts),
                     "%s:%d" % (conv.file, conv.line), detail)
            continue
        want = table["protobuf_type"].get(pts[0])
        detail["schema_wire_type"] = want
        if not consumes or not fmts:
            ctx.fail(rule, variant, "RustType::%s is a numbered `%s` field in the .proto, but ProtobufWriter::write_%s writes nothing and does "
                                    "not consume a field number: all following fields are written under a number one lower than the schema's" % (
                                        variant, pts[0].lower(), kind), "%s:%d" % (wb.file, wb.line), detail)
        elif fmts != {want}:
            ctx.fail(rule, variant, "RustType::%s: the writer uses wire type %s, the schema type %s has wire type %s" % (
                variant, sorted(map(str, fmts)), pts[0], want), "%s:%d" % (wb.file, wb.line), detail)
        else:
            ctx.ok(rule, variant, detail)
    ctx.floor(rule, n, "C18.R1.leaves")
    return path2


def r2(ctx):
    rule = "C18.R2"
    ctx.rule(rule, "numbering: the .proto generator numbers message fields position + 1, oneof alternatives index + 1 and enum values "
                   "index; the writer uses counter + 1 starting from 0, sets the counter to to_choice_index() before a CHOICE content and "
                   "writes to_choice_index() for ENUMERATED")
    P = ctx.program()
    try:
        ad = P.one("asn1rs_model", "ProtobufDefGenerator::append_definition")
        af = P.one("asn1rs_model", "ProtobufDefGenerator::append_field")
    except KeyError as e:
        ctx.fail(rule, "anchor-lost:generator", str(e))
        return
    O = X.Origins(ad, P)
    got = {}
    for cs in ad.calls():
        if cs.name == "append_field":
            got["field"] = (F.rd(O.call_args(cs)[4]), cs)
        if cs.name == "append_variant":
            got["variant"] = (F.rd(O.call_args(cs)[3]), cs)
    detail = {k: v[0][:140] for k, v in got.items()}
    f = got.get("field")
    if f is None:
        ctx.fail(rule, "anchor-lost:append_field-call", "call of append_field not found")
    elif not (f[0].endswith("Add 1)") and "enumerate" in f[0]):
        ctx.fail(rule, "message-field-number", "message fields are numbered `%s`, not enumerate index + 1" % f[0][:100], f[1].loc(), detail)
    else:
        ctx.ok(rule, "message-field-number", detail)
    v = got.get("variant")
    if v is None:
        ctx.fail(rule, "anchor-lost:append_variant-call", "call of append_variant not found")
    elif "Add" in v[0] or "enumerate" not in v[0]:
        ctx.fail(rule, "enum-value-number", "enum values are numbered `%s`, not the enumerate index (proto3 enums start at 0)" % v[0][:100], v[1].loc(), detail)
    else:
        ctx.ok(rule, "enum-value-number", detail)
    # oneof: index + 1 inside append_field
    ff = R.FnFacts(P, af)
    one = [k for k in ff.allcalls if k.startswith("Argument::new_display(") and "Add 1" in k and "enumerate" in k]
    if not one:
        ctx.fail(rule, "oneof-number", "oneof alternatives are no longer numbered enumerate index + 1", "%s:%d" % (af.file, af.line),
                 {"display_args": [k[:100] for k in ff.allcalls if k.startswith("Argument::new_display(")][:6]})
    else:
        ctx.ok(rule, "oneof-number", {"argument": one[0][:140]})
    # writer: choice / enumerated
    ws, _ = c17.kind_bodies(ctx, rule)
    wc, we = ws.get("choice"), ws.get("enumerated")
    if wc is not None:
        Oc = X.Origins(wc, P)
        vals = []
        for bb, j, s in wc.all_statements():
            if s["k"] == "assign" and [p["n"] for p in s["pl"]["p"] if p["k"] == "field"][-1:] == ["tag_counter"]:
                vals.append(F.rd(R.positional(Oc.rvalue(s["rv"], bb, j, 0))))
        d = {"counter_assignments": vals}
        if not any("to_choice_index" in v for v in vals) or not any(v.endswith("Add 1)") for v in vals):
            ctx.fail(rule, "choice-counter", "write_choice no longer sets the inner counter to to_choice_index() and the outer one to counter + 1: %s" % vals,
                     "%s:%d" % (wc.file, wc.line), d)
        else:
            ctx.ok(rule, "choice-counter", d)
    if we is not None:
        ffe = R.FnFacts(P, we)
        hits = [k for k in ffe.allcalls if "write_tagged_enum_variant(" in k or "write_enum_variant(" in k]
        d = {"calls": [h[:140] for h in hits]}
        if not hits or not all("to_choice_index" in h for h in hits) or any("Add 1)" in h.split("to_choice_index")[1] for h in hits):
            ctx.fail(rule, "enum-value-written", "write_enumerated does not write to_choice_index() as the enum value", "%s:%d" % (we.file, we.line), d)
        else:
            ctx.ok(rule, "enum-value-written", d)


def r3(ctx, table, path2):
    rule = "C18.R3"
    ctx.rule(rule, "signedness / width: definition_type_to_protobuf_type maps each integer RustType (chosen by the cascade of C15.R2) to the "
                   "proto primitive of the same signedness and 32/64-bit class that write_number selects from C::MIN / C::MAX with the "
                   "boundaries 0, 2^32, -2^31, 2^31")
    for variant, (sign, width) in sorted(table["width"].items()):
        pts = (path2 or {}).get(variant)
        want = [k for k, v in table["primitive"].items() if v == [sign, width]]
        detail = {"rust_type": variant, "schema_type": pts, "expected": want}
        if pts != want:
            ctx.fail(rule, variant, "RustType::%s (%s, fits %d bit) is declared as %s in the .proto; the writer encodes it as %s" % (
                variant, sign, width, pts, want), "asn1rs-model/src/protobuf.rs", detail)
        else:
            ctx.ok(rule, variant, detail)


def r4(ctx):
    rule = "C18.R4"
    ctx.rule(rule, "width cascade agreement: ProtobufWriter::write_number chooses the 32-bit encoders exactly for the bound ranges the "
                   "model maps to 32-bit Rust types (and therefore declares as uint32 / sint32 in the .proto): MIN >= 0 && MAX <= "
                   "u32::MAX, MIN >= i32::MIN && MAX <= i32::MAX - every other boundary sends a field the schema calls 64-bit "
                   "through a 32-bit encoder or vice versa")
    P = ctx.program()
    bs = [b for b in P.lib_bodies("asn1rs") if "ProtobufWriter<'_> as descriptor::Writer>::write_number" in b.path and b.def_kind == "AssocFn"]
    if len(bs) != 1:
        ctx.fail(rule, "anchor-lost:write_number", "matched %d bodies" % len(bs))
        return
    b = bs[0]
    ff = R.FnFacts(P, b)
    got_max = sorted(int(k.rsplit("|", 1)[1]) for k in ff.cmps if "C::MAX" in k and "|b|" in k)
    got_min = sorted(int(k.rsplit("|", 1)[1]) for k in ff.cmps if "C::MIN" in k and "|b|" in k)
    # the model's own thresholds (asn_fixed_integer_to_rust_type)
    cs = {k.split("::")[-1]: int(v.get("val")) for k, v in P.consts.items() if k.startswith("asn1rs_model::rust::") and v.get("val") is not None}
    u32max, i32max = cs.get("U32_MAX", 2 ** 32 - 1), cs.get("I32_MAX", 2 ** 31 - 1)
    want_max = sorted([i32max + 1, u32max + 1])
    want_min = sorted([-(i32max + 1), 0])
    detail = {"function": b.path, "boundaries_on_MAX": got_max, "boundaries_on_MIN": got_min, "model_thresholds": {"I32_MAX": i32max, "U32_MAX": u32max}}
    if got_max != want_max or got_min != want_min:
        ctx.fail(rule, "write_number#cascade", "write_number splits at MAX boundaries %s / MIN boundaries %s; the model (and the generated "
                                               ".proto) splits at %s / %s" % (got_max, got_min, want_max, want_min),
                 "%s:%d" % (b.file, b.line), detail)
    else:
        ctx.ok(rule, "write_number#cascade", detail)


def r5(ctx):
    import re as _re
    rule = "C18.R5"
    ctx.rule(rule, "T6 a package is named from one module: every call of ProtobufDefGenerator::model_to_package in the .proto "
                   "generator takes the module name and the object identifier from the same object (the model itself for `package`, "
                   "the import clause for the qualification of an imported type) - a name from one and an OID from the other yields "
                   "a package nobody declares, and the imported message types of the schema do not resolve")
    P = ctx.program()
    n = 0
    for b in P.lib_bodies("asn1rs_model"):
        if "generate/protobuf.rs" not in b.file or "::tests::" in b.path:
            continue
        O = None
        for cs in b.calls():
            if cs.name != "model_to_package":
                continue
            O = O or X.Origins(b, P)
            a = [F.rd(R.positional(x)) for x in O.call_args(cs)]
            if len(a) != 2:
                continue
            n += 1

            def base(t):
                m = _re.findall(r"(.*)\.(\w+)\)*$", t)
                return (m[0][0].split("(", 1)[-1] if False else _re.sub(r"^(?:\w+::\w+\()+", "", m[0][0])) if m else t
            b0, b1 = base(a[0]), base(a[1])
            detail = {"function": b.path, "name_from": a[0][:160], "oid_from": a[1][:160]}
            if b0 != b1:
                ctx.fail(rule, "%s#package-source" % b.name, "%s builds a package from the name of `%s` and the object identifier of `%s`"
                         % (b.name, b0[-60:], b1[-60:]), cs.loc(), detail)
            else:
                ctx.ok(rule, "%s#package-source" % b.name, detail)
    ctx.floor(rule, n, "C18.R5.calls")


def r7(ctx):
    rule = "C18.R7"
    ctx.rule(rule, "the .proto has no defaults: ProtobufWriter::write_default writes the value whatever it is - its write_value call does "
                   "not depend on a comparison with C::DEFAULT_VALUE (proto3 decoders read an absent field as 0 / \"\" / false, not as "
                   "the ASN.1 DEFAULT, and the generated schema does not carry it)")
    P = ctx.program()
    bs = [b for b in P.lib_bodies("asn1rs") if b.file.endswith("rw/proto_write.rs") and b.name == "write_default" and b.def_kind == "AssocFn"]
    if len(bs) != 1:
        ctx.fail(rule, "anchor-lost:write_default", "matched %d bodies" % len(bs))
        return
    b = bs[0]
    n = 0
    for body in [b] + P.closures_of(b):
        O = X.Origins(body, P)
        for cs in body.calls():
            if cs.name != "write_value":
                continue
            n += 1
            bad = None
            for s_bb, ex, val in R.path_conditions(body, O, cs.bb):
                txt = X.render(X.strip(ex))
                if "DEFAULT_VALUE" in txt:
                    bad = txt[:80]
            d = {"function": body.path, "write_value_at": cs.loc()}
            if bad:
                ctx.fail(rule, "write_default#conditional", "the value of a DEFAULT component is written only under `%s`: a value equal to "
                                                            "the default leaves no field on the wire" % bad, cs.loc(), d)
            else:
                ctx.ok(rule, "write_default#unconditional", d)
    ctx.floor(rule, n, "C18.R7.writes")


def run(ctx):
    with open(os.path.join(VERIF, "tables", "proto3_wire.json")) as fh:
        table = json.load(fh)
    path2 = r1(ctx, table)
    r2(ctx)
    r3(ctx, table, path2)
    r4(ctx)
    r5(ctx)
    # a nested message must be written with its field number and length, as the .proto declares it
    from .c17 import r8 as root_flag_consumed
    root_flag_consumed(ctx, rule="C18.R6")
    r7(ctx)

"""C14 - the front end is total: census of panic-capable sites, recursion descends (DESIGN.md 5/C14)."""
import json
import os

from .. import expr as X
from .. import taint as TT
from ..core import VERIF

ENTRY_SUFFIXES = [
    ("asn1rs_model", "parse::tokenizer::Tokenizer::parse"),
    ("asn1rs_model", "Model<asn::Asn<resolve::Unresolved>>>::try_from"),
    ("asn1rs_model", "model::Model<asn::Asn<resolve::Unresolved>>>::try_resolve"),
    ("asn1rs_model", "MultiModuleResolver::try_resolve_all"),
    ("asn1rs_model", "model::Model<asn::Asn>>::to_rust"),
    ("asn1rs_model", "model::Model<asn::Asn>>::to_rust_keep_names"),
    ("asn1rs_model", "model::Model<asn::Asn>>::to_rust_with_scope"),
    ("asn1rs_model", "model::Model<asn::Asn>>::to_rust_keep_names_with_scope"),
    ("asn1rs_model", "as protobuf::ToProtobufModel>::to_protobuf"),
]


def entries(ctx, rule):
    P = ctx.program()
    out = []
    for crate, suf in ENTRY_SUFFIXES:
        bs = [b for b in P.find(crate, suf) if b.def_kind in ("Fn", "AssocFn")]
        if not bs:
            ctx.fail(rule, "anchor-lost:" + suf, "front-end entry point …%s not found" % suf)
        out.extend(bs)
    return out


def is_str_slice(s):
    t = s.body.blocks[s.bb]["term"] if hasattr(s, "bb") else None
    if not t or t.get("k") != "call":
        return False
    fn = t["func"].get("fn") or {}
    full = (fn.get("resolved") or "") + " " + (fn.get("full") or "") + " " + (fn.get("def") or "")
    return "for str>::index" in full or "str::traits::<impl" in full and "Index" in full


def has_call(P, body, name):
    """the root function of `body` (closures included) calls a function / method called `name`"""
    root = P.bodies.get(body.crate + "::" + body.root) if getattr(body, "root", None) else body
    root = root or body
    for b in [root] + P.closures_of(root):
        for cs in b.calls():
            if cs.name == name:
                return True
            for a in cs.term.get("args", []):
                if a.get("k") == "const" and name in (a.get("s") or ""):
                    return True
    return False


def r1(ctx):
    rule = "C14.R1"
    ctx.rule(rule, "T1 census: every panic-capable construct (explicit panic / unwrap / expect / indexing / slicing / arithmetic and "
                   "bounds asserts) reachable from tokenizer, parser, resolver and the Rust / protobuf converters is discharged by a "
                   "dominating test (D1), type-width interval (D2), constant divisor (D3), index test (D5) or a reviewed table entry (D6)")
    P = ctx.program()
    ents = entries(ctx, rule)
    T = TT.Taint(P, ents, everything=True).run()
    with open(os.path.join(VERIF, "tables", "discharged_sites.json")) as fh:
        table = json.load(fh).get("C14", {})
    gc = {}
    stats = {}
    n = 0
    for s in T.sinks():
        if s.body.crate != "asn1rs_model" or "::tests::" in s.body.path:
            continue
        if s.kind.startswith("call.alloc"):
            continue
        n += 1
        d = TT.discharge(T, s, gc)
        detail = {"function": s.body.path, "sink": s.kind, "operands": [X.render(e)[:100] for e in s.ops][:3], "location": s.loc}
        if d is not None and d[0] != "untainted" and is_str_slice(s):
            # slicing a str panics on a bad bound *and* inside a multi-byte character: a dominating bounds test (D1/D5) says
            # nothing about the second obligation, so these sites need a reviewed entry that names the ASCII / boundary fact
            d = None
            detail["note"] = "str slice: bounds test alone does not discharge the char-boundary obligation"
        if d is not None:
            stats[d[0]] = stats.get(d[0], 0) + 1
            detail["discharged_by"] = d[0] + ": " + d[1][:160]
            ctx.ok(rule, s.key, detail)
            continue
        ent = TT.table_entry(table, s, T)
        if ent is not None:
            reason = ent if isinstance(ent, str) else ent["reason"]
            missing = [] if isinstance(ent, str) else [r for r in ent.get("requires", []) if not has_call(P, s.body, r)]
            if not missing:
                stats["D6"] = stats.get("D6", 0) + 1
                detail["discharged_by"] = "D6: " + reason
                if not isinstance(ent, str):
                    detail["required_facts"] = ent.get("requires", [])
                ctx.ok(rule, s.key, detail)
                continue
            detail["reviewed_reason_no_longer_holds"] = {"reason": reason, "missing_facts": missing}
        stats["open"] = stats.get("open", 0) + 1
        ctx.fail(rule, s.key, "%s is reachable from the front-end entry points without a dominating test: malformed input can panic instead "
                              "of producing an error" % s.kind, s.loc, detail, alt_keys=[s.okey])
    ctx.analysed["C14.R1"] = {"entries": len(ents), "reachable_bodies": len(T.reach), "sinks": n, "discharge": stats}
    ctx.floor(rule, len(T.reach), "C14.R1.reachable")
    ctx.floor(rule, n, "C14.R1.sinks")
    return T




# ---------------------------------------------------------------------------------------------- R3
def root_of(P, b):
    if b.def_kind == "Closure" and b.root:
        r = P.bodies.get(b.crate + "::" + b.root)
        return r or b
    return b


def call_graph(P, T):
    edges = {}
    for b in T.reach.values():
        if "::promoted[" in b.path:
            continue
        ra = root_of(P, b)
        for cs in b.calls():
            for t in T.targets(b, cs):
                rb = root_of(P, t)
                if t.def_kind == "Closure" and rb.key == ra.key:
                    continue      # a function invoking one of its own closures does not re-enter itself: the closure's calls are
                    #               already attributed to the function
                edges.setdefault(ra.key, []).append((b, cs, rb))
    return edges


def sccs(nodes, succ):
    import sys
    sys.setrecursionlimit(100000)
    index, low, on, st, out = {}, {}, set(), [], []
    c = [0]

    def visit(v):
        index[v] = low[v] = c[0]
        c[0] += 1
        st.append(v)
        on.add(v)
        for w in succ.get(v, ()):
            if w not in index:
                visit(w)
                low[v] = min(low[v], low[w])
            elif w in on:
                low[v] = min(low[v], index[w])
        if low[v] == index[v]:
            comp = set()
            while True:
                w = st.pop()
                on.discard(w)
                comp.add(w)
                if w == v:
                    break
            if len(comp) > 1 or v in succ.get(v, ()):
                out.append(comp)

    for v in sorted(nodes):
        if v not in index:
            visit(v)
    return out


def classify_edge(P, body, cs, target):
    """why does this recursive call make progress? returns (kind, text) or None"""
    O = X.Origins(body, P)
    args = O.call_args(cs)
    tys = cs.term.get("argtys", [])
    for a, ty in zip(args, tys):
        if "Peekable<" in ty and ty.startswith("&mut"):
            return ("consumes-input", "shares the token iterator `%s`" % ty[:60])
    for a in args:
        # depth argument: p + 1
        e = a
        while e[0] in ("cast", "ref", "deref"):
            e = e[2] if e[0] == "cast" else e[1]
        base = e[2] if e[0] == "bin" else None
        while base is not None and base[0] in ("deref", "ref", "cast", "mut"):
            base = base[2] if base[0] == "cast" else base[1]
        if e[0] == "bin" and X.norm_op(e[1]) == "Add" and X.render(e[3]) == "1" and base[0] in ("param", "upvar"):
            nm = base[2]
            root = root_of(P, body)
            from .. import facts as F
            for b2 in [root] + P.closures_of(root):
                O2 = X.Origins(b2, P)
                for c in F.comparisons(b2, O2):
                    if nm in (c.lhs + " " + c.rhs).replace("^", ""):
                        return ("depth-bounded", "passes %s + 1, compared in `%s`" % (nm, c.raw))
    for a, ty in zip(args, tys):
        bt = ty.replace("&", "").replace("mut ", "").strip()
        if bt in ("str", "std::string::String", "usize", "u64", "i64", "bool") or bt.startswith("std::option::Option<asn::tag::Tag"):
            continue        # names / scalars are lookup keys, not components of a tree
        if structural(P, body, a, 0):
            return ("descends", "argument `%s` is a component of a parameter reached through projections / full iteration only" % X.render(a)[:70])
    return None


GETTERS = ("next", "r#type", "type", "variants", "fields", "inner", "range", "r#default", "default")


def arm_variants(P, body, cs, O):
    """variants of a `match <param>` under which the call happens, when that very parameter is passed on unchanged"""
    from .. import rules as R
    from .. import facts as F
    args = [F.rd(R.positional(a)) for a in O.call_args(cs)]
    out = None
    by_switch = {}
    for a in R.match_tables(P, body, O):
        if len(a.path) == 1:
            by_switch.setdefault((a.switch_bb, a.path[0][0]), []).append(a)
    for (sw, scrut), arms in by_switch.items():
        if scrut not in args:
            continue
        hit = {a.path[0][1] for a in arms if cs.bb in body.reach_from(a.target, avoid={sw})}
        if hit and len(hit) < len(arms):
            out = hit if out is None else (out & hit)
    return out


PROJ_CALLS = ("as_ref", "as_mut", "as_deref", "as_deref_mut", "iter", "iter_mut", "into_iter", "deref", "deref_mut", "borrow",
              "variants", "fields", "r#type", "type", "map", "enumerate", "rev", "skip", "take", "chain", "zip", "cloned", "copied",
              "by_ref", "peekable", "next", "as_slice", "as_str", "clone", "to_owned", "from", "into", "unwrap_or", "branch",
              "from_residual", "index", "inner", "as_inner", "range", "min", "max", "r#default", "default", "name", "tag")


def structural(P, body, ex, depth):
    """is `ex` a component of one of the function's parameters, reached only through projections and full iteration
    (never through a search such as find / position / a lookup helper)?"""
    if depth > 4:
        return False
    calls_ok = all(X.last_seg(e[1]) in PROJ_CALLS for e in X.walk(ex) if e[0] == "call")
    if not calls_ok:
        return False
    leaves_ = [e for e in X.walk(ex) if e[0] in ("param", "upvar", "env")]
    if not leaves_:
        return False
    has_proj = any(e[0] in ("field", "index", "downcast", "try") or (e[0] == "call" and X.last_seg(e[1]) in GETTERS) for e in X.walk(ex))
    if body.def_kind != "Closure":
        return has_proj
    # inside a closure: parameters are handed in by the combinator the closure is passed to
    ok = True
    for e in leaves_:
        if e[0] == "param" and e[1] >= 2:
            parent = P.bodies.get(body.crate + "::" + (body.parent or ""))
            if parent is None:
                return False
            Op = X.Origins(parent, P)
            recv = None
            cl_local = None
            for bb, j, st in parent.all_statements():
                if st["k"] == "assign" and st["rv"]["k"] == "agg" and st["rv"].get("ak") == "closure" and st["rv"]["def"] == body.path:
                    cl_local = st["pl"]["l"]
            for cs in parent.calls():
                for a in cs.args[1:]:
                    if a.get("k") in ("copy", "move") and (a["pl"]["l"] == cl_local or cl_local in {
                            d[3]["pl"]["l"] for d in parent.defs.get(a["pl"]["l"], ()) if d[2] == "assign" and d[3]["k"] in ("ref",)}):
                        if X.last_seg(cs.callee or "") not in PROJ_CALLS + ("and_then", "for_each", "filter_map", "flat_map", "try_for_each", "fold", "any", "all", "map_or", "map_or_else", "or_else", "unwrap_or_else"):
                            return False
                        recv = Op.call_args(cs)[0]
            if recv is None or not structural_recv(P, parent, recv, depth + 1):
                ok = False
        elif e[0] in ("upvar", "env"):
            # captured from the enclosing function: fine when combined with a projection here
            if not has_proj:
                ok = False
    return ok


def structural_recv(P, body, ex, depth):
    calls_ok = all(X.last_seg(e[1]) in PROJ_CALLS for e in X.walk(ex) if e[0] == "call")
    if not calls_ok:
        return False
    leaves_ = [e for e in X.walk(ex) if e[0] in ("param", "upvar", "env")]
    if not leaves_:
        return False
    if body.def_kind == "Closure":
        return structural(P, body, ex, depth) or all(e[0] in ("upvar", "env") for e in leaves_)
    return True


def r3(ctx, T):
    rule = "C14.R3"
    ctx.rule(rule, "T8-e recursion descends: every call edge inside a recursive SCC of the front-end call graph passes a component of one of "
                   "its own parameters (structural descent over the finite model tree), shares the token iterator (input consumption) or "
                   "carries a depth argument that is compared with a bound")
    P = ctx.program()
    edges = call_graph(P, T)
    succ = {k: {rb.key for _, _, rb in v} for k, v in edges.items()}
    nodes = set(succ) | {x for v in succ.values() for x in v}
    comps = sccs(nodes, succ)
    n = 0
    for comp in comps:
        names = sorted(X.short(k.split("::", 1)[1]) for k in comp)
        stuck = {}      # from -> [(to, body, cs)] edges without visible progress
        for k in sorted(comp):
            for body, cs, rb in edges.get(k, ()):
                if rb.key not in comp:
                    continue
                n += 1
                why = classify_edge(P, body, cs, rb)
                key = "%s->%s" % (X.short(root_of(P, body).path), X.short(rb.path))
                detail = {"scc": names[:8], "call": cs.loc(), "from": body.path, "to": rb.path}
                if why is None:
                    detail["match_arms"] = sorted(arm_variants(P, body, cs, X.Origins(body, P)) or [])
                    stuck.setdefault(k, []).append((rb.key, body, cs, key, detail))
                    ctx.ok(rule, key + "#no-progress-on-this-edge@" + cs.loc(), detail, nontrivial=False)
                else:
                    detail["progress"] = "%s: %s" % why
                    ctx.ok(rule, key + "#" + why[0], detail)
        # a cycle made only of edges without progress can repeat forever
        color = {}
        cyc = []

        def dfs(v, path):
            color[v] = 1
            for (w, body, cs, key, detail) in stuck.get(v, ()):
                if color.get(w) == 1:
                    cyc.append((path + [(key, cs, detail)]))
                elif w not in color:
                    dfs(w, path + [(key, cs, detail)])
            color[v] = 2

        for v in sorted(stuck):
            if v not in color:
                dfs(v, [])
        sccname = "+".join(names[:3])
        # a cycle whose edges pass the matched value on unchanged, but under disjoint sets of variants, cannot be taken twice
        def feasible(path):
            sets = [set(d.get("match_arms") or []) for _, _, d in path]
            if any(not x for x in sets):
                return True
            return bool(set.intersection(*sets))
        infeasible = [c for c in cyc if not feasible(c)]
        cyc = [c for c in cyc if feasible(c)]
        if cyc:
            key, cs, detail = cyc[0][-1]
            ctx.fail(rule, "cycle:" + "|".join(k for k, _, _ in cyc[0]),
                     "the recursive calls %s form a cycle on which nothing descends into a component of the input, consumes tokens or "
                     "carries a bounded depth: a cyclic input makes the front end recurse without bound" % [k for k, _, _ in cyc[0]],
                     cs.loc(), detail)
        else:
            ctx.ok(rule, "scc:" + sccname, {"functions": names[:10], "edges_without_progress": sum(len(v) for v in stuck.values()),
                                            "cycles_excluded_by_disjoint_match_arms": [[(k, d.get("match_arms")) for k, _, d in c] for c in infeasible][:3]})
    ctx.ok(rule, "census", {"recursive_sccs": len(comps), "edges": n}, nontrivial=False)
    ctx.floor(rule, len(comps), "C14.R3.sccs")
    ctx.floor(rule, n, "C14.R3.edges")


# ---------------------------------------------------------------------------------------------- R2
def r2(ctx):
    rule = "C14.R2"
    ctx.rule(rule, "error plumbing: the `*_or_err` helpers of PeekableTokens turn an absent token into Err (ok_or / `?`), never unwrap it, and "
                   "every parse ErrorKind variant is constructed on some path")
    P = ctx.program()
    helpers = [b for b in P.lib_bodies("asn1rs_model") if (b.impl_trait or "").endswith("PeekableTokens") and b.def_kind == "AssocFn"
               and "::promoted[" not in b.path]
    ctx.floor(rule, len(helpers), "C14.R2.helpers")
    for b in helpers:
        bad = [cs for body in [b] + P.closures_of(b) for cs in body.calls()
               if cs.fn and cs.fn["def"].split("::")[-1] in ("unwrap", "expect") and "Option" in cs.fn["def"]]
        if bad:
            ctx.fail(rule, b.name + "#unwrap", "PeekableTokens::%s unwraps an Option: a truncated input panics instead of returning "
                                               "UnexpectedEndOfStream" % b.name, bad[0].loc(), {"function": b.path})
        else:
            ctx.ok(rule, b.name, {"function": b.path, "calls": sorted({X.short(c.callee) for c in b.calls() if c.fn})[:6]}, nontrivial=b.name.endswith("_or_err"))
    built = {}
    for b in P.lib_bodies("asn1rs_model"):
        if "::tests::" in b.path or "::promoted[" in b.path:
            continue
        for bb, j, s in b.all_statements():
            if s["k"] == "assign" and s["rv"]["k"] == "agg" and s["rv"].get("adt", "").endswith("parse::error::ErrorKind"):
                built.setdefault(s["rv"]["variant"], []).append(X.short(b.path))
    adt = P.adts.get("asn1rs_model::parse::error::ErrorKind")
    if not ctx.anchor(rule, "enum parse::error::ErrorKind", adt):
        return
    for v in adt["variants"]:
        if v["name"] in built:
            ctx.ok(rule, "ErrorKind::" + v["name"], {"constructed_in": sorted(set(built[v["name"]]))[:4]}, nontrivial=False)
    ctx.floor(rule, len(built), "C14.R2.error_kinds")


def run(ctx):
    T = r1(ctx)
    r2(ctx)
    r3(ctx, T)

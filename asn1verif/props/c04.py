"""C04 - decoders never panic, hang or over-read (DESIGN.md section 5, C04)."""
import json
import os

from .. import expr as X
from .. import facts as F
from .. import taint as TT
from ..core import VERIF

ENTRY_TRAITS = ("Reader", "PackedRead", "BitRead", "ScopedBitRead", "ProtoRead", "BasicRead", "ReadableType",
                "Readable", "UperDecodable")
SOURCE_TRAITS = ("BitRead", "PackedRead", "ProtoRead", "BasicRead", "Read", "ReadBytesExt", "BufRead",
                 "Reader", "ReadableType", "Readable")
TAINTED_FIELDS = [("protocol::per::unaligned::buffer::Bits", "slice"),
                  ("protocol::per::unaligned::buffer::BitBuffer", "buffer"),
                  ("rw::proto_read::ProtobufReader", "source")]
# cursors are not sources (DESIGN.md T1): they are clamped to the buffer length by set_pos/set_len and
# covered by the visible-length rule C04.R2 and the cursor census C11.R5 instead
CURSOR_FIELDS = [("protocol::per::unaligned::buffer::Bits", "pos"), ("protocol::per::unaligned::buffer::Bits", "len"),
                 ("protocol::per::unaligned::buffer::BitBuffer", "read_position"),
                 ("protocol::per::unaligned::buffer::BitBuffer", "write_position")]


def is_todo_body(b):
    """a body that consists of a single diverging `todo!()` / `unimplemented!()`"""
    cs = b.calls()
    if not cs or len(b.reachable) > 3:
        return False
    for c in cs:
        if c.fn and c.fn["def"].startswith("core::panicking::panic") and c.args and c.args[0].get("s", "").startswith('"not '):
            return True
    return False


def entry_bodies(P):
    out = []
    for b in P.lib_bodies("asn1rs"):
        if "::promoted[" in b.path or b.def_kind == "Closure":
            continue
        if b.file.endswith("println.rs"):
            continue
        tr = (b.impl_trait or "").split("::")[-1]
        if tr in ENTRY_TRAITS and not b.derived:
            if tr in ("Reader",) and "PrintlnWriter" in (b.impl_self_ty or ""):
                continue
            out.append(b)
        elif b.path.endswith("Scope::read_from_field"):
            out.append(b)
        elif (b.impl_self_ty or "").split("<")[0].split("::")[-1] in ("UperReader", "ProtobufReader", "BasicReader") \
                and not b.impl_trait:
            out.append(b)
    return [b for b in out if not is_todo_body(b)]


def load_discharged():
    with open(os.path.join(VERIF, "tables", "discharged_sites.json")) as fh:
        return json.load(fh)


def r1(ctx, config="A"):
    rule = "C04.R1"
    ctx.rule(rule, "T1 wire-taint -> sink: every panic-capable operation / value-sized allocation reachable from the decoder "
                   "entry set whose operand derives from wire data is discharged by a dominating comparison (D1), type-width "
                   "interval (D2), non-zero constant divisor (D3), index test (D5) or a reviewed table entry (D6)")
    P = ctx.program(config)
    entries = entry_bodies(P)
    ctx.anchor(rule, "decoder entry set (impls of Reader/PackedRead/BitRead/ProtoRead/BasicRead)", entries)
    T = TT.Taint(P, entries, source_traits=SOURCE_TRAITS, tainted_fields=TAINTED_FIELDS,
                 untaintable_fields=CURSOR_FIELDS).run()
    reach = [b for b in T.reach.values() if not is_todo_body(b)]
    sinks = [s for s in T.sinks() if not is_todo_body(s.body)]
    table = load_discharged().get("C04", {})
    gc = {}
    stats = {"untainted": 0, "D1": 0, "D2": 0, "D3": 0, "D5": 0, "D6": 0, "open": 0}
    used = set()
    for s in sinks:
        if s.body.crate != "asn1rs":
            continue
        d = TT.discharge(T, s, gc)
        detail = {"function": s.body.path, "sink": s.kind, "operands": [X.render(e)[:160] for e in s.ops],
                  "tainted": s.tainted, "location": s.loc}
        if d is not None:
            stats[d[0]] = stats.get(d[0], 0) + 1
            if d[0] != "untainted":
                detail["discharged_by"] = d[0] + ": " + d[1][:200]
                ctx.ok(rule, s.key, detail)
            continue
        ent = TT.table_entry(table, s, T)
        if ent is not None:
            stats["D6"] += 1
            used.add(s.key)
            detail["discharged_by"] = "D6: " + ent
            ctx.ok(rule, s.key, detail)
            continue
        stats["open"] += 1
        ctx.fail(rule, s.key, "wire-derived value reaches %s without a dominating test (%s)" % (
            s.kind, "; ".join(X.render(e)[:100] for e, t in zip(s.tops, s.tainted) if t) or "control"),
            s.loc, detail, alt_keys=[s.okey])
    ctx.analysed["C04.R1" + ("" if config == "A" else "@" + config)] = {"entry_bodies": len(entries), "reachable_bodies": len(reach), "sinks": len(sinks),
                              "taint_iterations": T.iterations, "tainted_fields": sorted("%s.%s" % k for k in T.field_taint)[:60],
                              "discharge": stats}
    if config == "A":
        ctx.floor(rule, len(reach), "C04.R1.reachable")
        ctx.floor(rule, len(sinks), "C04.R1.sinks")
    return T




# ---------------------------------------------------------------------------------------------- R2
VISIBLE_END = {"Bits": "len", "BitBuffer": "write_position"}
BITREAD_METHODS = ("read_bit", "read_bits", "read_bits_with_offset", "read_bits_with_len", "read_bits_with_offset_len")


def mentions_field(ex, field):
    for e in X.walk(ex):
        if e[0] == "field" and e[2] == field:
            return True
    return False


def r2(ctx):
    from .. import facts as F
    rule = "C04.R2"
    ctx.rule(rule, "T8-c visible length: each BitRead method of the length-scoped readers Bits and BitBuffer tests the visible "
                   "end (len / write_position) - directly or in a fallible helper whose error is propagated - on every path "
                   "before it delegates to the raw slice implementation")
    P = ctx.program()
    n = 0
    for ty, field in VISIBLE_END.items():
        for m in BITREAD_METHODS:
            cands = [b for b in P.lib_bodies("asn1rs") if b.name == m and (b.impl_trait or "").endswith("BitRead")
                     and (b.impl_self_ty or "").split("<")[0].split("::")[-1] == ty and b.def_kind == "AssocFn"
                     and "::promoted[" not in b.path]
            if len(cands) != 1:
                ctx.fail(rule, "anchor-lost:%s::%s" % (ty, m), "impl BitRead for %s has no method %s" % (ty, m))
                continue
            b = cands[0]
            n += 1
            O = X.Origins(b, P)
            raw_calls = [cs for cs in b.calls() if cs.fn and (cs.trait or "").endswith("BitRead")
                         and "(&[u8], &mut usize)" in (cs.fn.get("resolved") or cs.fn.get("self_ty") or "")]
            if not raw_calls:
                # no delegation: the method must then not touch the slice at all (nothing to guard)
                ctx.ok(rule, "%s::%s" % (ty, m), {"function": b.path, "delegates": []})
                continue
            guards = []
            for c in F.comparisons(b, O):
                if (c.lex is not None and mentions_field(c.lex, field)) or (c.rex is not None and mentions_field(c.rex, field)):
                    if c.switch_bb is not None:
                        guards.append(("cmp", c.switch_bb, c.raw))
            for cs in b.calls():
                t = P.resolve_callee(b.crate, cs)
                if t is None or cs.target is None:
                    continue
                Ot = X.Origins(t, P)
                val = [c for c in F.comparisons(t, Ot) if c.validating and (
                    (c.lex is not None and mentions_field(c.lex, field)) or (c.rex is not None and mentions_field(c.rex, field)))]
                if not val:
                    continue
                # error must be propagated: the result feeds Try::branch
                propagated = any(c2.name == "branch" and c2.args and c2.args[0]["k"] in ("copy", "move")
                                 and c2.args[0]["pl"]["l"] == cs.dest["l"] for c2 in b.calls())
                if propagated:
                    guards.append(("callee", cs.target, "%s: %s" % (X.short(t.path), val[0].raw)))
            bad = []
            for rc in raw_calls:
                if not any(g[1] != rc.bb and b.dominates(g[1], rc.bb) for g in guards):
                    bad.append(rc)
            detail = {"function": b.path, "visible_end_field": field, "guards": [g[2] for g in guards],
                      "delegations": [X.short(rc.callee) + " at " + rc.loc() for rc in raw_calls]}
            if bad:
                ctx.fail(rule, "%s::%s" % (ty, m),
                         "%s::%s hands the read to the raw slice implementation without testing `%s` first: bits beyond "
                         "the declared length can be consumed and reported as success" % (ty, m, field), bad[0].loc(), detail)
            else:
                ctx.ok(rule, "%s::%s" % (ty, m), detail)
    ctx.floor(rule, n, "C04.R2.methods")


# ---------------------------------------------------------------------------------------------- R3
def r3(ctx):
    rule = "C04.R3"
    ctx.rule(rule, "no-op narrowing: UperReader::read_whole_sub_slice must narrow the visible length with ScopedBitRead::set_len "
                   "(argument derived from the sub-slice length) before it calls the content closure, and the new end is clamped by "
                   "the end that was visible before (narrowing never widens)")
    P = ctx.program()
    try:
        b = P.one("asn1rs", "UperReader::<B>::read_whole_sub_slice")
    except KeyError as e:
        ctx.fail(rule, "anchor-lost:read_whole_sub_slice", str(e))
        return
    O = X.Origins(b, P)
    fcalls = [cs for cs in b.calls() if cs.fn and (cs.trait or "").split("::")[-1] in ("FnOnce", "FnMut", "Fn")]
    setlens = [cs for cs in b.calls() if cs.name == "set_len" and (cs.trait or "").endswith("ScopedBitRead")]
    ctx.anchor(rule, "closure call in read_whole_sub_slice", fcalls)
    ok = False
    widen = None
    detail = {"function": b.path, "closure_calls": [c.loc() for c in fcalls], "set_len_calls": []}
    for sl in setlens:
        args = O.call_args(sl)
        dep = any(e[0] == "param" and e[2] == "length_bytes" for a in args for e in X.walk(a))
        detail["set_len_calls"].append({"at": sl.loc(), "argument": X.render(args[1])[:120] if len(args) > 1 else "", "uses_length": dep})
        if dep and fcalls and all(sl.target is not None and b.dominates(sl.target, fc.bb) for fc in fcalls):
            ok = True
            # narrowing must never widen: the new end is clamped by the end that was visible before (min with len()), or a
            # comparison with len() that can only reach an error return dominates the call
            a1 = args[1] if len(args) > 1 else ("unknown", "")
            clamped = any(e[0] == "call" and X.last_seg(e[1]) == "min" and any(
                x[0] == "call" and X.last_seg(x[1]) == "len" for y in e[3] for x in X.walk(y)) for e in X.walk(a1))
            if not clamped:
                for c in F.comparisons(b, O):
                    if c.validating and c.switch_bb is not None and b.dominates(c.switch_bb, sl.bb) and "len(" in (c.lhs + c.rhs) \
                            and "length_bytes" in (c.lhs + c.rhs):
                        clamped = True
            detail["set_len_calls"][-1]["clamped_by_previous_length"] = clamped
            if not clamped:
                widen = sl
    if ok and widen is not None:
        ctx.fail(rule, "read_whole_sub_slice#set_len-can-widen",
                 "the visible length is set to position + 8 * length without clamping it by the length that was visible before: an "
                 "open-type length larger than the rest of the declared input makes bits beyond the declared length readable",
                 widen.loc(), detail)
    elif ok:
        ctx.ok(rule, "read_whole_sub_slice", detail)
    else:
        loc = fcalls[0].loc() if fcalls else "%s:%d" % (b.file, b.line)
        ctx.fail(rule, "read_whole_sub_slice#set_len-before-content",
                 "the visible length is never narrowed to the open type before its content is decoded "
                 "(`mem::replace(&mut self.bits.len(), ..)` acts on a temporary): a decoder can read past the open type", loc, detail)


# ---------------------------------------------------------------------------------------------- R4
def r4(ctx):
    rule = "C04.R4"
    ctx.rule(rule, "accessor receivers: the remaining-bit accessors borrow the reader (&self) and the read methods take &mut self, "
                   "so a failed read never consumes the reader")
    P = ctx.program()
    n = 0
    for tpath, t in P.traits.items():
        ts = tpath.split("::")[-1]
        if ts == "ScopedBitRead" and tpath.startswith("asn1rs::"):
            for it in t["items"]:
                if it["name"] in ("pos", "len", "remaining", "is_empty"):
                    n += 1
                    recv = it.get("inputs", ["?"])[0]
                    if recv.startswith("&") and not recv.startswith("&mut"):
                        ctx.ok(rule, "ScopedBitRead::" + it["name"], {"receiver": recv})
                    else:
                        ctx.fail(rule, "ScopedBitRead::" + it["name"], "accessor takes `%s` instead of `&self`" % recv, tpath)
        if ts == "Reader" and tpath.startswith("asn1rs::"):
            for it in t["items"]:
                if it["name"].startswith("read") and it.get("inputs"):
                    n += 1
                    recv = it["inputs"][0]
                    if recv.startswith("&mut"):
                        ctx.ok(rule, "Reader::" + it["name"], {"receiver": recv}, nontrivial=False)
                    else:
                        ctx.fail(rule, "Reader::" + it["name"], "read method takes `%s` instead of `&mut self`" % recv, tpath)
    try:
        b = P.one("asn1rs", "UperReader::<B>::bits_remaining")
        recv = b.raw.get("inputs", ["?"])[0]
        n += 1
        if recv.startswith("&") and not recv.startswith("&mut"):
            ctx.ok(rule, "UperReader::bits_remaining", {"receiver": recv, "function": b.path})
        else:
            ctx.fail(rule, "UperReader::bits_remaining", "accessor takes `%s` instead of `&self`" % recv, "%s:%d" % (b.file, b.line))
    except KeyError as e:
        ctx.fail(rule, "anchor-lost:UperReader::bits_remaining", str(e))
    ctx.floor(rule, n, "C04.R4.signatures")


# ---------------------------------------------------------------------------------------------- R5
def dropped_results(body):
    """calls returning Result whose destination is never read"""
    used = set()

    def note(op):
        if isinstance(op, dict) and op.get("k") in ("copy", "move"):
            used.add(op["pl"]["l"])
            for p in op["pl"]["p"]:
                if p["k"] == "index":
                    used.add(p["l"])

    for bb, j, s in body.all_statements():
        if s["k"] == "assign":
            rv = s["rv"]
            for k in ("op", "l", "r", "a"):
                note(rv.get(k))
            if "pl" in rv:
                used.add(rv["pl"]["l"])
            for o in rv.get("ops", []):
                note(o)
    for i in body.reachable:
        t = body.blocks[i]["term"]
        if not t:
            continue
        if t["k"] == "call":
            for a in t["args"]:
                note(a)
            note(t["func"])
        elif t["k"] == "switch":
            note(t["op"])
        elif t["k"] == "assert":
            note(t["cond"])
    out = []
    for cs in body.calls():
        dty = cs.term.get("dty", "")
        if dty.startswith("std::result::Result<") and not cs.dest["p"] and cs.dest["l"] != 0:
            if cs.dest["l"] not in used:
                out.append(cs)
    return out


def r5(ctx, T):
    rule = "C04.R5"
    ctx.rule(rule, "dropped decode error census: no Result returned by a call in the decoder call graph is discarded "
                   "(`let _ = call();` without `?`) except the reviewed sites of tables/discharged_sites.json")
    table = load_discharged().get("C04.R5", {})
    n = 0
    for b in T.reach.values():
        if b.crate != "asn1rs" or "::promoted[" in b.path or is_todo_body(b):
            continue
        n += 1
        seen = {}
        for cs in dropped_results(b):
            base = "%s#result-dropped:%s" % (b.path, X.short(cs.callee))
            k = seen[base] = seen.get(base, -1) + 1
            key = "%s#%d" % (base, k)
            detail = {"function": b.path, "call": X.short(cs.callee), "location": cs.loc()}
            if key in table:
                detail["reviewed"] = table[key]
                ctx.ok(rule, key, detail)
            else:
                ctx.fail(rule, key, "the Result of %s is discarded: a decoding error at this point is lost" % X.short(cs.callee),
                         cs.loc(), detail)
    ctx.ok(rule, "census", {"bodies_scanned": n}, nontrivial=False)


# ---------------------------------------------------------------------------------------------- R6
def r6(ctx, rule="C04.R6"):
    from .. import facts as F
    ctx.rule(rule, "documented-panic precondition: every call of BitVec::from_vec_with_trailing_bit_len in the decoders is "
                   "dominated by a comparison of the vector's length with 8")
    P = ctx.program()
    n = 0
    for b in P.lib_bodies("asn1rs"):
        if "::promoted[" in b.path or b.path.endswith("from_vec_with_trailing_bit_len"):
            continue
        for cs in b.calls():
            if cs.fn and cs.fn["def"].endswith("BitVec::from_vec_with_trailing_bit_len"):
                if b.file.endswith("bitstring.rs") and "tests" in b.path:
                    continue
                n += 1
                O = X.Origins(b, P)
                good = None
                for c in F.comparisons(b, O):
                    if c.switch_bb is None or not b.dominates(c.switch_bb, cs.bb) or c.switch_bb == cs.bb:
                        continue
                    if "len(" in c.lhs and c.rhs == "" and c.kind == "b" and c.boundary == 8:
                        good = c
                detail = {"function": b.path, "call": cs.loc(), "guard": good.raw if good else None}
                key = "%s#from_vec_with_trailing_bit_len" % b.path
                if good:
                    ctx.ok(rule, key, detail)
                else:
                    ctx.fail(rule, key, "BitVec::from_vec_with_trailing_bit_len (panics below 8 octets) is called on wire data "
                                        "without a dominating `len() < 8` test", cs.loc(), detail)
    ctx.floor(rule, n, rule + ".callers")


def run(ctx):
    # (thorough tier: ./check evaluates every rule a second time over the build with descriptive-deserialize-errors - code that
    # exists only there must not add a panic path either)
    T = r1(ctx)
    r2(ctx)
    r3(ctx)
    r4(ctx)
    r5(ctx, T)
    r6(ctx)
    # no over-read: the visible end is tested for exactly the bits that are consumed
    from .c11 import r8 as read_guard_exact
    read_guard_exact(ctx, rule="C04.R7")

"""C04 - decoders never panic, hang or over-read (DESIGN.md section 5, C04)."""
import json
import os

from .. import expr as X
from .. import taint as TT
from ..core import VERIF

ENTRY_TRAITS = ("Reader", "PackedRead", "BitRead", "ScopedBitRead", "ProtoRead", "BasicRead", "ReadableType",
                "Readable", "UperDecodable")
SOURCE_TRAITS = ("BitRead", "PackedRead", "ProtoRead", "BasicRead", "Read", "ReadBytesExt", "BufRead",
                 "Reader", "ReadableType", "Readable")
TAINTED_FIELDS = [("protocol::per::unaligned::buffer::Bits", "slice"),
                  ("protocol::per::unaligned::buffer::BitBuffer", "buffer"),
                  ("rw::proto_read::ProtobufReader", "source")]
# cursors are not sources (DESIGN.md T1): they are clamped to the buffer length by set_pos/set_len and
# covered by the visible-length rule C04.R2 and the cursor census C11.R5 instead
CURSOR_FIELDS = [("protocol::per::unaligned::buffer::Bits", "pos"), ("protocol::per::unaligned::buffer::Bits", "len"),
                 ("protocol::per::unaligned::buffer::BitBuffer", "read_position"),
                 ("protocol::per::unaligned::buffer::BitBuffer", "write_position")]


def is_todo_body(b):
    """a body that consists of a single diverging `todo!()` / `unimplemented!()`"""
    cs = b.calls()
    if not cs or len(b.reachable) > 3:
        return False
    for c in cs:
        if c.fn and c.fn["def"].startswith("core::panicking::panic") and c.args and c.args[0].get("s", "").startswith('"not '):
            return True
    return False


def entry_bodies(P):
    out = []
    for b in P.lib_bodies("asn1rs"):
        if "::promoted[" in b.path or b.def_kind == "Closure":
            continue
        if b.file.endswith("println.rs"):
            continue
        tr = (b.impl_trait or "").split("::")[-1]
        if tr in ENTRY_TRAITS and not b.derived:
            if tr in ("Reader",) and "PrintlnWriter" in (b.impl_self_ty or ""):
                continue
            out.append(b)
        elif b.path.endswith("Scope::read_from_field"):
            out.append(b)
        elif (b.impl_self_ty or "").split("<")[0].split("::")[-1] in ("UperReader", "ProtobufReader", "BasicReader") \
                and not b.impl_trait:
            out.append(b)
    return [b for b in out if not is_todo_body(b)]


def load_discharged():
    with open(os.path.join(VERIF, "tables", "discharged_sites.json")) as fh:
        return json.load(fh)


def r1(ctx):
    rule = "C04.R1"
    ctx.rule(rule, "T1 wire-taint -> sink: every panic-capable operation / value-sized allocation reachable from the decoder "
                   "entry set whose operand derives from wire data is discharged by a dominating comparison (D1), type-width "
                   "interval (D2), non-zero constant divisor (D3), index test (D5) or a reviewed table entry (D6)")
    P = ctx.program()
    entries = entry_bodies(P)
    ctx.anchor(rule, "decoder entry set (impls of Reader/PackedRead/BitRead/ProtoRead/BasicRead)", entries)
    T = TT.Taint(P, entries, source_traits=SOURCE_TRAITS, tainted_fields=TAINTED_FIELDS,
                 untaintable_fields=CURSOR_FIELDS).run()
    reach = [b for b in T.reach.values() if not is_todo_body(b)]
    sinks = [s for s in T.sinks() if not is_todo_body(s.body)]
    table = load_discharged().get("C04", {})
    gc = {}
    stats = {"untainted": 0, "D1": 0, "D2": 0, "D3": 0, "D5": 0, "D6": 0, "open": 0}
    used = set()
    for s in sinks:
        if s.body.crate != "asn1rs":
            continue
        d = TT.discharge(T, s, gc)
        detail = {"function": s.body.path, "sink": s.kind, "operands": [X.render(e)[:160] for e in s.ops],
                  "tainted": s.tainted, "location": s.loc}
        if d is not None:
            stats[d[0]] = stats.get(d[0], 0) + 1
            if d[0] != "untainted":
                detail["discharged_by"] = d[0] + ": " + d[1][:200]
                ctx.ok(rule, s.key, detail)
            continue
        if s.key in table:
            stats["D6"] += 1
            used.add(s.key)
            detail["discharged_by"] = "D6: " + table[s.key]
            ctx.ok(rule, s.key, detail)
            continue
        stats["open"] += 1
        ctx.fail(rule, s.key, "wire-derived value reaches %s without a dominating test (%s)" % (
            s.kind, "; ".join(X.render(e)[:100] for e, t in zip(s.tops, s.tainted) if t) or "control"),
            s.loc, detail)
    ctx.analysed["C04.R1"] = {"entry_bodies": len(entries), "reachable_bodies": len(reach), "sinks": len(sinks),
                              "taint_iterations": T.iterations, "tainted_fields": sorted("%s.%s" % k for k in T.field_taint)[:60],
                              "discharge": stats}
    ctx.floor(rule, len(reach), "C04.R1.reachable")
    ctx.floor(rule, len(sinks), "C04.R1.sinks")
    return T


def run(ctx):
    r1(ctx)

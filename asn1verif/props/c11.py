"""C11 - bit-level buffer operations (DESIGN.md section 5, C11): error-not-panic and cursor/growth discipline."""
import json
import os

from .. import expr as X
from .. import facts as F
from .. import rules as R
from ..core import VERIF
from ..mir import span_loc

RAW_R = "BitRead for (&[u8], &mut usize)>::"
RAW_W = "BitWrite for (&'a mut [u8], &mut usize)>::"


def one(ctx, rule, suffix):
    P = ctx.program()
    bs = [b for b in P.find("asn1rs", suffix) if b.def_kind in ("Fn", "AssocFn")]
    if len(bs) != 1:
        ctx.fail(rule, "anchor-lost:" + suffix, "function …%s matched %d bodies" % (suffix, len(bs)))
        return None
    return bs[0]


def access_sites(body):
    """blocks of panic-capable slice accesses: bounds-check asserts, Index/IndexMut calls, copy_from_slice"""
    out = []
    for bb, t in body.asserts():
        if t["msg"]["k"] == "BoundsCheck":
            out.append((bb, "index", span_loc(t["sp"])))
    for cs in body.calls():
        if cs.fn and (cs.fn["def"].endswith("::index") or cs.fn["def"].endswith("::index_mut")
                      or cs.fn["def"].endswith("copy_from_slice")):
            out.append((cs.bb, X.short(cs.callee), cs.loc()))
    return out


def r1(ctx):
    rule = "C11.R1"
    ctx.rule(rule, "T5 checks dominate accesses: in bit_string_copy and bit_string_copy_bulked the two length comparisons "
                   "(8*dst.len() < dst_pos+len, 8*src.len() < src_pos+len) exist with exactly that boundary and dominate every "
                   "indexing, copy_from_slice and (for the bulked variant) every access outside the short-copy delegation")
    P = ctx.program()
    want = {"src": "($2 Add $5)|(slice::len($1) Mul 8)|b|1", "dst": "($4 Add $5)|(slice::len($3) Mul 8)|b|1"}
    for fn in ("slice::bit_string_copy", "slice::bit_string_copy_bulked"):
        b = one(ctx, rule, fn)
        if b is None:
            continue
        ff = R.FnFacts(P, b, include_closures=False)
        guards = {}
        via = delegated_checks(P, b)
        for side, key in want.items():
            cs = [c for c in ff.cmps.get(key, []) if c.validating and c.switch_bb is not None]
            detail = {"function": b.path, "required": key, "found": sorted(k for k in ff.cmps if "slice::len" in k)}
            if not cs and key in via:
                # the check lives in a private helper called as `helper(..)?` with the same arguments
                call, helper = via[key]
                guards[side] = _CallGuard(b, call, "%s in %s" % (key, helper))
                ctx.ok(rule, "%s#%s-check" % (fn.split("::")[-1], side), dict(detail, checked_by=helper, call=call.loc()))
                continue
            if not cs:
                ctx.fail(rule, "%s#%s-check" % (fn.split("::")[-1], side),
                         "the %s length check `8 * %s.len() < %s_bit_position + len` (normal form %s) is missing or has a different "
                         "boundary" % (side, side, side, key), "%s:%d" % (b.file, b.line), detail)
            else:
                guards[side] = cs[0]
                ctx.ok(rule, "%s#%s-check" % (fn.split("::")[-1], side), detail)
        if len(guards) < 2:
            continue
        bad = []
        sites = access_sites(b)
        for bb, what, loc in sites:
            for side, g in guards.items():
                # the access must be dominated by the comparison's switch and not lie on its error side
                ok_succ = [s for s in b.succ[g.switch_bb] if s in F.ok_reaching(b)]
                if not (b.dominates(g.switch_bb, bb) and any(bb in b.reach_from(s) for s in ok_succ)):
                    bad.append((what, loc, side))
        detail = {"function": b.path, "accesses": len(sites), "guards": {s: g.raw for s, g in guards.items()}}
        if bad:
            for what, loc, side in bad[:3]:
                ctx.fail(rule, "%s#access-before-%s-check" % (fn.split("::")[-1], side),
                         "%s at %s is not dominated by the %s length check" % (what, loc, side), loc, detail)
        else:
            ctx.ok(rule, fn.split("::")[-1] + "#dominance", detail)


class _CallGuard:
    """a validating comparison that a `helper(..)?` call performs: for dominance it behaves like a switch at the block where
    the `?` branches (its success continuation is everything the call's continuation dominates)"""

    def __init__(self, body, cs, raw):
        self.raw = raw
        # the block whose switch separates Ok from Err of the `?`
        sb = None
        for c2 in body.calls():
            if c2.name == "branch" and c2.args and c2.args[0].get("k") in ("copy", "move") and not cs.dest["p"] \
                    and c2.args[0]["pl"]["l"] == cs.dest["l"] and c2.target is not None:
                t = body.blocks[c2.target]["term"]
                if t and t["k"] == "switch":
                    sb = c2.target
        self.switch_bb = sb if sb is not None else cs.bb


def delegated_checks(P, b):
    """validating comparisons of fallible private helpers that `b` calls with `?`, expressed over b's own parameters:
    {positional comparison key: (call site, helper name)}"""
    out = {}
    O = X.Origins(b, P)
    for cs in b.calls():
        if cs.fn is None or "Result<" not in (cs.term.get("dty") or "") or not cs.is_local:
            continue
        t = P.resolve_callee(b.crate, cs)
        if t is None or t.def_kind not in ("Fn", "AssocFn") or t.key == b.key:
            continue
        if not any(c2.name == "branch" and c2.args and c2.args[0].get("k") in ("copy", "move") and not cs.dest["p"]
                   and c2.args[0]["pl"]["l"] == cs.dest["l"] for c2 in b.calls()):
            continue
        pn = t.param_names()
        sub = {pn[i + 1]: a for i, a in enumerate(O.call_args(cs)) if pn.get(i + 1)}
        Ot = X.Origins(t, P)
        for c in F.comparisons(t, Ot):
            if not c.validating or c.lex is None or c.rex is None:
                continue
            c2 = F.normalise_cmp("Lt", R.substitute(c.lex, sub), R.substitute(c.rex, sub))
            if c2 is None:
                continue
            # same orientation and boundary as in the helper, operands renamed to the caller's
            c2.kind, c2.boundary = c.kind, c.boundary if (F.rd(c2.lex) <= F.rd(c2.rex)) == (c.lhs <= c.rhs) else (
                (-c.boundary + 1) if c.kind == "b" else -c.boundary)
            out[R.cmp_key_positional(c2)] = (cs, X.short(t.path))
    return out


def validating_keys(P, b):
    ff = R.FnFacts(P, b, include_closures=False)
    return {k: v for k, v in ff.cmps.items() if v[0].validating}


def r2(ctx):
    rule = "C11.R2"
    ctx.rule(rule, "T3-a sibling boundary: the raw read_bit and write_bit of the (slice, position) tuples reject the same "
                   "positions (equal validating boundary facts on position - 8 * len)")
    P = ctx.program()
    rb, wb = one(ctx, rule, RAW_R + "read_bit"), one(ctx, rule, RAW_W + "write_bit")
    if rb is None or wb is None:
        return
    kr, kw = validating_keys(P, rb), validating_keys(P, wb)
    detail = {"read_bit": sorted(kr), "write_bit": sorted(kw)}
    if not kr or not kw:
        ctx.fail(rule, "bit#bounds-test-missing", "raw %s has no bounds test before indexing" % ("read_bit" if not kr else "write_bit"),
                 "%s:%d" % ((rb if not kr else wb).file, (rb if not kr else wb).line), detail)
        return
    if set(kr) != set(kw):
        only = sorted(set(kr) ^ set(kw))
        c = (kr.get(only[0]) or kw.get(only[0]))[0]
        ctx.fail(rule, "bit#boundary-differs", "raw read_bit and write_bit guard different boundaries: %s vs %s" % (sorted(kr), sorted(kw)),
                 c.loc, detail)
    else:
        ctx.ok(rule, "bit", detail)
    # and the boundary is the right one: position >= 8 * len is rejected  (position - 8*len boundary 0)
    want = "$1.1|(slice::len($1.0) Mul 8)|b|0"
    for nm, ks, b in (("read_bit", kr, rb), ("write_bit", kw, wb)):
        if want in ks:
            ctx.ok(rule, nm + "#boundary", {"fact": want})
        else:
            ctx.fail(rule, nm + "#boundary", "raw %s does not reject exactly the positions >= 8 * len (facts: %s)" % (nm, sorted(ks)),
                     "%s:%d" % (b.file, b.line), detail)


def cursor_updates(body, O=None):
    """(bb, stmt) of assignments through `*self.1` (the position of the raw tuples)"""
    out = []
    if O is None:
        O = X.Origins(body)
    for bb, j, s in body.all_statements():
        if s["k"] != "assign" or not s["pl"]["p"] or s["pl"]["p"][-1]["k"] != "deref":
            continue
        base = {"l": s["pl"]["l"], "p": s["pl"]["p"][:-1]}
        ex = O.place(base, bb, j)
        if F.rd(R.positional(ex)) == "$1.1":
            out.append((bb, j, s))
    return out


def r3(ctx):
    rule = "C11.R3"
    ctx.rule(rule, "T8-d advance after success: the raw tuples advance their position only on the success edge of the copy / "
                   "bounds test, by exactly the number of bits handed to the copy")
    P = ctx.program()
    n = 0
    for suffix, kind in ((RAW_R + "read_bits_with_offset_len", "copy"), (RAW_W + "write_bits_with_offset_len", "copy"),
                         (RAW_R + "read_bit", "test"), (RAW_W + "write_bit", "test")):
        b = one(ctx, rule, suffix)
        if b is None:
            continue
        n += 1
        O = X.Origins(b, P)
        ups = cursor_updates(b, O)
        name = suffix.split("::")[-1]
        if not ups:
            ctx.fail(rule, name + "#no-advance", "raw %s never advances its position" % name, "%s:%d" % (b.file, b.line))
            continue
        okr = F.ok_reaching(b)
        problems = []
        detail = {"function": b.path, "updates": [span_loc(s["sp"]) for _, _, s in ups]}
        if kind == "copy":
            copies = [cs for cs in b.calls() if cs.fn and cs.fn["def"].endswith("bit_string_copy_bulked")]
            if len(copies) != 1:
                ctx.fail(rule, name + "#anchor-lost:bit_string_copy_bulked", "expected one call of bit_string_copy_bulked, found %d" % len(copies))
                continue
            cp = copies[0]
            ln = F.rd(O.call_args(cp)[4])
            detail["copy_length"] = ln
            # the `?` switch on the copy result
            qs = [bb for bb, t in b.switches() if "Try::branch(" in X.render(O.switch_cond(bb)) and "bit_string_copy_bulked" in X.render(O.switch_cond(bb))]
            for bb, j, s in ups:
                if not (cp.target is not None and b.dominates(cp.target, bb)):
                    problems.append("position update at %s is not dominated by the copy" % span_loc(s["sp"]))
                for q in qs:
                    err_succ = [x for x in b.succ[q] if any(c.name == "from_residual" and c.bb in b.reach_from(x) for c in b.calls())]
                    if any(bb in b.reach_from(x) for x in err_succ):
                        problems.append("position update at %s is reachable from the error branch of the copy" % span_loc(s["sp"]))
                if not qs:
                    problems.append("the result of the copy is not propagated with `?` before the position update")
                rv = s["rv"]
                ex = O.rvalue(rv, bb, j, 0)
                amount = None
                for e in X.walk(ex):
                    if e[0] == "bin" and X.norm_op(e[1]) == "Add":
                        amount = F.rd(e[3])
                        break
                detail["advance_by"] = amount
                if amount != ln:
                    problems.append("position advances by `%s` but `%s` bits were copied" % (amount, ln))
        else:
            vs = [c for c in F.comparisons(b, O) if c.validating and c.switch_bb is not None]
            for bb, j, s in ups:
                if not any(b.dominates(c.switch_bb, bb) and bb in okr and
                           any(bb in b.reach_from(x) for x in b.succ[c.switch_bb] if x in okr and not _err_only(b, x)) for c in vs):
                    problems.append("position update at %s is not dominated by the bounds test" % span_loc(s["sp"]))
                ex = O.rvalue(s["rv"], bb, j, 0)
                amt = [F.rd(e[3]) for e in X.walk(ex) if e[0] == "bin" and X.norm_op(e[1]) == "Add"]
                detail["advance_by"] = amt[:1]
                if amt[:1] != ["1"]:
                    problems.append("position advances by %s instead of 1" % amt[:1])
        if problems:
            ctx.fail(rule, name, "; ".join(problems), span_loc(ups[0][2]["sp"]), detail)
        else:
            ctx.ok(rule, name, detail)
    ctx.floor(rule, n, "C11.R3.functions")


def _err_only(b, blk):
    return blk not in F.ok_reaching(b)


EXPECTED_GROW = {
    "write_bit": "1",
    "write_bits": "(slice::len($2) Mul 8)",
    "write_bits_with_offset": "((slice::len($2) Mul 8) Sub $3)",
    "write_bits_with_len": "$3",
    "write_bits_with_offset_len": "$4",
}


def r4(ctx):
    rule = "C11.R4"
    ctx.rule(rule, "grow before write: every BitWrite method of BitBuffer calls ensure_can_write_additional_bits(e) on a block "
                   "dominating the delegation to the raw slice writer, with e equal to the number of bits the delegate writes")
    P = ctx.program()
    n = 0
    for m, want in EXPECTED_GROW.items():
        cands = [b for b in P.lib_bodies("asn1rs") if b.name == m and (b.impl_trait or "").endswith("BitWrite")
                 and (b.impl_self_ty or "").endswith("BitBuffer") and b.def_kind == "AssocFn" and "::promoted[" not in b.path]
        if len(cands) != 1:
            ctx.fail(rule, "anchor-lost:BitBuffer::" + m, "impl BitWrite for BitBuffer has no unique method " + m)
            continue
        b = cands[0]
        n += 1
        O = X.Origins(b, P)
        ens = [cs for cs in b.calls() if cs.name == "ensure_can_write_additional_bits"]
        raw = [cs for cs in b.calls() if cs.fn and (cs.trait or "").endswith("BitWrite") and cs.name == m]
        detail = {"function": b.path, "expected": want,
                  "ensure_args": [F.rd(R.positional(O.call_args(c)[1])) for c in ens], "delegations": [c.loc() for c in raw]}
        if not ens:
            ctx.fail(rule, "BitBuffer::" + m, "no call of ensure_can_write_additional_bits before the write: the buffer is not grown",
                     "%s:%d" % (b.file, b.line), detail)
            continue
        if not raw:
            ctx.fail(rule, "BitBuffer::%s#anchor-lost:delegate" % m, "no delegation to the raw BitWrite::%s" % m, "%s:%d" % (b.file, b.line), detail)
            continue
        e = ens[0]
        got = detail["ensure_args"][0]
        probs = []
        if got != want:
            probs.append("grows by `%s` bits but the delegate writes `%s`" % (got, want))
        if not all(e.target is not None and b.dominates(e.target, r.bb) for r in raw):
            probs.append("the grow call does not dominate the write")
        if probs:
            ctx.fail(rule, "BitBuffer::" + m, "; ".join(probs), e.loc(), detail)
        else:
            ctx.ok(rule, "BitBuffer::" + m, detail)
    # the grow routine itself: required length is ceil((write_position + bit_len) / 8)
    b = one(ctx, rule, "BitBuffer::ensure_can_write_additional_bits")
    if b is not None:
        ff = R.FnFacts(P, b, include_closures=False)
        need = ["Add 7", "Div 8", "Mul 8"]
        miss = [k for k in need if k not in ff.constops]
        detail = {"function": b.path, "constops": sorted(ff.constops), "cmps": sorted(ff.cmps)}
        if miss:
            ctx.fail(rule, "ensure_can_write_additional_bits#ceil", "required length is no longer ceil((write_position + bit_len) / 8): "
                     "missing %s" % miss, "%s:%d" % (b.file, b.line), detail)
        else:
            ctx.ok(rule, "ensure_can_write_additional_bits#ceil", detail)
    ctx.floor(rule, n, "C11.R4.methods")


def r5(ctx):
    rule = "C11.R5"
    ctx.rule(rule, "cursor census (who-may-write): write_position / read_position of BitBuffer and pos / len of Bits are assigned "
                   "or mutably borrowed only in the functions listed in tables/cursor_writers.json")
    P = ctx.program()
    with open(os.path.join(VERIF, "tables", "cursor_writers.json")) as fh:
        table = json.load(fh)
    fields = {("BitBuffer", "write_position"), ("BitBuffer", "read_position"), ("BitBuffer", "buffer"), ("Bits", "pos"), ("Bits", "len")}
    found = {}
    for b in P.lib_bodies("asn1rs"):
        if "::promoted[" in b.path or "::tests::" in b.path or b.derived:
            continue
        for bb, j, s in b.all_statements():
            if s["k"] != "assign":
                continue
            places = []
            fs = [p for p in s["pl"]["p"] if p["k"] == "field"]
            if fs:
                places.append((fs[-1], "assign"))
            rv = s["rv"]
            if rv["k"] in ("ref", "rawptr") and (rv.get("mut") or rv["k"] == "rawptr"):
                fs2 = [p for p in rv["pl"]["p"] if p["k"] == "field"]
                if fs2:
                    places.append((fs2[-1], "&mut"))
            for f, how in places:
                ty = f.get("of", "").split("<")[0].split("::")[-1]
                if (ty, f["n"]) in fields:
                    root = b.root or b.path
                    found.setdefault((ty + "." + f["n"], root), []).append(span_loc(s["sp"]))
    n = 0
    for (field, fn), locs in sorted(found.items()):
        n += 1
        allowed = table.get(field, {})
        hit = [k for k in allowed if fn.endswith(k)]
        detail = {"field": field, "function": fn, "sites": locs[:4]}
        if hit:
            detail["reason"] = allowed[hit[0]]
            ctx.ok(rule, "%s<-%s" % (field, fn), detail)
        else:
            ctx.fail(rule, "%s<-%s" % (field, fn), "%s is written (or mutably borrowed) in %s, which is not one of the reviewed writers of "
                                                  "this cursor" % (field, fn), locs[0], detail)
    ctx.floor(rule, n, "C11.R5.writers")


def mentions_param(ex, name):
    return any(e[0] == "param" and e[2] == name for e in X.walk(ex))


def r6(ctx):
    rule = "C11.R6"
    ctx.rule(rule, "clear before merge: a store `dst[i] = dst[i] | x` in the bit-copy routines whose `x` carries source data must take "
                   "`dst[i]` through a mask (`dst[i] & m`) first - OR-ing source bits onto whatever the destination holds leaves old "
                   "1-bits inside the copied range (single-bit `1 << k` set / `& !(1 << k)` reset pairs are exempt); a shifted partial source byte is never stored over a whole "
                   "destination byte")
    P = ctx.program()
    n = 0
    for nm in ("bit_string_copy", "bit_string_copy_bulked"):
        bs = [b for b in P.find("asn1rs", "slice::" + nm) if b.def_kind == "Fn"]
        if len(bs) != 1:
            ctx.fail(rule, "anchor-lost:" + nm, "matched %d bodies" % len(bs))
            continue
        b = bs[0]
        O = X.Origins(b, P)
        k = 0
        for bb, j, st in b.all_statements():
            if st["k"] != "assign" or not st["pl"]["p"] or not any(p["k"] in ("index", "cindex") for p in st["pl"]["p"]):
                continue
            base = O.local(st["pl"]["l"], bb, j)
            if not mentions_param(base, "dst"):
                continue
            rv = st["rv"]
            n += 1
            k += 1
            key = "%s#store%d" % (nm, k)
            ex = O.rvalue(rv, bb, j, 0)
            detail = {"function": b.path, "at": span_loc(st["sp"]), "value": X.render(ex)[:200]}
            e = F.strip_casts(ex)
            if e[0] == "bin" and X.norm_op(e[1]) == "BitOr":
                l, r = F.strip_casts(e[2]), F.strip_casts(e[3])
                bad = None
                for mine, other in ((l, r), (r, l)):
                    raw_dst = mine[0] == "index" and mentions_param(mine, "dst")
                    if raw_dst and mentions_param(other, "src"):
                        bad = other
                if bad is not None:
                    ctx.fail(rule, key, "source bits (`%s`) are OR-ed onto the unmasked destination byte: 1-bits already stored in the "
                                        "copied range survive the copy" % X.render(bad)[:70], span_loc(st["sp"]), detail)
                    continue
            # a partial byte (shifted source data) stored without merging the destination byte wipes the bits next to it
            shifted = any(x[0] == "bin" and X.norm_op(x[1]) in ("Shl", "Shr") for x in X.walk(e))
            if mentions_param(e, "src") and shifted and not mentions_param(e, "dst"):
                ctx.fail(rule, key, "a shifted (partial) source byte is stored over the whole destination byte: the destination bits "
                                    "outside the copied range are zeroed", span_loc(st["sp"]), detail)
                continue
            ctx.ok(rule, key, detail)
    ctx.floor(rule, n, "C11.R6.stores")


def r7(ctx):
    rule = "C11.R7"
    ctx.rule(rule, "T8 save / restore of the cursors: BitBuffer::with_write_position_at, with_read_position_at and with_max_read save "
                   "the cursor they move with mem::replace and, after the closure has run (on its only continuation), assign the "
                   "saved value back to the same field; ScopedBitRead::with_read_position_at restores with set_pos(saved pos())")
    P = ctx.program()
    n = 0
    for b in P.lib_bodies("asn1rs"):
        if not (b.name.startswith("with_") and b.def_kind == "AssocFn" and "per/unaligned" in b.file and b.name != "with_capacity"):
            continue
        O = X.Origins(b, P)
        fcalls = [cs for cs in b.calls() if (cs.trait or "").split("::")[-1] in ("Fn", "FnOnce", "FnMut")]
        if not fcalls:
            continue
        n += 1
        fc = fcalls[0]
        repl = [cs for cs in b.calls() if cs.name == "replace" and b.dominates(cs.bb, fc.bb)]
        detail = {"function": b.path}
        if repl:
            saved_field = F.rd(R.positional(O.call_args(repl[0])[0]))
            restores = []
            for bb, j, st in b.all_statements():
                if st["k"] == "assign" and st["pl"]["p"] and fc.target is not None and (bb == fc.target or b.dominates(fc.target, bb)):
                    fld = ".".join(p.get("n", "*") for p in st["pl"]["p"])
                    restores.append((fld, F.rd(R.positional(O.rvalue(st["rv"], bb, j, 0)))))
            detail.update(saved=saved_field, restores=restores)
            want_field = "*." + saved_field.split(".", 1)[1] if "." in saved_field else saved_field
            good = [r for r in restores if r[0] == want_field and r[1].startswith("mem::replace(" + saved_field)]
            if not good:
                ctx.fail(rule, b.name, "%s saves `%s` but does not assign the saved value back to it after the closure (restores: %s): the "
                                       "cursor stays where the closure left it, or another cursor is overwritten" % (b.name, saved_field, restores),
                         fc.loc(), detail)
            else:
                ctx.ok(rule, b.name, detail)
        else:
            # trait default: pos() saved, set_pos(saved) after the closure
            sets = [cs for cs in b.calls() if cs.name == "set_pos" and fc.target is not None and (cs.bb == fc.target or b.dominates(fc.target, cs.bb))]
            args = [F.rd(R.positional(O.call_args(cs)[1])) for cs in sets]
            detail.update(restores=args)
            if not any(a.startswith("ScopedBitRead::pos(") or "pos(" in a for a in args):
                ctx.fail(rule, b.name, "%s does not restore the position it saved before the closure (set_pos arguments after it: %s)"
                         % (b.name, args), fc.loc(), detail)
            else:
                ctx.ok(rule, b.name, detail)
    ctx.floor(rule, n, "C11.R7.helpers")


EXPECTED_READ = {
    "read_bits": "(slice::len($2) Mul 8)",
    "read_bits_with_offset": "((slice::len($2) Mul 8) Sub $3)",
    "read_bits_with_len": "$3",
    "read_bits_with_offset_len": "$4",
}


def r8(ctx, rule="C11.R8"):
    ctx.rule(rule, "check what is read: every length-scoped BitRead method of BitBuffer and Bits asks ensure_can_read_bits for exactly "
                   "the number of bits the raw slice reader it delegates to will consume (dst.len() * 8, that minus the offset, or the "
                   "length argument) - the twin of C11.R4 on the read side")
    P = ctx.program()
    n = 0
    for ty in ("BitBuffer", "Bits"):
        for m, want in EXPECTED_READ.items():
            cands = [b for b in P.lib_bodies("asn1rs") if b.name == m and (b.impl_trait or "").endswith("BitRead")
                     and (b.impl_self_ty or "").split("<")[0].endswith(ty) and b.def_kind == "AssocFn" and "::promoted[" not in b.path]
            if len(cands) != 1:
                ctx.fail(rule, "anchor-lost:%s::%s" % (ty, m), "impl BitRead for %s has no unique method %s" % (ty, m))
                continue
            b = cands[0]
            O = X.Origins(b, P)
            ens = [cs for cs in b.calls() if cs.name == "ensure_can_read_bits"]
            n += 1
            got = [F.rd(R.positional(O.call_args(c)[1])) for c in ens]
            detail = {"function": b.path, "expected": want, "ensure_args": got}
            if not ens:
                ctx.ok(rule, "%s::%s" % (ty, m), dict(detail, note="no ensure_can_read_bits call: C04.R2 decides whether the visible end is tested"),
                       nontrivial=False)
            elif want not in got:
                ctx.fail(rule, "%s::%s" % (ty, m), "asks whether `%s` bits can be read, but the delegate reads `%s`: reads beyond the visible "
                                                   "end succeed or legitimate reads are refused" % (got[0], want), ens[0].loc(), detail)
            else:
                ctx.ok(rule, "%s::%s" % (ty, m), detail)
    ctx.floor(rule, n, rule + ".methods")



def r9(ctx):
    rule = "C11.R9"
    ctx.rule(rule, "T6 one position, two coordinates: in bit_string_copy_bulked the destination byte index (`p / 8`) and the bit offset "
                   "inside that byte (`p % 8`) are taken from the same position value p (after the alignment head that is the advanced "
                   "position) - an index from the position before the head with an offset from the position after it writes the body "
                   "one byte early whenever the head crosses a byte boundary")
    P = ctx.program()
    b = one(ctx, rule, "unaligned::slice::bit_string_copy_bulked")
    if b is None:
        return
    pn = {nm: l for l, nm in b.param_names().items()}
    dl = pn.get("dst_bit_position")
    if dl is None:
        ctx.fail(rule, "anchor-lost:dst_bit_position", "bit_string_copy_bulked has no parameter dst_bit_position", "%s:%d" % (b.file, b.line))
        return
    tag = "$%d" % dl
    divs, rems = {}, {}
    O = X.Origins(b, P)
    for bb, j, st in b.all_statements():
        rv = st.get("rv") or {}
        if st["k"] != "assign" or rv.get("k") != "bin" or X.norm_op(rv["op"]) not in ("Div", "Rem"):
            continue
        r_ = F.strip_casts(O.operand(rv["r"], bb, j))
        if not (r_[0] == "const" and r_[1] == 8):
            continue
        l_ = F.rd(R.positional(O.operand(rv["l"], bb, j)))
        if tag not in l_:
            continue
        (divs if X.norm_op(rv["op"]) == "Div" else rems).setdefault(l_, []).append(span_loc(st["sp"]))
    detail = {"function": b.path, "byte_index_of": sorted(divs), "bit_offset_of": sorted(rems)}
    if not divs or not rems:
        ctx.fail(rule, "anchor-lost:coordinates", "destination `/ 8` (%d) or `%% 8` (%d) not found" % (len(divs), len(rems)), "%s:%d" % (b.file, b.line), detail)
    elif set(divs) != set(rems):
        odd = sorted(set(divs) ^ set(rems))[0]
        ctx.fail(rule, "bit_string_copy_bulked#dst-coordinates", "the destination byte index is computed from %s, the bit offset from %s: the two "
                                                                 "coordinates describe different positions" % (sorted(divs), sorted(rems)),
                 (divs.get(odd) or rems.get(odd))[0], detail)
    else:
        ctx.ok(rule, "bit_string_copy_bulked#dst-coordinates", detail)

def r10(ctx):
    rule = "C11.R10"
    ctx.rule(rule, "an error, not a panic, for positions beyond the buffer: in bit_string_copy and bit_string_copy_bulked (private helpers "
                   "expanded) no overflow-checked subtraction of two non-constant values runs before both length checks have passed - "
                   "`8 * buf.len() - bit_position` underflows for a cursor that already lies behind the buffer, exactly the input the "
                   "checks exist to refuse (the saturating / checked forms and the sum form `position + len` do not)")
    P = ctx.program()
    n = 0
    for fn in ("slice::bit_string_copy", "slice::bit_string_copy_bulked"):
        b = one(ctx, rule, fn)
        if b is None:
            continue
        O = X.Origins(b, P)
        checks = [c for c in F.comparisons(b, O) if c.validating and c.switch_bb is not None and "slice::len" in (c.lhs + c.rhs)]
        if len(checks) < 2:
            via = delegated_checks(P, b)
            if via:
                ctx.ok(rule, fn.split("::")[-1], {"function": b.path, "checked_by": sorted(h for _, h in via.values())}, nontrivial=False)
                n += 1
                continue
            ctx.fail(rule, fn.split("::")[-1] + "#anchor-lost:length-checks", "%d validating length comparisons found" % len(checks),
                     "%s:%d" % (b.file, b.line))
            continue
        n += 1
        okb = F.ok_reaching(b)
        passed = None
        for c in checks:
            ok_succ = [s_ for s_ in b.succ[c.switch_bb] if s_ in okb]
            after = set()
            for s_ in ok_succ:
                if not all(x in okb for x in b.succ[c.switch_bb]) or True:
                    after |= b.reach_from(s_)
            # only the side on which the check passed
            err_succ = [s_ for s_ in b.succ[c.switch_bb] if s_ not in ok_succ]
            if err_succ:
                after = set()
                for s_ in ok_succ:
                    after |= b.reach_from(s_, avoid=err_succ)
            passed = after if passed is None else (passed & after)
        bad = []
        for bb, t in b.asserts():
            m = t["msg"]
            if m.get("k") == "Overflow" and m.get("op") == "Sub" and all(o.get("k") != "const" for o in m.get("ops", [])):
                if bb not in (passed or set()):
                    bad.append(span_loc(t["sp"]))
        detail = {"function": b.path, "length_checks": [c.raw[:100] for c in checks], "early_subtractions": bad}
        if bad:
            ctx.fail(rule, fn.split("::")[-1] + "#subtraction-before-checks", "an overflow-checked subtraction of two variable values at %s runs "
                                                                              "before the length checks have passed: a position beyond the "
                                                                              "buffer panics instead of returning the error" % bad[0], bad[0], detail)
        else:
            ctx.ok(rule, fn.split("::")[-1], detail)
    ctx.floor(rule, n, "C11.R10.functions")


def run(ctx):
    r1(ctx)
    r2(ctx)
    r3(ctx)
    r4(ctx)
    r5(ctx)
    r6(ctx)
    r7(ctx)
    r8(ctx)
    r9(ctx)
    r10(ctx)

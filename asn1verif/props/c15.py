"""C15 - Rust integer type selection: table consistency of the cascade and provenance of bounds (DESIGN.md 5/C15)."""
from .. import expr as X
from .. import facts as F
from .. import rules as R
from ..mir import span_loc

# boundary (first value that no longer fits) -> (RustType variant, cast target type): from the ranges of Rust's integer types
CASCADE = {
    "unsigned": [(2 ** 8, "U8", "u8"), (2 ** 16, "U16", "u16"), (2 ** 32, "U32", "u32")],
    "signed": [(2 ** 7, "I8", "i8"), (2 ** 15, "I16", "i16"), (2 ** 31, "I32", "i32")],
}
INT_VARIANTS = ("U8", "I8", "U16", "I16", "U32", "I32", "U64", "I64")


def region(body, tgt, from_bb):
    if all(p == from_bb for p in body.pred[tgt]):
        return {b for b in body.reachable if body.dominates(tgt, b)}
    return {tgt}


def region_facts(body, blocks):
    aggs, casts = [], []
    for bb in sorted(blocks):
        for s in body.blocks[bb]["stmts"]:
            if s["k"] != "assign":
                continue
            rv = s["rv"]
            if rv["k"] == "agg" and rv.get("ak") == "adt" and rv["adt"].endswith("RustType"):
                aggs.append(rv["variant"])
            if rv["k"] == "cast" and rv["ck"] == "IntToInt":
                casts.append(rv["ty"])
    return aggs, casts


def r1(ctx, rule="C15.R1"):
    ctx.rule(rule, "extensible -> 64 bit: every RustType built by asn_extensible_integer_to_rust is U64 or I64 with the extensible flag set")
    P = ctx.program()
    bs = [b for b in P.find("asn1rs_model", "::asn_extensible_integer_to_rust") if b.def_kind == "AssocFn"]
    if len(bs) != 1:
        ctx.fail(rule, "anchor-lost:asn_extensible_integer_to_rust", "matched %d bodies" % len(bs))
        return
    b = bs[0]
    O = X.Origins(b, P)
    built = []
    for bb, j, s in b.all_statements():
        if s["k"] == "assign" and s["rv"]["k"] == "agg" and s["rv"].get("adt", "").endswith("RustType"):
            rng = O.operand(s["rv"]["ops"][0], bb, j) if s["rv"]["ops"] else None
            flag = None
            if rng is not None and rng[0] == "agg":
                flag = F.rd(rng[4][2][1]) if len(rng[4]) > 2 else None
            built.append((s["rv"]["variant"], flag, span_loc(s["sp"])))
    detail = {"function": b.path, "constructed": built}
    if not built:
        ctx.fail(rule, "anchor-lost:constructors", "no RustType construction found", "%s:%d" % (b.file, b.line), detail)
        return
    bad = [x for x in built if x[0] not in ("U64", "I64")]
    noflag = [x for x in built if x[1] != "1"]
    if bad:
        ctx.fail(rule, "extensible-width", "an extensible INTEGER is mapped to RustType::%s: out-of-root values are not representable" % bad[0][0],
                 bad[0][2], detail)
    elif noflag:
        ctx.fail(rule, "extensible-flag", "the Range of an extensible INTEGER is built with extensible = %s" % noflag[0][1], noflag[0][2], detail)
    else:
        ctx.ok(rule, "asn_extensible_integer_to_rust", detail)
    ctx.floor(rule, len(built), rule + ".constructors")
    # unsigned only between non-negative bounds: every path to a (guard-selected) U64 construction takes the true edge of
    # `min >= 0` *and* of `max >= 0` - the lower bound may be absent (MIN), then only the upper bound says that the values are negative
    u64_blocks = set()
    for bb, j, s in b.all_statements():
        if s["k"] == "assign" and s["rv"]["k"] == "agg" and s["rv"].get("adt", "").endswith("RustType") and s["rv"].get("variant") == "U64":
            rng = O.operand(s["rv"]["ops"][0], bb, j) if s["rv"]["ops"] else None
            lo = rng[4][0][1] if rng is not None and rng[0] == "agg" and rng[4] else None
            if lo is not None and lo[0] == "agg" and lo[3] == "None":
                continue        # U64(None, ..): selected by the literal patterns None / Some(0), not by the guard
            u64_blocks.add(bb)
    u64_blocks = sorted(u64_blocks)

    class _C:
        pass
    for which, label in (("min", "lower"), ("max", "upper")):
        cmps = [c for c in F.comparisons(b, O) if c.switch_bb is not None and c.kind == "b" and c.boundary == 0 and c.rhs == ""
                and (which + "(") in c.lhs]
        # the same test written with a combinator: `min.map_or(true, |v| v >= 0)`, `min.is_none_or(|v| v >= 0)`, `!min.is_some_and(|v| v < 0)`
        if not cmps:
            for sbb, t in b.switches():
                ex = F.strip_casts(O.switch_cond(sbb))
                neg = False
                while ex[0] == "un" and ex[1] == "Not":
                    ex = F.strip_casts(ex[2])
                    neg = not neg
                if not (ex[0] == "call" and X.last_seg(ex[1] or "") in ("map_or", "is_some_and", "is_none_or")
                        and (which + "(") in X.render(ex[3][0])):
                    continue
                for a in ex[3][1:]:
                    if a[0] == "agg" and a[1] == "closure":
                        cb = P.bodies.get("%s::%s" % (b.crate, a[2]))
                        if cb is None:
                            continue
                        for c in F.comparisons(cb, X.Origins(cb, P)):
                            if c.kind == "b" and c.boundary == 0 and c.rhs == "":
                                pc = _C()
                                pc.switch_bb = sbb
                                pc.loc = c.loc
                                pc.raw = "%s(.., |v| %s)" % (X.last_seg(ex[1]), c.raw)
                                pc.nop = c.nop if not neg else {"Ge": "Lt", "Gt": "Le", "Lt": "Ge", "Le": "Gt"}.get(c.nop, c.nop)
                                cmps.append(pc)
        key = "unsigned-needs-nonnegative-" + which
        d2 = {"function": b.path, "%s_bound_tests" % label: [c.raw for c in cmps], "u64_built_in_blocks": u64_blocks}
        if not cmps:
            ctx.fail(rule, key, "no `%s >= 0` test decides between U64 and I64" % which, "%s:%d" % (b.file, b.line), d2)
        elif u64_blocks:
            c = cmps[0]
            t = b.blocks[c.switch_bb]["term"]
            tr, fl = t["otherwise"], t["targets"][0]
            if c.nop in ("Lt", "Le"):
                tr, fl = fl, tr
            # reachability with the edge (test -> true successor) removed
            seen, work = set(), [0]
            while work:
                x = work.pop()
                if x in seen:
                    continue
                seen.add(x)
                for y in b.succ[x]:
                    if x == c.switch_bb and y == tr and tr != fl:
                        continue
                    work.append(y)
            leak = [x for x in u64_blocks if x in seen]
            if leak:
                ctx.fail(rule, key, "RustType::U64 can be chosen on a path on which `%s` is false: an extensible INTEGER with a negative %s "
                                    "bound gets an unsigned type" % (c.raw[-60:], label), c.loc, d2)
            else:
                ctx.ok(rule, key, d2)

def r2_r4(ctx):
    r2 = "C15.R2"
    r4 = "C15.R4"
    ctx.rule(r2, "T7 cascade table of asn_fixed_integer_to_rust_type: each guard `<= X_MAX` (boundary 2^8/2^16/2^32 unsigned, 2^7/2^15/2^31 "
                 "signed) builds exactly RustType::X with casts `as x`; the remaining case builds U64 / I64; the unsigned cascade is "
                 "entered only when the lower bound is >= 0")
    ctx.rule(r4, "absent-bound defaulting: the operand of the signedness test must not come from unwrap_or_default of the lower bound "
                 "(an absent lower bound means MIN, not 0)")
    P = ctx.program()
    bs = [b for b in P.find("asn1rs_model", "::asn_fixed_integer_to_rust_type") if b.def_kind == "AssocFn"]
    if len(bs) != 1:
        ctx.fail(r2, "anchor-lost:asn_fixed_integer_to_rust_type", "matched %d bodies" % len(bs))
        return
    b = bs[0]
    O = X.Origins(b, P)
    cmps = [c for c in F.comparisons(b, O) if c.switch_bb is not None]
    sign = [c for c in cmps if c.kind == "b" and c.boundary == 0 and c.rhs == "" and "min(" in c.lhs]
    if not sign:
        ctx.fail(r2, "signedness-test", "no `min >= 0` test selects between the unsigned and the signed cascade", "%s:%d" % (b.file, b.line),
                 {"comparisons": [c.raw for c in cmps]})
        return
    sg = sign[0]
    t = b.blocks[sg.switch_bb]["term"]
    # `min >= 0`: Ge -> true is `otherwise`
    true_t, false_t = t["otherwise"], t["targets"][0]
    if sg.nop in ("Lt", "Le"):
        true_t, false_t = false_t, true_t
    unsigned_region = region(b, true_t, sg.switch_bb)
    signed_region = region(b, false_t, sg.switch_bb)
    ctx.ok(r2, "signedness-test", {"test": sg.raw, "at": sg.loc})
    n = 0
    for side, reg in (("unsigned", unsigned_region), ("signed", signed_region)):
        seen_variants = []
        last_false = None
        prev_boundary = 0
        for boundary, variant, ity in CASCADE[side]:
            cs = [c for c in cmps if c.kind == "b" and c.rhs == "" and c.boundary == boundary and c.switch_bb in reg]
            key = "%s#%s" % (side, variant)
            if len(cs) != 1:
                near = sorted(c.boundary for c in cmps if c.switch_bb in reg and abs(c.boundary - boundary) <= 2)
                ctx.fail(r2, key + "#guard", "the %s cascade has no guard with boundary %d for %s (nearby boundaries: %s): values of the "
                                             "range would be mapped to a type that cannot hold them, or to a wider one than necessary" % (
                                                 side, boundary, variant, near), "%s:%d" % (b.file, b.line),
                         {"comparisons": [(c.raw, c.boundary) for c in cmps if c.switch_bb in reg]})
                continue
            c = cs[0]
            n += 1
            tt = b.blocks[c.switch_bb]["term"]
            tr, fl = tt["otherwise"], tt["targets"][0]      # `amplitude <= X_MAX` / `X_MAX >= amplitude`: fits on the true edge
            if c.nop in ("Gt", "Ge"):                       # `amplitude > X_MAX`: fits on the false edge
                tr, fl = fl, tr
            aggs, casts = region_facts(b, region(b, tr, c.switch_bb))
            detail = {"guard": c.raw, "boundary": boundary, "constructs": aggs, "casts": sorted(set(casts)), "at": c.loc}
            probs = []
            if aggs != [variant]:
                probs.append("the arm guarded by `%s` builds %s instead of RustType::%s" % (c.raw[-40:], aggs, variant))
            if set(casts) - {ity}:
                probs.append("the arm casts the bounds `as %s` instead of `as %s`" % (sorted(set(casts) - {ity}), ity))
            if not casts:
                probs.append("no cast of the bounds found in the arm")
            # ascending: this guard must be evaluated on the false side of the previous one
            if last_false is not None and c.switch_bb not in b.reach_from(last_false):
                probs.append("guards are not evaluated in ascending order")
            if side == "signed" and "num::abs(" in c.lhs:
                # a signed type holds [-(X_MAX + 1), X_MAX]: the lower bound enters the amplitude as |min + 1|
                i0 = c.lhs.index("num::abs(") + len("num::abs(")
                depth, i1 = 1, i0
                while i1 < len(c.lhs) and depth:
                    depth += {"(": 1, ")": -1}.get(c.lhs[i1], 0)
                    i1 += 1
                arg = c.lhs[i0:i1 - 1]
                if "Add 1" not in arg:
                    probs.append("the amplitude of the lower bound is |%s|, not |min + 1|: -(X_MAX + 1) would be pushed to the next "
                                 "wider type (and i64::MIN overflows abs)" % arg[:80])
            if probs:
                ctx.fail(r2, key, "; ".join(probs), c.loc, detail)
            else:
                ctx.ok(r2, key, detail)
            last_false = fl
            seen_variants.append(variant)
        if last_false is not None:
            aggs, casts = region_facts(b, region(b, last_false, None) if False else {x for x in b.reach_from(last_false) if x in reg})
            want = "U64" if side == "unsigned" else "I64"
            d = {"constructs": aggs}
            if want not in aggs or any(a not in (want,) for a in aggs):
                ctx.fail(r2, "%s#default" % side, "the remaining case of the %s cascade builds %s instead of RustType::%s" % (side, aggs, want),
                         "%s:%d" % (b.file, b.line), d)
            else:
                ctx.ok(r2, "%s#default" % side, d)
    ctx.floor(r2, n, "C15.R2.guards")
    # constants
    for name, val in (("I8_MAX", 2 ** 7 - 1), ("I16_MAX", 2 ** 15 - 1), ("I32_MAX", 2 ** 31 - 1), ("U8_MAX", 2 ** 8 - 1),
                      ("U16_MAX", 2 ** 16 - 1), ("U32_MAX", 2 ** 32 - 1)):
        c = P.consts.get("asn1rs_model::rust::" + name)
        if c is None:
            continue     # a refactor may inline the constants; the boundaries above are what matters
        if int(c.get("val", -1)) != val:
            ctx.fail(r2, "const:" + name, "%s is %s, not %d" % (name, c.get("val"), val), c["span"]["s"])
        else:
            ctx.ok(r2, "const:" + name, {"value": val}, nontrivial=False)
    # R4
    txt = sg.lhs
    detail = {"signedness_operand": txt, "at": sg.loc}
    if "unwrap_or_default(" in txt or "unwrap_or(Range::min" in txt and ", 0)" in txt:
        ctx.fail(r4, "asn_fixed_integer_to_rust_type#min-defaults-to-0",
                 "the signedness test looks at `%s`: an absent lower bound (MIN) is treated as 0, so INTEGER (MIN..k) is mapped to an "
                 "unsigned type" % txt, sg.loc, detail)
    else:
        ctx.ok(r4, "asn_fixed_integer_to_rust_type", detail)


def r3(ctx):
    rule = "C15.R3"
    ctx.rule(rule, "T6 bound provenance: integer_range_str returns Range(min, max, extensible) from the same variant's fields in that "
                   "order; the generated *_min / *_max accessors print range.min() / range.max() respectively")
    P = ctx.program()
    try:
        b = P.one("asn1rs_model", "RustType::integer_range_str")
    except KeyError as e:
        ctx.fail(rule, "anchor-lost:integer_range_str", str(e))
        return
    O = X.Origins(b, P)
    arms = {a.path[0][1]: a for a in R.match_tables(P, b, O) if len(a.path) == 1}
    n = 0
    for v in INT_VARIANTS:
        a = arms.get(v)
        if a is None:
            ctx.fail(rule, "integer_range_str#" + v, "no arm for RustType::%s" % v, "%s:%d" % (b.file, b.line))
            continue
        found = None
        for bb in sorted(a.blocks):
            for j, s in enumerate(b.blocks[bb]["stmts"]):
                if s["k"] == "assign" and s["rv"]["k"] == "agg" and s["rv"].get("adt", "").endswith("Range") and s["rv"].get("ak") == "adt":
                    found = [F.rd(R.positional(O.operand(o, bb, j))) for o in s["rv"]["ops"]]
        n += 1
        detail = {"variant": v, "range_fields": found}
        if not found or len(found) != 3:
            ctx.fail(rule, "integer_range_str#" + v, "arm %s does not build Range(min, max, extensible)" % v, "%s:%d" % (b.file, b.line), detail)
            continue
        want = ["($1 as %s).0.0" % v, "($1 as %s).0.1" % v, "($1 as %s).0.2" % v]
        ok = all(w in f for w, f in zip(want, found)) and not any(w in f for i, f in enumerate(found) for k, w in enumerate(want) if k != i)
        if not ok:
            ctx.fail(rule, "integer_range_str#" + v, "Range of RustType::%s is built from %s; expected fields .0 (min), .1 (max), .2 (extensible) "
                                                     "in this order" % (v, found), "%s:%d" % (b.file, b.line), detail)
        else:
            ctx.ok(rule, "integer_range_str#" + v, detail)
    ctx.floor(rule, n, "C15.R3.arms")
    # accessors
    try:
        g = P.one("asn1rs_model", "RustCodeGenerator::add_min_max_fn_if_applicable")
    except KeyError as e:
        ctx.fail(rule, "anchor-lost:add_min_max_fn_if_applicable", str(e))
        return
    src = ctx.src()
    fns = list(src.fns(path="asn1rs-model/src/generate/rust.rs", name="add_min_max_fn_if_applicable"))
    Og = X.Origins(g, P)
    calls = []
    for body in [g] + P.closures_of(g):
        Ob = Og if body is g else X.Origins(body, P)
        for cs in body.calls():
            if cs.name in ("new_fn", "line", "min", "max") and cs.fn and cs.fn["crate"] in ("codegen", "asn1rs_model"):
                calls.append((cs.bb, cs.name, X.render(Ob.call_args(cs)[-1])[:400] if cs.args else "", cs.site_loc(), body.path, cs.site_lines()))
    lines = sorted((int(c[3].split(":")[1]), c[2], c[5]) for c in calls if c[1] == "line")
    # the accessor names: `{}min` / `{}max` (prefix with its underscore) or `{}_min` / `{}_max`
    templ = sorted((st["line"], "{}" + st["s"].lstrip("{}").lstrip("_")) for _, f in fns for st in f.get("own_strings", f["strings"])
                   if st["s"] in ("{}min", "{}max", "{}_min", "{}_max"))
    detail = {"function": g.path, "templates": templ, "line_calls": lines}
    if len(templ) != 2 and lines and _table_driven_accessors(ctx, rule, P, g, Og, fns, lines, detail):
        return
    if len(templ) != 2 or not lines:
        ctx.fail(rule, "accessors#anchor-lost", "the `{}min` / `{}max` accessor templates are gone", "%s:%d" % (g.file, g.line), detail)
        return
    for ln, t in templ:
        which = "min" if t == "{}min" else "max"
        # a body line written by an expanded helper belongs to the template inside that expansion's call expression
        inside = [l for l in lines if l[2] is not None and l[2][0] <= ln <= l[2][1]]
        nxt = [l for l in lines if l[0] >= ln and l[2] is None]
        # the body line of this accessor is the first `.line(..)` after the template (and before the next template)
        other = [x[0] for x in templ if x[0] > ln]
        nxt = inside or [l for l in nxt if not other or l[0] < other[0]]
        if not nxt:
            ctx.fail(rule, "accessor:" + which, "no body line found for the *_%s accessor" % which, "%s:%d" % (g.file, ln), detail)
        elif ("Range::%s(" % which) not in nxt[0][1]:
            ctx.fail(rule, "accessor:" + which, "the *_%s accessor prints `%s` instead of range.%s()" % (which, nxt[0][1][:60], which),
                     "%s:%d" % (g.file, nxt[0][0]), detail)
        else:
            ctx.ok(rule, "accessor:" + which, {"template": t, "body": nxt[0][1][:80]})


LIMITS = {"I8": (-2 ** 7, 2 ** 7 - 1), "I16": (-2 ** 15, 2 ** 15 - 1), "I32": (-2 ** 31, 2 ** 31 - 1), "I64": (-2 ** 63, 2 ** 63 - 1),
          "U8": (0, 2 ** 8 - 1), "U16": (0, 2 ** 16 - 1), "U32": (0, 2 ** 32 - 1), "U64": (0, 2 ** 64 - 1)}


def _option_default(ex):
    """(has default, constant or None) when the expression is an Option with a fallback value"""
    e = ex
    while e[0] in ("ref", "deref", "mut", "cast"):
        e = e[2] if e[0] == "cast" else e[1]
    if e[0] == "unwrap_or":
        c = F.strip_casts(e[2])
        return True, (c[1] if c[0] == "const" else None)
    if e[0] == "call":
        nm = X.last_seg(e[1] or "")
        if nm == "unwrap_or" and len(e[3]) == 2:
            c = F.strip_casts(e[3][1])
            return True, (c[1] if c[0] == "const" else None)
        if nm == "unwrap_or_default":
            return True, 0
    return False, None


def r5(ctx):
    rule = "C15.R5"
    ctx.rule(rule, "absent bounds of an extensible INTEGER become the limits of the chosen type: where asn_extensible_integer_to_rust builds "
                   "RustType::Ixx/Uxx(Range(lo, hi, true)) from an Option with a fallback, the fallback of the lower bound is the type's MIN "
                   "and that of the upper bound the type's MAX (a fallback of 0 turns `-5..MAX,...` into the root range -5..0)")
    P = ctx.program()
    bs = [b for b in P.find("asn1rs_model", "::asn_extensible_integer_to_rust") if b.def_kind == "AssocFn"]
    if len(bs) != 1:
        ctx.fail(rule, "anchor-lost:asn_extensible_integer_to_rust", "matched %d bodies" % len(bs))
        return
    b = bs[0]
    n = 0
    for body in [b] + P.closures_of(b):
        O = X.Origins(body, P)
        for bb, j, st in body.all_statements():
            rv = st.get("rv") or {}
            if st["k"] != "assign" or rv.get("k") != "agg" or not rv.get("adt", "").endswith("rust::RustType") or rv.get("variant") not in LIMITS:
                continue
            ex = O.operand(rv["ops"][0], bb, j)
            e = ex
            while e[0] in ("ref", "deref", "mut"):
                e = e[1]
            if not (e[0] == "agg" and e[1] == "adt" and e[2].endswith("Range") and len(e[4]) >= 2):
                continue
            v = rv["variant"]
            for idx, side in ((0, "lower"), (1, "upper")):
                has, c = _option_default(e[4][idx][1])
                if not has:
                    continue
                n += 1
                want = LIMITS[v][idx]
                key = "%s#%s" % (v, side)
                detail = {"function": body.path, "variant": v, "bound": side, "fallback": c, "type_limit": want,
                          "origin": X.render(e[4][idx][1])[:120]}
                if c != want:
                    ctx.fail(rule, key, "an absent %s bound of an extensible INTEGER is recorded as %s in RustType::%s, not as the type's limit %d: "
                                        "the accessors and the printed attribute state a root range the schema does not have" % (side, c, v, want),
                             span_loc(st["sp"]), detail)
                else:
                    ctx.ok(rule, key, detail)
    ctx.floor(rule, n, "C15.R5.bounds")


def _table_driven_accessors(ctx, rule, P, g, Og, fns, lines, detail):
    """the accessors written as a loop over a literal table `[("min", range.min()), ("max", range.max())]` whose first column is
    appended to the prefix (`{}{}`) and whose second column is the body line: each row pairs the word with the same-named getter"""
    from .. import strtab as S
    rows = []
    for bb, j, s in g.all_statements():
        if s["k"] == "assign" and s["rv"]["k"] == "agg" and s["rv"].get("ak") == "array":
            ex = Og.rvalue(s["rv"], bb, j, 0)
            row = []
            for _, el in ex[4]:
                if el[0] == "agg" and el[1] == "tuple" and len(el[4]) == 2:
                    w = S.const_str(el[4][0][1], P, g.crate)
                    if w is not None:
                        row.append((w, X.render(el[4][1][1])))
            if row and len(row) == len(ex[4]):
                rows.append(row)
    rows = [r for r in rows if {w for w, _ in r} == {"min", "max"}]
    templ2 = [st["s"] for _, f in fns for st in f["strings"] if st["s"] == "{}{}"]
    # the body line prints the second column of the row that is being iterated, the name the first
    from_iter = [l for l in lines if "next(" in l[1] and (".1" in l[1])]
    if len(rows) != 1 or not templ2 or not from_iter:
        return False
    detail = dict(detail)
    detail["table"] = rows[0]
    for w, v in rows[0]:
        other = "max" if w == "min" else "min"
        if ("Range::%s(" % w) not in v or ("Range::%s(" % other) in v:
            ctx.fail(rule, "accessor:" + w, "the *_%s accessor prints `%s` instead of range.%s()" % (w, v[:60], w), "%s:%d" % (g.file, g.line), detail)
        else:
            ctx.ok(rule, "accessor:" + w, {"table_row": [w, v[:80]], "template": "{}{}"})
    return True


def r6(ctx):
    rule = "C15.R6"
    ctx.rule(rule, "an absent upper bound means MAX: wherever a guard of the width cascade of asn_fixed_integer_to_rust_type looks at the "
                   "upper bound through a fallback (unwrap_or / unwrap_or_default of range.max()), the fallback is i64::MAX - with 0, "
                   "INTEGER (1..MAX) is mapped to u8 with the range 1..0 and values the ASN.1 type permits cannot be stored")
    P = ctx.program()
    bs = [b for b in P.find("asn1rs_model", "::asn_fixed_integer_to_rust_type") if b.def_kind == "AssocFn"]
    if len(bs) != 1:
        ctx.fail(rule, "anchor-lost:asn_fixed_integer_to_rust_type", "matched %d bodies" % len(bs))
        return
    b = bs[0]
    O = X.Origins(b, P)
    bounds = {bd for side in CASCADE.values() for bd, _, _ in side}
    n = 0
    for c in F.comparisons(b, O):
        if c.switch_bb is None or c.kind != "b" or c.rhs != "" or c.boundary not in bounds or c.lex is None:
            continue
        fallbacks = []
        direct = False
        for e in X.walk(c.lex):
            if e[0] == "unwrap_or" and "Range::max(" in X.render(e[1]):
                fallbacks.append(F.rd(e[2]))
            elif e[0] == "call" and X.last_seg(e[1] or "") == "unwrap_or_default" and e[3] and "Range::max(" in X.render(e[3][0]):
                fallbacks.append("0")
            elif e[0] == "call" and X.last_seg(e[1] or "") in ("unwrap_or_else", "map_or", "map_or_else") and e[3] \
                    and "Range::max(" in X.render(e[3][0]):
                fallbacks.append("?" + X.last_seg(e[1]))
            elif e[0] in ("downcast",) and "Range::max(" in X.render(e[1]):
                direct = True
        if not fallbacks and not direct:
            continue
        n += 1
        key = "guard<%d#upper-bound-fallback" % c.boundary
        detail = {"guard": c.raw[:200], "at": c.loc, "fallbacks_of_the_upper_bound": fallbacks}
        bad = [f for f in fallbacks if f != str(2 ** 63 - 1)]
        if bad:
            ctx.fail(rule, key, "the guard with boundary %d looks at the upper bound with the fallback `%s` instead of i64::MAX: a range that "
                                "is open at the top is mapped to a type that is too narrow" % (c.boundary, bad[0]), c.loc, detail)
        else:
            ctx.ok(rule, key, detail)
    ctx.floor(rule, n, "C15.R6.guards")


def r7(ctx):
    rule = "C15.R7"
    ctx.rule(rule, "extensible INTEGERs never take the narrowing path: every call of asn_fixed_integer_to_rust_type (type definitions, "
                   "fields and the types of value references alike) lies on a path on which `range.extensible()` of that INTEGER was "
                   "tested false - a sibling that lost its extensible arm maps `INTEGER (0..255, ...)` to u8, which cannot hold the "
                   "values beyond the root the constraint permits")
    P = ctx.program()
    n = 0
    for b in P.lib_bodies("asn1rs_model"):
        if "::tests::" in b.path or "::promoted[" in b.path or b.derived:
            continue
        O = None
        for cs in b.calls():
            if cs.name != "asn_fixed_integer_to_rust_type":
                continue
            O = O or X.Origins(b, P)
            n += 1
            guarded = False
            seen = []
            for s_bb, ex, val in R.path_conditions(b, O, cs.bb):
                e = X.strip(ex)
                seen.append("%s = %s" % (X.render(e)[:60], val))
                if any(x[0] == "call" and X.last_seg(x[1] or "") == "extensible" for x in X.walk(e)) and not val:
                    guarded = True
            key = "%s#asn_fixed_integer_to_rust_type" % (b.root or b.path)
            d = {"function": b.path, "call": cs.loc(), "conditions": seen[-4:]}
            if guarded:
                ctx.ok(rule, key, d)
            else:
                ctx.fail(rule, key, "%s hands an INTEGER to asn_fixed_integer_to_rust_type without having tested that its range is not "
                                    "extensible: an extensible INTEGER gets the narrowest type of its root" % X.short(b.path), cs.loc(), d)
    ctx.floor(rule, n, "C15.R7.calls")


def run(ctx):
    r1(ctx)
    r2_r4(ctx)
    r3(ctx)
    r5(ctx)
    r6(ctx)
    r7(ctx)
    # the Range handed to the constraint writer keeps the marker of the chosen type (shared with C02 / C06 / C08)
    from .c02 import r5 as rebuilders_keep_the_marker
    rebuilders_keep_the_marker(ctx, rule="C15.R8")

"""C08 - generated Rust carries the whole model: printer / parser agreement of the attribute mini-language and provenance
of the printed constraint constants (DESIGN.md 5/C08).

Decided here: the *tables* of the two separately written programs agree (which word is printed for which model variant,
which variant the parser builds for that word, which getter a printed constant comes from).  Not decided: equality of the
re-parsed model for every argument shape (number formatting, nested lists) - that is a behavioural clause (DESIGN.md 7)."""
import re

from .. import expr as X
from .. import facts as F
from .. import rules as R
from .. import strtab as S
from ..mir import span_loc

GEN = "asn1rs-model/src/generate/rust.rs"
WALKER = "asn1rs-model/src/generate/walker.rs"
TYPE = "asn::Type"
TAG = "asn::tag::Tag"


def fn_body(ctx, rule, P, suffix, kinds=("AssocFn", "Fn")):
    bs = [b for b in P.find("asn1rs_model", suffix) if b.def_kind in kinds]
    if len(bs) != 1:
        ctx.fail(rule, "anchor-lost:" + suffix.strip(":"), "matched %d bodies for %s" % (len(bs), suffix))
        return None
    return bs[0]


def region_strings(body, blocks):
    out = []
    for bb in sorted(blocks):
        blk = body.blocks[bb]
        for s in blk["stmts"]:
            if s["k"] != "assign":
                continue
            rv = s["rv"]
            ops = [rv.get(k) for k in ("op", "l", "r", "a")] + list(rv.get("ops", []))
            for o in ops:
                if isinstance(o, dict) and o.get("k") == "const" and o.get("ty") == "&str":
                    out.append(S.unquote(o["s"]))
        t = blk["term"]
        if t and t["k"] == "call":
            for o in t["args"]:
                if o.get("k") == "const" and o.get("ty") == "&str":
                    out.append(S.unquote(o["s"]))
    return out


def region_calls(body, blocks):
    out = []
    for bb in sorted(blocks):
        t = body.blocks[bb]["term"]
        if t and t["k"] == "call" and t["func"]["k"] == "const" and t["func"].get("fn"):
            out.append(t["func"]["fn"])
    return out


def parser_type_table(P, b):
    """word -> set of asn::Type variants the attribute parser builds for it"""
    O = X.Origins(b, P)
    tests = S.str_tests(P, b, O)
    top = [t for t in tests if t.subject == tests[0].subject] if tests else []
    subject = None
    # the scrutinee of the top-level match is the parameter that most tests look at
    subj_count = {}
    for t in tests:
        subj_count[t.subject] = subj_count.get(t.subject, 0) + 1
    if subj_count:
        subject = max(subj_count, key=lambda k: subj_count[k])
    top = [t for t in tests if t.subject == subject]
    table = {}
    for t in top:
        outer = [o for o in top if o is not t and t.bb in S.true_region(b, o, top) and b.dominates(o.true_bb, t.bb)]
        if outer:
            continue        # nested re-test of the same subject: used for refinement below
        reg = S.true_region(b, t, [x for x in top])
        m = S.mentions(P, b, reg, TYPE)
        if len(m) > 1:
            # refine with nested tests of the same subject inside the arm
            nested = [n for n in top if n is not t and n.kind == "eq" and b.dominates(t.true_bb, n.bb) and n.bb in reg]
            for n in nested:
                tr = b.reach_from(n.true_bb) - b.reach_from(n.false_bb)
                fr = b.reach_from(n.false_bb) - b.reach_from(n.true_bb)
                mt, mf = S.mentions(P, b, tr & reg, TYPE), S.mentions(P, b, fr & reg, TYPE)
                if n.word == t.word and mt:
                    m = mt
                elif n.word != t.word and mf:
                    m = mf
        table.setdefault((t.kind, t.word), {"builds": set(), "loc": t.loc, "test": t})
        table[(t.kind, t.word)]["builds"] |= m
    return table, tests, subject


def r1(ctx):
    rule = "C08.R1"
    ctx.rule(rule, "T7 type vocabulary: for every asn::Type variant that RustType::into_asn can produce, the word printed by "
                   "RustCodeGenerator::asn_attribute_type is accepted by proc_macro::attribute::parse_type_pre_stepped and the arm "
                   "accepting it builds the same variant; character strings go through Debug(Charset)+lowercase on one side and "
                   "strum's lowercase EnumString on the other, and the two fixed `*_string` words are tested before the suffix rule")
    P = ctx.program()
    g = fn_body(ctx, rule, P, "RustCodeGenerator::asn_attribute_type")
    p = fn_body(ctx, rule, P, "proc_macro::attribute::parse_type_pre_stepped")
    ia = fn_body(ctx, rule, P, "RustType::into_asn")
    if not (g and p and ia):
        return
    produced = S.mentions(P, ia, ia.reachable, TYPE)
    Og = X.Origins(g, P)
    gen = {}
    arms = [a for a in R.match_tables(P, g, Og) if len(a.path) == 1]
    for a in arms:
        v = a.path[0][1]
        gen[v] = {"words": [w for w in region_strings(g, a.blocks) if re.fullmatch(r"[A-Za-z_][A-Za-z0-9_]*", w)],
                  "calls": [f["name"] for f in region_calls(g, a.blocks)], "arm": a}
    table, tests, subject = parser_type_table(P, p)
    by_word = {}
    for (kind, w), e in table.items():
        by_word.setdefault(w, []).append((kind, e))
    ctx.analysed["C08.R1"] = {"into_asn_produces": sorted(produced), "generator_arms": len(gen),
                              "parser_words": sorted("%s:%s" % k for k in table)}
    # does the parser lower-case the identifier before matching?
    pt = fn_body(ctx, rule, P, "proc_macro::attribute::parse_type")
    lowers = bool(pt) and any(cs.name == "to_lowercase" for cs in pt.calls())
    n = 0
    for v in sorted(produced):
        key = "Type::" + v
        ga = gen.get(v)
        if ga is None:
            ctx.fail(rule, key, "RustType::into_asn can produce Type::%s but asn_attribute_type has no arm printing it" % v,
                     "%s:%d" % (g.file, g.line))
            continue
        n += 1
        if v == "String":
            continue        # handled below
        # the word: the identifier literal of the arm that is not one of the range words
        words = [w for w in ga["words"] if w not in ("min", "max")]
        detail = {"variant": v, "printed": words}
        if len(set(words)) != 1:
            ctx.fail(rule, key, "cannot determine the single word printed for Type::%s (found %s)" % (v, words),
                     "%s:%d" % (g.file, g.line), detail)
            continue
        w = words[0]
        cands = by_word.get(w) or (by_word.get(w.lower()) if lowers else None)
        if not cands:
            near = sorted(x for x in by_word if x[:4] == w[:4] or x.replace("_", "") == w.replace("_", ""))
            ctx.fail(rule, key, "the generator prints `%s` for Type::%s but the attribute parser has no arm for that word%s: the "
                                "generated file does not compile back" % (w, v, (" (near: %s)" % near) if near else ""),
                     "%s:%d" % (g.file, g.line), detail)
            continue
        builds = set()
        for kind, e in cands:
            if kind == "eq":
                builds |= e["builds"]
        detail["parser_builds"] = sorted(builds)
        detail["parser_at"] = cands[0][1]["loc"]
        if builds != {v}:
            ctx.fail(rule, key, "the generator prints `%s` for Type::%s but the parser builds %s for `%s`: the re-read model is a "
                                "different type" % (w, v, sorted(builds) or "nothing", w), cands[0][1]["loc"], detail)
        else:
            ctx.ok(rule, key, detail)
    ctx.floor(rule, n, "C08.R1.variants")
    # character strings
    if "String" in produced and "String" in gen:
        ga = gen["String"]
        templ = [s["s"] for _, f in ctx.src().fns(path=GEN, name="asn_attribute_type") for s in f["strings"] if s["ctx"].startswith("macro:format")]
        suffix = [t[len("{:?}"):] for t in templ if t.startswith("{:?}")]
        arm_calls = ga["calls"]
        debug_of = []
        for cs in g.calls():
            if cs.name == "new_debug" and cs.bb in ga["arm"].blocks:
                debug_of.append(cs.term.get("argtys", [""])[0])
        ends = [(k, e) for (k, w), e in table.items() if k == "ends_with"]
        cs_enum = ctx.src().enum("asn1rs-model/src/asn/charset.rs", "Charset")
        detail = {"templates": suffix, "arm_calls": sorted(set(arm_calls)), "debug_of": debug_of,
                  "parser_suffix_tests": [(e["test"].word, sorted(e["builds"])) for k, e in ends],
                  "charset_derives": cs_enum and cs_enum.get("derives"), "charset_attrs": cs_enum and cs_enum.get("attrs")}
        probs = []
        if len(suffix) != 1:
            probs.append("no single `{:?}<suffix>` template in asn_attribute_type")
        if not any("Charset" in d for d in debug_of):
            probs.append("the String arm does not print Debug(Charset)")
        if "to_lowercase" not in arm_calls:
            probs.append("the String arm does not lower-case the printed charset name")
        if not ends:
            probs.append("the parser has no suffix rule for character strings")
        else:
            e = ends[0][1]
            if suffix and e["test"].word != suffix[0].lower():
                probs.append("the generator appends `%s` to the charset name, the parser strips `%s`" % (suffix[0], e["test"].word))
            if e["builds"] != {"String"}:
                probs.append("the suffix rule builds %s" % sorted(e["builds"]))
            reg = S.true_region(p, e["test"], tests)
            fs = [f for f in region_calls(p, reg) if f["name"] == "from_str" and "Charset" in (f.get("full") or f.get("resolved") or "")]
            if not fs:
                probs.append("the suffix rule does not look the charset up with Charset::from_str")
            # the stripped length must be the length of the tested suffix
            strs = [w for w in region_strings(p, reg) if w == e["test"].word]
            if not strs:
                probs.append("the prefix is not cut by the length of `%s`" % e["test"].word)
            # fixed words that end with the suffix must be tested first
            for (k, w), fe in table.items():
                if k == "eq" and w.endswith(e["test"].word) and "String" not in fe["builds"]:
                    if not p.dominates(fe["test"].bb, e["test"].bb):
                        probs.append("`%s` is not tested before the `*%s` suffix rule and would be read as a character string"
                                     % (w, e["test"].word))
        if cs_enum is None:
            probs.append("enum Charset not found")
        else:
            der = " ".join(cs_enum.get("derives") or [])
            attrs = " ".join(cs_enum.get("attrs") or [])
            if "EnumString" not in der:
                probs.append("Charset does not derive strum::EnumString")
            if not re.search(r"serialize_all\s*=\s*\"lowercase\"", attrs):
                probs.append("Charset is not parsed with serialize_all = \"lowercase\" although the generator prints it lower-cased")
            if "Debug" not in der:
                probs.append("Charset does not derive Debug (the variant name is what the generator prints)")
        if probs:
            ctx.fail(rule, "Type::String", "; ".join(probs), "%s:%d" % (g.file, g.line), detail)
        else:
            ctx.ok(rule, "Type::String", detail)


def r2(ctx):
    rule = "C08.R2"
    ctx.rule(rule, "T7 definition header: (Rust variant, ordering) -> word printed by add_definition -> handler / constructor "
                   "selected by parse_asn_definition -> asn::Type -> (Rust variant, ordering) built by definition_to_rust is the "
                   "identity; attribute words tag / extensible_after / const and the tag classes agree between "
                   "asn_attribute* and AsnAttribute::parse / AttrTag::parse")
    P = ctx.program()
    g = fn_body(ctx, rule, P, "RustCodeGenerator::add_definition")
    p = fn_body(ctx, rule, P, "proc_macro::parse_asn_definition", kinds=("Fn",))
    d2r = fn_body(ctx, rule, P, "::definition_to_rust")
    if not (g and p and d2r):
        return
    Og = X.Origins(g, P)
    # generator: (variant[, ordering]) -> word
    gen = {}
    arms = R.match_tables(P, g, Og)
    tops = {a.path[0][1]: a for a in arms if len(a.path) == 1}
    for a in arms:
        names = tuple(v for _, v in a.path)
        if len(a.path) == 1 and any(len(x.path) == 2 and x.path[0][1] == names[0] for x in arms):
            continue
        ws = []
        for f, cs in [(f, c) for c in g.calls() for f in [c.fn] if f and f["name"] == "asn_attribute" and c.bb in tops[names[0]].blocks]:
            a0 = Og.call_args(cs)[0]
            alts = a0[1] if a0[0] == "phi" else (a0,)
            ws.extend(w for w in (S.const_str(x, P, g.crate) for x in alts) if w)
        here = [w for w in region_strings(g, a.blocks) if w in ws]
        gen[names] = sorted(set(here))
    # parser: word -> handler, constructor
    Op = X.Origins(p, P)
    tests = S.str_tests(P, p, Op)
    par = {}
    for t in tests:
        reg = S.true_region(p, t, tests)
        handlers = [f["name"] for f in region_calls(p, reg) if f.get("local") and f["name"].startswith("parse_")]
        ctor = S.mentions(P, p, reg, TYPE)
        built = set(ctor)
        for h in handlers:
            hb = [b for b in P.find("asn1rs_model", "proc_macro::" + h) if b.def_kind == "Fn"]
            for b in hb:
                built |= S.mentions(P, b, b.reachable, TYPE, depth=1)
        par[t.word] = {"handlers": handlers, "ctor": sorted(ctor), "builds": built, "kind": t.kind, "loc": t.loc}
    # to_rust: asn variant -> (Rust variant, ordering)
    Od = X.Origins(d2r, P)
    t2r = {}
    for a in R.match_tables(P, d2r, Od):
        if len(a.path) != 1:
            continue
        e = R.arm_effects(P, d2r, a, Od)
        rv = sorted({x.split("::")[1] for x in e["aggs"] if x.startswith("Rust::")})
        od = sorted({x.split("::")[1] for x in e["aggs"] if x.startswith("EncodingOrdering::")})
        t2r[a.path[0][1]] = (rv, od)
    ctx.analysed["C08.R2"] = {"generator": {"/".join(k): v for k, v in gen.items()}, "parser": {k: v["handlers"] + v["ctor"] for k, v in par.items()},
                              "to_rust": {k: v for k, v in t2r.items() if v[0]}}
    n = 0
    for names, words in sorted(gen.items()):
        key = "/".join(names)
        detail = {"rust": key, "printed": words}
        if len(words) != 1:
            ctx.fail(rule, key, "cannot determine the word printed for Rust::%s (found %s)" % (key, words), "%s:%d" % (g.file, g.line), detail)
            continue
        w = words[0]
        pe = par.get(w) or par.get(w.lower())
        if pe is None:
            ctx.fail(rule, key, "add_definition prints `%s` for Rust::%s but parse_asn_definition has no case for it: the definition "
                                "is silently left as a plain Rust item" % (w, key), "%s:%d" % (g.file, g.line), detail)
            continue
        n += 1
        detail["parser"] = {"handlers": pe["handlers"], "ctor": pe["ctor"], "at": pe["loc"]}
        # which asn types map back to this Rust shape
        back = sorted(v for v, (rv, od) in t2r.items() if rv == [names[0]] and (len(names) == 1 or od == [names[1]]))
        detail["asn_types_mapping_to_this_shape"] = back
        if names[0] == "TupleStruct":
            ok = "parse_transparent" in pe["handlers"]
            why = "`%s` is handled by %s, not parse_transparent" % (w, pe["handlers"])
        else:
            if not back:
                ctx.fail(rule, key, "definition_to_rust has no arm that builds Rust::%s" % key, "%s:%d" % (d2r.file, d2r.line), detail)
                continue
            want = set(back)
            got = set(pe["ctor"]) or {v for v in pe["builds"] if v in t2r and t2r[v][0] and t2r[v][0] != ["TupleStruct"]}
            ok = got == want
            why = "`%s` is printed for Rust::%s (from Type::%s) but the parser builds Type::%s for it" % (w, key, "/".join(back), "/".join(sorted(got)) or "?")
        if ok:
            ctx.ok(rule, key, detail)
        else:
            ctx.fail(rule, key, why, pe["loc"], detail)
    ctx.floor(rule, n, "C08.R2.headers")

    # attribute words
    src = ctx.src()
    words = {}
    # every helper of the attribute printer (`asn_attribute`, `asn_attribute_tag`, .. and whatever a refactoring splits off them)
    for _, f in src.fns(path=GEN):
        fname = f["name"]
        if fname.startswith("asn_attribute") and fname != "asn_attribute_type" and "RustCodeGenerator" in (f.get("impl") or ""):
            for s in f["strings"]:
                if s["ctx"].startswith("macro:format"):
                    m = re.match(r"#?\[?([a-z_]+)\(", s["s"])
                    if m:
                        words.setdefault(m.group(1), []).append((fname, s["s"], s["line"]))
    ap = [b for b in P.find("asn1rs_model", "::parse") if b.def_kind == "AssocFn" and "AsnAttribute" in (b.impl_self_ty or "")]
    if len(ap) != 1:
        ctx.fail(rule, "anchor-lost:AsnAttribute::parse", "matched %d bodies" % len(ap))
        return
    ap = ap[0]
    accepted = {}
    for body in [ap] + P.closures_of(ap):
        for t in S.str_tests(P, body):
            accepted[t.word] = t
    idx = fn_body(ctx, rule, P, "proc_macro::index_of_first_asn_attribute", kinds=("Fn",))
    attr_names = set()
    if idx:
        for body in [idx] + P.closures_of(idx):
            attr_names |= set(region_strings(body, body.reachable))
            for t in S.str_tests(P, body):
                attr_names.add(t.word)
    m = 0
    for w, uses in sorted(words.items()):
        if w == "asn":
            ok = "asn" in attr_names
            what = "the generator writes `#[asn(..)]` but the macro looks for attribute %s" % sorted(attr_names)
        else:
            ok = w in accepted
            what = "the generator prints `%s(..)` (%s) but AsnAttribute::parse accepts only %s" % (w, uses[0][0], sorted(accepted))
        m += 1
        if ok:
            ctx.ok(rule, "attr:" + w, {"printed_by": uses[0][0], "template": uses[0][1]})
        else:
            ctx.fail(rule, "attr:" + w, what, "%s:%d" % (GEN, uses[0][2]), {"templates": uses})
    ctx.floor(rule, m, "C08.R2.attr_words")

    # tag classes
    gt = fn_body(ctx, rule, P, "RustCodeGenerator::asn_attribute_tag")
    tp = [b for b in P.find("asn1rs_model", "::parse") if b.def_kind == "AssocFn" and "AttrTag" in (b.impl_self_ty or "")]
    if not gt or len(tp) != 1:
        ctx.fail(rule, "anchor-lost:AttrTag::parse", "matched %d bodies" % len(tp))
        return
    tp = tp[0]
    fsrc = [f for _, f in src.fns(path=GEN, name="asn_attribute_tag")]
    templ, args = S.format_sites(fsrc[0], [gt], P) if fsrc else ([], [])
    al = S.align(templ, args, P)
    Ot = X.Origins(gt, P)
    tarms = {a.path[0][1]: a for a in R.match_tables(P, gt, Ot) if len(a.path) == 1}
    if al is None or not tarms:
        ctx.fail(rule, "anchor-lost:asn_attribute_tag", "templates and printed arguments cannot be aligned", "%s:%d" % (gt.file, gt.line),
                 {"templates": templ, "arguments": [a[1] for a in args]})
        return
    # parser classes
    pcls = {}
    ctx_spec = set()
    for body in [tp] + P.closures_of(tp):
        ts = S.str_tests(P, body)
        for t in ts:
            pcls[t.word] = S.mentions(P, body, S.true_region(body, t, ts), TAG)
        allm = S.mentions(P, body, body.reachable, TAG)
        ctx_spec |= allm
    k = 0
    for line, t, a in al:
        # which arm prints this template: the block of the argument's formatting call
        arg = a[0]
        arm = None
        for v, am in tarms.items():
            for cs in gt.calls():
                if cs.name in ("new_display", "new_debug") and cs.bb in am.blocks and F.rd(Ot.call_args(cs)[0]) == arg[1]:
                    arm = v
        mm = re.fullmatch(r"tag\((?:(\w+)\()?\{\}\)?\)", t)
        if arm is None or mm is None:
            ctx.fail(rule, "tag:" + t, "tag template `%s` cannot be attributed to a Tag variant" % t, "%s:%d" % (GEN, line))
            continue
        k += 1
        cls = mm.group(1)
        detail = {"variant": arm, "template": t, "printed_from": arg[1]}
        if ("as %s).0" % arm) not in arg[1]:
            ctx.fail(rule, "tag:" + arm, "the number printed for Tag::%s is `%s`, not the variant's payload" % (arm, arg[1]), "%s:%d" % (GEN, line), detail)
            continue
        if cls is None:
            built = ctx_spec - set().union(*pcls.values()) if pcls else ctx_spec
            detail["parser_builds_for_bare_number"] = sorted(built)
            if built != {arm}:
                ctx.fail(rule, "tag:" + arm, "`tag(N)` is printed for Tag::%s but a bare number is read as %s" % (arm, sorted(built)), "%s:%d" % (GEN, line), detail)
            else:
                ctx.ok(rule, "tag:" + arm, detail)
            continue
        got = pcls.get(cls.lower())
        detail["parser_builds"] = sorted(got or [])
        if got is None:
            ctx.fail(rule, "tag:" + arm, "tag class `%s` is printed for Tag::%s but AttrTag::parse does not know it (knows %s)" % (cls, arm, sorted(pcls)),
                     "%s:%d" % (GEN, line), detail)
        elif got != {arm}:
            ctx.fail(rule, "tag:" + arm, "tag class `%s` is printed for Tag::%s but read back as Tag::%s" % (cls, arm, "/".join(sorted(got))),
                     "%s:%d" % (GEN, line), detail)
        else:
            ctx.ok(rule, "tag:" + arm, detail)
    ctx.floor(rule, k, "C08.R2.tag_classes")


RANGE_WORDS = {"min": "min", "max": "max"}


def r3(ctx):
    rule = "C08.R3"
    ctx.rule(rule, "T6 provenance of printed constraints: in asn_attribute_type the lower bound is printed from range.min() with "
                   "fallback word `min`, the upper from range.max() with `max`, in this order, the extension marker from "
                   "range.extensible(); Size::to_constraint_string prints min()/max() in this order; the walker's constraint impls "
                   "print MIN/MIN_T from min(), MAX/MAX_T from max(), EXTENSIBLE from extensible(), VARIANT_COUNT from len(); "
                   "proc_macro range/size parsers map the words min / max to the absent bound on the same side")
    P = ctx.program()
    src = ctx.src()
    n = 0
    # --- generator: integer(min..max,...)
    g = fn_body(ctx, rule, P, "RustCodeGenerator::asn_attribute_type")
    if g:
        fsrc = [f for _, f in src.fns(path=GEN, name="asn_attribute_type")]
        bodies = [g] + P.closures_of(g)
        templ, args = S.format_sites(fsrc[0], bodies, P)
        # only the range template matters; the other templates are aligned to keep the pairing honest
        al = S.align(templ, args, P)
        if al is None:
            ctx.fail(rule, "anchor-lost:asn_attribute_type#format", "templates and printed arguments cannot be aligned",
                     "%s:%d" % (g.file, g.line), {"templates": templ, "arguments": [a[1] for a in args]})
        else:
            rt = [x for x in al if x[1].count("..") == 1 and len(x[2]) >= 2]
            if len(rt) != 1:
                ctx.fail(rule, "anchor-lost:range-template", "no `{}..{}` template in asn_attribute_type", "%s:%d" % (g.file, g.line))
            else:
                line, t, a = rt[0]
                for pos, getter in ((0, "min"), (1, "max")):
                    n += 1
                    d = a[pos][1]
                    detail = {"template": t, "position": pos, "printed_from": d[:200]}
                    # fallback word: the closure given to unwrap_or_else
                    fb = fallback_word(P, g, a[pos][3])
                    detail["fallback_word"] = fb
                    other = "max" if getter == "min" else "min"
                    if ("Range::<T>::%s(" % getter) not in d.replace("Range::%s(" % getter, "Range::<T>::%s(" % getter) or \
                            re.search(r"Range(::<T>)?::%s\(" % other, d):
                        ctx.fail(rule, "integer-range#%s" % getter, "position %d of `%s` is printed from `%s`, not from range.%s()"
                                 % (pos, t, d[:100], getter), "%s:%d" % (GEN, line), detail)
                    elif fb != getter:
                        ctx.fail(rule, "integer-range#%s" % getter, "an absent %s bound is printed as `%s`" % (getter, fb), "%s:%d" % (GEN, line), detail)
                    else:
                        ctx.ok(rule, "integer-range#%s" % getter, detail)
                n += 1
                marker(ctx, rule, "integer-range#extensible", P, g, ",...", lambda c: "extensible(" in c)
    # --- Size::to_constraint_string
    sb = [b for b in P.find("asn1rs_model", "::to_constraint_string") if b.def_kind == "AssocFn"]
    if len(sb) != 1:
        ctx.fail(rule, "anchor-lost:to_constraint_string", "matched %d bodies" % len(sb))
    else:
        sb = sb[0]
        fsrc = [f for _, f in src.fns(path="asn1rs-model/src/asn/size.rs", name="to_constraint_string")]
        templ, args = S.format_sites(fsrc[0], [sb] + P.closures_of(sb), P)
        al = S.align(templ, args, P)
        Osb = X.Origins(sb, P)
        arms = {a.path[0][1]: a for a in R.match_tables(P, sb, Osb) if len(a.path) == 1}
        if al is None:
            ctx.fail(rule, "anchor-lost:to_constraint_string#format", "templates and printed arguments cannot be aligned",
                     "%s:%d" % (sb.file, sb.line), {"templates": templ, "arguments": [a[1] for a in args]})
        else:
            for line, t, a in al:
                ds = [x[1] for x in a]
                detail = {"template": t, "printed_from": [d[:120] for d in ds]}
                if ".." in t:
                    n += 1
                    # size(min..max ext): Range variant fields 0, 1 in order
                    if len(ds) < 2 or not (ds[0].endswith(".0") and ds[1].endswith(".1")) or ds[0][:-2] != ds[1][:-2]:
                        ctx.fail(rule, "size#range", "`%s` is printed from %s, not from the variant's (min, max) in this order" % (t, ds[:2]),
                                 "%s:%d" % (sb.file, line), detail)
                    else:
                        ctx.ok(rule, "size#range", detail)
                else:
                    n += 1
                    if not ds or not ds[0].endswith(".0"):
                        ctx.fail(rule, "size#fix", "`%s` is printed from %s" % (t, ds[:1]), "%s:%d" % (sb.file, line), detail)
                    else:
                        ctx.ok(rule, "size#fix", detail)

        n += 1
        marker(ctx, rule, "size#extensible", P, sb, ",...", lambda c: re.search(r" as (Fix|Range)\)\.(1|2)$", c) is not None, expect=2)
    # --- walker constants
    for fname, table in (("write_integer_constraint_type", {"MIN": "min", "MIN_T": "min", "MAX": "max", "MAX_T": "max", "EXTENSIBLE": "extensible"}),
                         ("write_size_constraint", {"MIN": "min", "MAX": "max", "EXTENSIBLE": "extensible"})):
        b = fn_body(ctx, rule, P, "AsnDefWriter::" + fname)
        if not b:
            continue
        fsrc = [f for _, f in src.fns(path=WALKER, name=fname)]
        templ, args = S.format_sites(fsrc[0], [b] + P.closures_of(b), P)
        al = S.align(templ, args, P)
        if al is None:
            ctx.fail(rule, "anchor-lost:%s#format" % fname, "templates and printed arguments cannot be aligned", "%s:%d" % (b.file, b.line),
                     {"templates": templ, "arguments": [a[1] for a in args]})
            continue
        seen = set()
        for line, t, a in al:
            m = re.search(r"const (\w+):", t)
            if not m:
                continue
            c = m.group(1)
            want = table.get(c)
            if want is None:
                continue
            n += 1
            seen.add(c)
            d = a[-1][1]
            detail = {"function": fname, "constant": c, "template": t, "printed_from": d[:160]}
            others = {"min", "max", "extensible"} - {want}
            if not re.search(r"::%s\(" % want, d) or any(re.search(r"::%s\(" % o, d) for o in others):
                ctx.fail(rule, "%s#%s" % (fname, c), "constant %s is printed from `%s`, not from %s()" % (c, d[:100], want),
                         "%s:%d" % (WALKER, line), detail)
            else:
                ctx.ok(rule, "%s#%s" % (fname, c), detail)
        for c in sorted(set(table) - seen):
            ctx.fail(rule, "%s#%s" % (fname, c), "constant %s is no longer printed by %s: the descriptor falls back to the trait default "
                                               "(unconstrained)" % (c, fname), "%s:%d" % (b.file, b.line))
    for fname, table in (("write_enumerated_constraint", {"VARIANT_COUNT": r"len\(", "STD_VARIANT_COUNT": r"(extension_after|len\()",
                                                         "EXTENSIBLE": r"(is_extensible|extension_after)"}),
                         ("write_choice_constraint", {"VARIANT_COUNT": r"len\(", "STD_VARIANT_COUNT": r"(extension_after|len\()",
                                                      "EXTENSIBLE": r"(is_extensible|extension_after)"})):
        b = fn_body(ctx, rule, P, "AsnDefWriter::" + fname)
        if not b:
            continue
        fsrc = [f for _, f in src.fns(path=WALKER, name=fname)]
        templ, args = S.format_sites(fsrc[0], [b] + P.closures_of(b), P)
        al = S.align(templ, args, P)
        if al is None:
            ctx.fail(rule, "anchor-lost:%s#format" % fname, "templates and printed arguments cannot be aligned", "%s:%d" % (b.file, b.line),
                     {"templates": [t[2] for t in templ], "arguments": [a[1][:60] for a in args]})
            continue
        seen = set()
        for line, t, a in al:
            for m in re.finditer(r"const (\w+):[^;]*?(\{[^{}]*\})", t):
                c = m.group(1)
                if c not in table:
                    continue
                # index of this placeholder within the template
                idx = len(S.placeholders(t[:m.start(2)]))
                d = a[idx][1]
                n += 1
                seen.add(c)
                detail = {"function": fname, "constant": c, "printed_from": d[:160]}
                if c == "STD_VARIANT_COUNT":
                    # index of the last root variant + 1, or all of them
                    ops = {}
                    for cb in P.closures_of(b):
                        for (op, val, pos), locs in F.const_ops(cb, X.Origins(cb, P)).items():
                            ops[(op, val)] = locs
                    detail["closure_arithmetic"] = sorted("%s %s" % k for k in ops)
                    if ("Add", 1) not in ops:
                        ctx.fail(rule, "%s#%s" % (fname, c), "STD_VARIANT_COUNT is not `extension_after_index + 1` (closure arithmetic: %s)"
                                 % sorted(ops), "%s:%d" % (WALKER, line), detail)
                        continue
                if not re.search(table[c], d):
                    ctx.fail(rule, "%s#%s" % (fname, c), "constant %s is printed from `%s`" % (c, d[:100]), "%s:%d" % (WALKER, line), detail)
                else:
                    ctx.ok(rule, "%s#%s" % (fname, c), detail)
        for c in sorted(set(table) - seen):
            ctx.fail(rule, "%s#%s" % (fname, c), "constant %s is no longer printed by %s" % (c, fname), "%s:%d" % (b.file, b.line))
    # --- parser side: words min / max are accepted (the arm they select can return Ok)
    for suffix, label in (("proc_macro::range::MMV", "range"), ("proc_macro::size::value", "size")):
        bs = [b for b in P.bodies.values() if b.crate == "asn1rs_model" and suffix in b.path and b.def_kind in ("Fn", "AssocFn", "Closure")]
        found = {}
        for b in bs:
            okr = F.ok_reaching(b)
            for t in S.str_tests(P, b):
                found[t.word] = (t.true_bb in okr, t.loc)
        for w in ("min", "max"):
            n += 1
            e = found.get(w)
            if e is None or not e[0]:
                ctx.fail(rule, "%s-parser#%s" % (label, w), "the %s parser does not accept the word `%s` (accepted: %s)" % (label, w, sorted(found)),
                         e[1] if e else "?")
            else:
                ctx.ok(rule, "%s-parser#%s" % (label, w), {"word": w, "at": e[1]}, nontrivial=False)
    ctx.floor(rule, n, "C08.R3.sites")


def marker(ctx, rule, key, P, body, text, cond_ok, expect=1):
    """the literal `text` is printed exactly on the true side of a condition accepted by `cond_ok`"""
    O = X.Origins(body, P)
    sites = S.literal_sites(body, text)
    detail = {"function": body.path, "literal": text, "sites": []}
    probs = []
    for bb in sites:
        cb = S.controlling_branch(body, O, bb)
        if cb is None:
            probs.append("`%s` is printed unconditionally" % text)
            continue
        s, ex, on_true = cb
        c = F.rd(R.positional(ex))
        detail["sites"].append({"condition": c[:120], "printed_when": on_true})
        if not cond_ok(c):
            probs.append("`%s` is printed under the condition `%s`" % (text, c[:80]))
        elif not on_true:
            probs.append("`%s` is printed when `%s` is false" % (text, c[:80]))
    if len(sites) < expect:
        probs.append("`%s` is printed at %d place(s), expected %d" % (text, len(sites), expect))
    if probs:
        ctx.fail(rule, key, "; ".join(probs), "%s:%d" % (body.file, body.line), detail)
    else:
        ctx.ok(rule, key, detail)


def fallback_word(P, g, origin):
    """word printed instead of an absent bound: the literal of `.unwrap_or_else(|| "w".to_string())` or the literal
    alternative of `match bound { Some(v) => v.to_string(), None => "w".to_string() }` in a printed origin expression"""
    words = []

    def visit(e):
        if not isinstance(e, tuple):
            return
        if e and e[0] == "agg" and len(e) > 2 and e[1] == "closure":
            cb = P.bodies.get("%s::%s" % (g.crate, e[2]))
            if cb is not None:
                words.extend(region_strings(cb, cb.reachable))
        if e and e[0] in ("constx", "promoted"):
            w = S.const_str(e, P, g.crate)
            if w is not None:
                words.append(w)
        for x in e:
            if isinstance(x, tuple):
                visit(x)

    visit(origin)
    ws = sorted(set(words))
    return ws[0] if len(ws) == 1 else (ws or None)


INT_VARIANTS = ("I8", "U8", "I16", "U16", "I32", "U32", "I64", "U64")


def r4(ctx):
    rule = "C08.R4"
    ctx.rule(rule, "model conversion tables are inverse: for every asn::Type variant A that definition_type_to_rust_type maps to "
                   "RustType R (with ordering o), RustType::into_asn maps (R, o) back to exactly A; the integer arms of into_asn "
                   "build Range(min, max, extensible) from the variant's fields in this order")
    P = ctx.program()
    ia = fn_body(ctx, rule, P, "RustType::into_asn")
    tr = fn_body(ctx, rule, P, "::definition_type_to_rust_type")
    if not (ia and tr):
        return
    Oi = X.Origins(ia, P)
    back = {}
    arms_i = R.match_tables(P, ia, Oi)
    for a in arms_i:
        names = tuple(v for _, v in a.path)
        back[names] = S.mentions(P, ia, a.blocks, TYPE)
    Ot = X.Origins(tr, P)
    n = 0
    for a in R.match_tables(P, tr, Ot):
        if len(a.path) != 1:
            continue
        A = a.path[0][1]
        rts = S.mentions(P, tr, a.blocks, "rust::RustType")
        ords = S.mentions(P, tr, a.blocks, "rust::EncodingOrdering")
        if not rts:
            continue
        n += 1
        detail = {"asn": A, "rust_type": sorted(rts), "ordering": sorted(ords)}
        if len(rts) != 1 or len(ords) > 1:
            ctx.fail(rule, "Type::" + A, "Type::%s is mapped to %s / %s" % (A, sorted(rts), sorted(ords)), "%s:%d" % (tr.file, tr.line), detail)
            continue
        Rv = next(iter(rts))
        key = (Rv,) + tuple(ords)
        got = back.get(key)
        if got is None and ords:
            got = back.get((Rv,))
        detail["into_asn"] = sorted(got or [])
        if got != {A}:
            ctx.fail(rule, "Type::" + A, "Type::%s becomes RustType::%s, which into_asn turns back into Type::%s: the generated "
                                         "attribute names a different type" % (A, "/".join(key), "/".join(sorted(got or ["?"]))),
                     "%s:%d" % (ia.file, ia.line), detail)
        else:
            ctx.ok(rule, "Type::" + A, detail)
    ctx.floor(rule, n, "C08.R4.pairs")
    k = 0
    for a in arms_i:
        if len(a.path) != 1 or a.path[0][1] not in INT_VARIANTS:
            continue
        v = a.path[0][1]
        found = None
        for bb in sorted(a.blocks):
            for j, st in enumerate(ia.blocks[bb]["stmts"]):
                if st["k"] == "assign" and st["rv"]["k"] == "agg" and st["rv"].get("ak") == "adt" and st["rv"]["adt"].endswith("range::Range"):
                    found = [F.rd(R.positional(Oi.operand(o, bb, j))) for o in st["rv"]["ops"]]
        k += 1
        detail = {"variant": v, "range_fields": found}
        if not found or len(found) != 3:
            ctx.fail(rule, "into_asn#" + v, "arm %s does not build Range(min, max, extensible)" % v, "%s:%d" % (ia.file, ia.line), detail)
            continue
        if v == "U64":
            want = [r"::min\(", r"::max\(", r"::extensible\("]
        else:
            want = [r"as %s\)\.0\.0" % v, r"as %s\)\.0\.1" % v, r"as %s\)\.0\.2" % v]
        ok = all(re.search(w, f) for w, f in zip(want, found)) and \
            not any(re.search(w, f) for i, f in enumerate(found) for q, w in enumerate(want) if q != i)
        if not ok:
            ctx.fail(rule, "into_asn#" + v, "Range of RustType::%s is rebuilt from %s; expected (min, max, extensible) in this order" % (v, found),
                     "%s:%d" % (ia.file, ia.line), detail)
        else:
            ctx.ok(rule, "into_asn#" + v, detail)
    ctx.floor(rule, k, "C08.R4.int_arms")


def walk_outside_closures(ex):
    """sub-expressions of an origin that are evaluated unconditionally: does not descend into closures handed to combinators"""
    if not isinstance(ex, tuple) or not ex:
        return
    if ex[0] == "agg" and len(ex) > 1 and ex[1] == "closure":
        return
    yield ex
    for x in ex[1:]:
        if isinstance(x, tuple):
            if x and isinstance(x[0], str):
                yield from walk_outside_closures(x)
            else:
                for y in x:
                    if isinstance(y, tuple):
                        if y and isinstance(y[0], str):
                            yield from walk_outside_closures(y)
                        else:
                            for z in y:
                                if isinstance(z, tuple):
                                    yield from walk_outside_closures(z)


def r5(ctx):
    rule = "C08.R5"
    ctx.rule(rule, "parsed extension marker reaches the model on every path: the Range handed to Type::integer_with_range_opt by the "
                   "attribute parser depends on IntegerRange.1 (the `,...` flag) outside of any closure passed to map / and_then, "
                   "so `integer(min..max,...)` keeps the marker although it has no bounded range")
    P = ctx.program()
    p = fn_body(ctx, rule, P, "proc_macro::attribute::parse_type_pre_stepped")
    if not p:
        return
    O = X.Origins(p, P)
    sites = [cs for cs in p.calls() if cs.name in ("integer_with_range_opt", "integer_with_range")]
    # `parse_range(input).map(Type::integer_with_range_opt)`: the constructor handed to a combinator as a function item
    by_item = [cs for cs in p.calls() if any(a.get("k") == "const" and "integer_with_range" in (a.get("ty") or "") for a in cs.args)]
    if not sites and not by_item:
        ctx.fail(rule, "anchor-lost:integer_with_range_opt", "the integer arm no longer builds the type through integer_with_range_opt",
                 "%s:%d" % (p.file, p.line))
        return
    def is_flag(e):
        return e[0] == "field" and e[2] == "1" and any(x[0] == "call" and "IntegerRange" in x[1] for x in X.walk(e[1]))

    # every type returned after the range was parsed carries the flag (an arm for the unbounded range that returns the plain
    # unconstrained type drops it)
    parses = [cs for cs in p.calls() if cs.name == "parse" and "IntegerRange" in (cs.callee or "")]
    if not parses:
        ctx.fail(rule, "anchor-lost:IntegerRange::parse", "the integer arm no longer calls IntegerRange::parse", "%s:%d" % (p.file, p.line))
    checked = 0
    for pc in parses:
        if pc.target is None:
            continue

        def depends(e):
            e = X.strip(e)
            if e[0] == "phi":
                return all(depends(a) for a in e[1])
            return any(is_flag(x) for x in walk_outside_closures(e))
        for bb, j, st in p.all_statements():
            rv = st.get("rv") or {}
            if st["k"] == "assign" and rv.get("k") == "agg" and rv.get("adt", "").endswith("result::Result") and rv.get("variant") == "Ok" \
                    and p.dominates(pc.target, bb) and ("Type" in (st.get("pty") or "") or "Range<" in (st.get("pty") or "")):
                checked += 1
                payload = O.operand(rv["ops"][0], bb, j)
                d = {"returned": F.rd(payload)[:200], "at": span_loc(st["sp"])}
                if depends(payload):
                    ctx.ok(rule, "integer#returned-type", d)
                else:
                    ctx.fail(rule, "integer#extensible-dropped-on-a-path", "after the range was parsed the attribute parser returns `%s`, which does "
                                                                           "not depend on the parsed `,...` flag: `integer(min..max,...)` is read back "
                                                                           "as not extensible" % F.rd(payload)[:80], span_loc(st["sp"]), d)
    if not sites and not checked:
        ctx.fail(rule, "anchor-lost:returned-range", "no Range / Type is returned after IntegerRange::parse", "%s:%d" % (p.file, p.line))
    for cs in sites:
        a = O.call_args(cs)[0]
        everywhere = any(is_flag(e) for e in X.walk(a))
        uncond = any(is_flag(e) for e in walk_outside_closures(a))
        detail = {"argument": F.rd(a)[:300], "flag_used": everywhere, "flag_used_outside_closures": uncond}
        if not everywhere:
            ctx.fail(rule, "integer#extensible-dropped", "the Range built for `integer(..)` does not depend on the parsed `,...` flag", cs.loc(), detail)
        elif not uncond:
            ctx.fail(rule, "integer#extensible-conditional", "the parsed `,...` flag reaches the Range only inside a closure (bounded ranges): "
                                                             "`integer(min..max,...)` is read back as not extensible", cs.loc(), detail)
        else:
            ctx.ok(rule, "integer#extensible", detail)


def r6(ctx):
    rule = "C08.R6"
    ctx.rule(rule, "one extension flag per parse: every IntegerRange(..) value that proc_macro::range::IntegerRange::parse returns "
                   "carries the same flag expression - the one decided by the `,...` look-ahead - in its second field; a branch "
                   "that returns a constant there drops (or invents) the marker for the bounds it handles")
    P = ctx.program()
    bs = [b for b in P.lib_bodies("asn1rs_model") if b.name == "parse" and "IntegerRange" in (b.impl_self_ty or "") and b.def_kind == "AssocFn"]
    if len(bs) != 1:
        ctx.fail(rule, "anchor-lost:IntegerRange::parse", "matched %d bodies" % len(bs))
        return
    b = bs[0]
    O = X.Origins(b, P)
    flags = []
    for bb, j, st in b.all_statements():
        if st["k"] == "assign" and st["rv"]["k"] == "agg" and st["rv"].get("ak") == "adt" and st["rv"]["adt"].endswith("range::IntegerRange") \
                and len(st["rv"]["ops"]) == 2:
            e = O.operand(st["rv"]["ops"][1], bb, j)
            flags.append((F.rd(e), F.strip_casts(e)[0], span_loc(st["sp"])))
    detail = {"function": b.path, "flags": [(f[0], f[2]) for f in flags]}
    if not flags:
        ctx.fail(rule, "anchor-lost:IntegerRange-construction", "IntegerRange::parse builds no IntegerRange", "%s:%d" % (b.file, b.line))
        return
    decided = [f for f in flags if f[1] != "const"]
    consts = [f for f in flags if f[1] == "const"]
    if not decided:
        ctx.fail(rule, "IntegerRange::parse#flag", "no returned IntegerRange takes its flag from the look-ahead", flags[0][2], detail)
    elif consts:
        ctx.fail(rule, "IntegerRange::parse#flag", "the IntegerRange built at %s carries the constant flag %s while the others carry the parsed "
                                                    "`,...` decision: `integer(min..max,...)` and the like lose (or gain) the extension "
                                                    "marker" % (consts[0][2], consts[0][0]), consts[0][2], detail)
    elif len({f[0] for f in decided}) != 1:
        ctx.fail(rule, "IntegerRange::parse#flag", "the returned IntegerRange values carry different flag expressions: %s" % sorted({f[0] for f in decided}),
                 flags[0][2], detail)
    else:
        ctx.ok(rule, "IntegerRange::parse#flag", detail)
    ctx.floor(rule, len(flags), "C08.R6.constructions")


def r9(ctx):
    rule = "C08.R9"
    ctx.rule(rule, "a component's own tag wins: the tag AsnDefWriter::write_field_constraint hands to write_complex_constraint for a "
                   "component that references another type is `field.tag.or(<tag of the referenced type>)` - the explicit or "
                   "automatically assigned tag of the component first; with the operands exchanged every tagged reference reports "
                   "the referenced type's tag in its TAG constant")
    P = ctx.program()
    p = fn_body(ctx, rule, P, "AsnDefWriter::write_field_constraint")
    if not p:
        return
    n = 0
    for body in [p] + P.closures_of(p):
        O = X.Origins(body, P)
        for cs in body.calls():
            if cs.name != "write_complex_constraint":
                continue
            tys = cs.term.get("argtys") or []
            for i, a in enumerate(O.call_args(cs)):
                if i >= len(tys) or not tys[i].endswith("tag::Tag") and not ("Option<" in tys[i] and "Tag" in tys[i]):
                    continue
                n += 1
                e = X.strip(a)
                d = {"function": body.path, "call": cs.loc(), "tag_argument": F.rd(R.positional(e))[:200]}
                ok = False
                ors = [x for x in X.walk(e) if x[0] == "call" and X.last_seg(x[1] or "") in ("or", "or_else") and len(x[3]) == 2
                       and "Option" in (x[1] or "")]
                if ors:
                    first = F.rd(R.positional(ors[0][3][0]))
                    ok = ".tag" in first and " as Complex)" not in first
                if ok:
                    ctx.ok(rule, "write_field_constraint#complex-tag", d)
                else:
                    ctx.fail(rule, "write_field_constraint#complex-tag", "the tag of a referencing component is `%s`: the component's own tag "
                                                                         "does not come first" % d["tag_argument"][:100], cs.loc(), d)
    ctx.floor(rule, n, "C08.R9.calls")


def run(ctx):
    r1(ctx)
    r2(ctx)
    r3(ctx)
    r4(ctx)
    r5(ctx)
    r6(ctx)
    from .c02 import r5 as rebuilders_keep_the_marker
    rebuilders_keep_the_marker(ctx, rule="C08.R7")
    # the descriptor constants of a SEQUENCE / SET are printed from the model's own fields (shared with C03)
    from .c03 import r5 as sequence_constants
    sequence_constants(ctx, rule="C08.R8")
    r9(ctx)

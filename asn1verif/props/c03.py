"""C03 - OPTIONAL / DEFAULT / extension presence semantics: agreement of the two state machines (DESIGN.md 5/C03)."""
import re

from .. import expr as X
from .. import facts as F
from .. import rules as R
from ..mir import span_loc

WS = "<rw::uper::UperWriter as descriptor::Writer>::write_sequence"
RS = "<rw::uper::UperReader<B> as descriptor::Reader>::read_sequence"


def norm_pos(txt):
    """the writer's `w.bits.write_position` and the reader's `r.bits.pos()` are the same notion: the current bit position"""
    txt = re.sub(r"ScopedBitRead::pos\(\^?[a-z]+\.bits\)", "POS", txt)
    txt = re.sub(r"\^?[a-z]+\.bits\.write_position", "POS", txt)
    return txt


def scope_aggs(P, b):
    out = {}
    for body in [b] + P.closures_of(b):
        O = X.Origins(body, P)
        for bb, j, s in body.all_statements():
            if s["k"] == "assign" and s["rv"]["k"] == "agg" and s["rv"].get("adt", "").endswith("uper::Scope"):
                out[s["rv"]["variant"]] = ({nm: norm_pos(F.rd(R.fold_map_payload(P, body, O.operand(o, bb, j))))
                                            for nm, o in zip(s["rv"]["fields"], s["rv"]["ops"])},
                                           span_loc(s["sp"]), body, bb, j, s)
    return out


def origin_block(body, op, depth=0):
    """block in which the value of a copy chain was first produced (field read or call)"""
    if op.get("k") not in ("copy", "move") or depth > 6:
        return None
    l = op["pl"]["l"]
    ds = body.defs.get(l, ())
    if len(ds) != 1:
        return None
    d = ds[0]
    if d[2] == "call":
        return d[0]
    if d[2] == "assign":
        rv = d[3]
        if rv["k"] == "use" and rv["op"].get("k") in ("copy", "move"):
            if rv["op"]["pl"]["p"]:
                return d[0]
            return origin_block(body, rv["op"], depth + 1) or d[0]
        return d[0]
    return None


def r1(ctx, rule="C03.R1"):
    ctx.rule(rule, "T2 Scope construction symmetry: write_sequence and read_sequence build Scope::ExtensibleSequence / Scope::OptBitField with "
                   "field-wise equal origins (name, bit_pos, optional range, calls_until_ext_bitfield, number_of_ext_fields), the position "
                   "of the extension bit is captured before that bit is written / read, and the presence range starts after it")
    P = ctx.program()
    wb, rb = P.bodies.get("asn1rs::" + WS), P.bodies.get("asn1rs::" + RS)
    if not (ctx.anchor(rule, "UperWriter::write_sequence", wb) and ctx.anchor(rule, "UperReader::read_sequence", rb)):
        return
    aw, ar = scope_aggs(P, wb), scope_aggs(P, rb)
    want = {"ExtensibleSequence": {"name": "C::NAME", "calls_until_ext_bitfield": "((C::EXTENDED_AFTER_FIELD as Some).0 Add 1)",
                                   "number_of_ext_fields": "(C::FIELD_COUNT Sub ((C::EXTENDED_AFTER_FIELD as Some).0 Add 1))",
                                   "bit_pos": "POS",
                                   "opt_bit_field": "Option::Some{0: Range::Range{start: POS, end: (POS Add C::STD_OPTIONAL_FIELDS)}}"},
            "OptBitField": {"0": "Range::Range{start: POS, end: (POS Add C::STD_OPTIONAL_FIELDS)}"}}
    for v in ("ExtensibleSequence", "OptBitField"):
        if v not in aw or v not in ar:
            ctx.fail(rule, v + "#anchor-lost", "Scope::%s is not constructed on both sides" % v, "src/rw/uper.rs")
            continue
        fw, fr = aw[v][0], ar[v][0]
        detail = {"variant": v, "writer": fw, "reader": fr}
        bad = False
        for f in sorted(set(fw) | set(fr)):
            if fw.get(f) != fr.get(f):
                ctx.fail(rule, "%s.%s#differs" % (v, f), "Scope::%s.%s is built from `%s` by the writer and from `%s` by the reader" % (
                    v, f, fw.get(f), fr.get(f)), ar[v][1], detail)
                bad = True
            elif fw.get(f) != want[v].get(f):
                ctx.fail(rule, "%s.%s#value" % (v, f), "Scope::%s.%s is built from `%s` on both sides; X.691 19 requires `%s`" % (
                    v, f, fw.get(f), want[v].get(f)), ar[v][1], detail)
                bad = True
        if not bad:
            ctx.ok(rule, v, detail)
    # ordering of the position captures relative to the extension bit
    for side, aggs, bit in (("writer", aw, "write_bit"), ("reader", ar, "read_bit")):
        if "ExtensibleSequence" not in aggs:
            continue
        _, loc, body, bb, j, s = aggs["ExtensibleSequence"]
        ops = dict(zip(s["rv"]["fields"], s["rv"]["ops"]))
        bits = [cs for cs in body.calls() if cs.name == bit and (cs.trait or "").split("::")[-1] in ("BitWrite", "BitRead")]
        if not bits:
            ctx.fail(rule, side + "#anchor-lost:extension-bit", "extension bit call not found", loc)
            continue
        ext = min(bits, key=lambda c: c.bb)
        # position reads that happen before the extension bit is handled
        early = []
        for b2, j2, s2 in body.all_statements():
            if s2["k"] == "assign" and s2["rv"]["k"] == "use" and s2["rv"]["op"].get("k") in ("copy", "move"):
                fs = [p["n"] for p in s2["rv"]["op"]["pl"]["p"] if p["k"] == "field"]
                if fs[-1:] == ["write_position"] and (b2 == ext.bb or body.dominates(b2, ext.bb)) and b2 <= ext.bb:
                    early.append(s2["pl"]["l"])
        for cs in body.calls():
            if cs.name == "pos" and cs.target is not None and (cs.bb == ext.bb or body.dominates(cs.bb, ext.bb)) and cs.bb != ext.bb:
                early.append(cs.dest["l"])
        flow = set(early)
        changed = True
        while changed:
            changed = False
            for b2, j2, s2 in body.all_statements():
                if s2["k"] != "assign":
                    continue
                rv = s2["rv"]
                ops = [rv.get(k) for k in ("op", "l", "r", "a")] + list(rv.get("ops", []))
                src = {o["pl"]["l"] for o in ops if isinstance(o, dict) and o.get("k") in ("copy", "move")}
                if "pl" in rv:
                    src.add(rv["pl"]["l"])
                if src & flow and s2["pl"]["l"] not in flow:
                    flow.add(s2["pl"]["l"])
                    changed = True
            # values also travel through pure calls (`cond.then_some((a, pos))`, `Some(..)`-like constructors, tuple helpers)
            for cs2 in body.calls():
                al = {a["pl"]["l"] for a in cs2.args if a.get("k") in ("copy", "move")}
                if al & flow and cs2.dest and cs2.dest["l"] not in flow:
                    flow.add(cs2.dest["l"])
                    changed = True
        bp_op = ops_ = ops["bit_pos"] if False else dict(zip(s["rv"]["fields"], s["rv"]["ops"]))["bit_pos"]
        ok = bp_op.get("k") in ("copy", "move") and bp_op["pl"]["l"] in flow
        detail = {"side": side, "extension_bit_call": ext.loc(), "position_reads_before_it": len(early)}
        if not ok:
            ctx.fail(rule, side + "#bit_pos-order", "the %s does not capture bit_pos before the extension bit is handled: the presence of "
                                                    "additions is later written to / read from the wrong bit" % side, loc, detail)
        else:
            ctx.ok(rule, side + "#bit_pos-order", detail)
        # the presence range of the root components starts *after* the extension bit: its start must not be one of the
        # positions captured before that bit is handled
        O2 = X.Origins(body, P)
        starts = []
        for b2, j2, s2 in body.all_statements():
            if s2["k"] == "assign" and s2["rv"]["k"] == "agg" and s2["rv"].get("ak") == "adt" and s2["rv"]["adt"].endswith("Range") \
                    and len(s2["rv"]["ops"]) == 2:
                end = F.rd(O2.operand(s2["rv"]["ops"][1], b2, j2))
                if "STD_OPTIONAL_FIELDS" in end:
                    starts.append((s2["rv"]["ops"][0], span_loc(s2["sp"])))
        if not starts:
            ctx.fail(rule, side + "#anchor-lost:presence-range", "the range of the root presence bits is not built", loc)
        for op0, l0 in starts:
            early_start = op0.get("k") in ("copy", "move") and op0["pl"]["l"] in flow
            d2 = {"side": side, "range_built_at": l0, "extension_bit_call": ext.loc()}
            if early_start:
                ctx.fail(rule, side + "#range-start-order", "the %s starts the range of root presence bits at a position captured before the "
                                                            "extension bit is handled: the first OPTIONAL/DEFAULT presence bit lands on "
                                                            "the extension bit" % side, l0, d2)
            else:
                ctx.ok(rule, side + "#range-start-order", d2)


def arm_writes(P, b, arm, O):
    """places written through `self` and bitmap accesses inside a match arm"""
    writes, calls = set(), set()
    for body in [b]:
        for bb in sorted(arm.blocks):
            for j, s in enumerate(body.blocks[bb]["stmts"]):
                if s["k"] == "assign" and s["pl"]["p"] and s["pl"]["p"][0]["k"] == "deref":
                    base = {"l": s["pl"]["l"], "p": []}
                    ex = O.place(base, bb, j)
                    root = F.rd(R.positional(ex))
                    proj = ".".join(p["n"] for p in s["pl"]["p"] if p["k"] == "field")
                    if root.startswith("$1") or "$1" in root:
                        tail = re.sub(r"^.*?\$1", "self", root)
                        writes.add((tail + ("." + proj if proj else "")).replace("(self as ", "(").replace("self", "*self", 1) if False else
                                   re.sub(r"\s+", " ", (tail + ("." + proj if proj else ""))))
            t = body.blocks[bb]["term"]
            if t and t["k"] == "call":
                fn = t["func"].get("fn")
                if fn and fn["name"] in ("with_write_position_at", "with_read_position_at"):
                    from ..mir import CallSite
                    cs = CallSite(body, bb, t)
                    a = O.call_args(cs)
                    calls.add(re.sub(r"^\(?\*?", "", F.rd(R.positional(a[1]))))
    return writes, calls


def helper_effects(P, body, cs, depth=1):
    """effects of a private same-type helper called from an arm (`Scope::write_presence_bit(buffer, range, ..)`): the fields
    it writes through its `&mut` parameters and the bitmap accesses it performs, in the vocabulary of the arms"""
    wr, ca = set(), set()
    fn = cs.fn or {}
    if not fn.get("resolved_local", fn.get("local")) or not (fn.get("impl_self_ty") or "").split("<")[0].endswith("Scope"):
        return wr, ca
    h = P.resolve_callee(body.crate, cs)
    if h is None or h.name in ("write_into_field", "read_from_field"):
        return wr, ca
    for hb in [h] + P.closures_of(h):
        for bb, j, st in hb.all_statements():
            if st["k"] == "assign" and any(p["k"] == "deref" for p in st["pl"]["p"]):
                proj = ".".join(p["n"] for p in st["pl"]["p"] if p["k"] == "field")
                if proj:
                    wr.add("range." + proj if not proj.startswith("range") else proj)
        for c2 in hb.calls():
            if c2.name in ("with_write_position_at", "with_read_position_at"):
                ca.add("range.start")
    return wr, ca


def r2(ctx):
    rule = "C03.R2"
    ctx.rule(rule, "per-variant cursor discipline: for each Scope variant the arms of write_into_field and read_from_field update the same "
                   "Scope fields (range.start, calls_until_ext_bitfield, *self) and touch the bitmap at the same field-origin position")
    P = ctx.program()
    try:
        w = P.one("asn1rs", "rw::uper::Scope::write_into_field")
        r = P.one("asn1rs", "rw::uper::Scope::read_from_field")
    except KeyError as e:
        ctx.fail(rule, "anchor-lost", str(e))
        return
    res = {}
    for side, b in (("writer", w), ("reader", r)):
        O = X.Origins(b, P)
        for a in R.match_tables(P, b, O):
            if len(a.path) != 1 or a.path[0][0] != "$1":
                continue
            wr, ca = arm_writes(P, b, a, O)
            for cs in b.calls():
                if cs.bb in a.blocks:
                    hw, hc = helper_effects(P, b, cs)
                    wr |= hw
                    ca |= hc
            res.setdefault(a.path[0][1], {})[side] = (wr, ca)
    # the reader's ExtensibleSequence arm updates range.start inside a closure: collect closure writes by line proximity is brittle,
    # so closures are attributed to the arm whose blocks create them
    for side, b in (("writer", w), ("reader", r)):
        O = X.Origins(b, P)
        arms = [a for a in R.match_tables(P, b, O) if len(a.path) == 1 and a.path[0][0] == "$1"]
        for c in P.closures_of(b):
            created = None
            for bb, j, s in b.all_statements():
                if s["k"] == "assign" and s["rv"]["k"] == "agg" and s["rv"].get("ak") == "closure" and s["rv"]["def"] == c.path:
                    created = bb
            if created is None:
                continue
            Oc = X.Origins(c, P)
            for a in arms:
                if created in a.blocks:
                    wr, ca = res[a.path[0][1]][side]
                    for bb, j, s in c.all_statements():
                        if s["k"] == "assign" and any(p["k"] == "deref" for p in s["pl"]["p"]):
                            proj = ".".join(p["n"] for p in s["pl"]["p"] if p["k"] == "field")
                            if proj:
                                wr.add("range." + proj if not proj.startswith("range") else proj)
                    for cs in c.calls():
                        if cs.name in ("with_write_position_at", "with_read_position_at"):
                            ca.add("range.start")
                        hw, hc = helper_effects(P, c, cs)
                        wr |= hw
                        ca |= hc
    n = 0
    for v in ("OptBitField", "AllBitField", "ExtensibleSequence", "ExtensibleSequenceEmpty"):
        if v not in res or len(res[v]) != 2:
            ctx.fail(rule, v + "#anchor-lost", "arm for Scope::%s not found on both sides" % v, "src/rw/uper.rs")
            continue
        n += 1

        def canon(items):
            out = set()
            for x in items:
                x = x.replace("$1", "self")
                x = re.sub(r"\((\*?self) as (\w+)\)", r"\2", x)
                x = x.replace("ExtensibleSequence.opt_bit_field as Some).0", "optrange").replace("(optrange", "optrange")
                x = re.sub(r"^(OptBitField|AllBitField)\.0", "range", x)
                x = x.replace("range.range", "range")
                if x.endswith("bit_pos") or x.endswith(".start") or x == "range.start":
                    x = "bit_pos" if x.endswith("bit_pos") else "range.start"
                out.add(x)
            return out
        ww, wc = canon(res[v]["writer"][0]), canon(res[v]["writer"][1])
        rw, rc = canon(res[v]["reader"][0]), canon(res[v]["reader"][1])
        detail = {"variant": v, "writer_updates": sorted(ww), "reader_updates": sorted(rw), "writer_bitmap_at": sorted(wc), "reader_bitmap_at": sorted(rc)}
        if ww != rw or wc != rc:
            ctx.fail(rule, v, "the arms for Scope::%s differ: writer updates %s at %s, reader updates %s at %s" % (
                v, sorted(ww), sorted(wc), sorted(rw), sorted(rc)), "src/rw/uper.rs", detail)
        else:
            ctx.ok(rule, v, detail)
    ctx.floor(rule, n, "C03.R2.variants")


POSITION_CALLS = ("with_write_position_at", "with_read_position_at")


def _is_param(ex, name):
    e = X.strip(ex)
    while e[0] in ("ref", "deref", "mut"):
        e = X.strip(e[1])
    return e[0] == "param" and e[2] == name


def _closure_passed_at(P, parent, closure):
    """(call site the closure is handed to, index of the argument) in the creating body"""
    O = X.Origins(parent, P)
    for cs in parent.calls():
        for i, a in enumerate(O.call_args(cs)):
            if a[0] == "agg" and a[1] == "closure" and a[2] == closure.path:
                return cs, i, O
    return None, None, O


def conditioned_on(P, root, body, bb, pname, depth=0):
    """is block `bb` of `body` (the function `root` or one of its closures) executed only when root's parameter `pname` is true?
    Understands `if p`, match guards, and `opt.filter(|_| p).map(|x| ..)`."""
    if depth > 4:
        return False
    O = X.Origins(body, P)
    for s_bb, ex, val in R.path_conditions(body, O, bb):
        e = R.in_root_terms(P, body, ex) if body is not root else ex
        if _is_param(e, pname) and val:
            return True
    if body is root:
        # no single dominating test (`if is_opt || range.start >= range.end { helper(range) }` with the helper reading only
        # `if range.start < range.end`): every feasible path to the block has the parameter true
        idx = [i for i, nm in body.param_names().items() if nm == pname]
        if idx:
            dnf = R.reach_dnf(body, O, bb, param_atoms=True)
            if dnf and all(("param:$%d" % idx[0], "true") in p for p in dnf):
                return True
        return False
    parent = P.bodies.get("%s::%s" % (body.crate, body.parent or ""))
    if parent is None:
        return False
    cs, i, Op = _closure_passed_at(P, parent, body)
    if cs is None:
        return False
    args = Op.call_args(cs)
    if cs.name in ("map", "and_then", "for_each", "inspect", "map_or", "map_or_else", "is_some_and") and args:
        recv = X.strip(args[0])
        # receiver filtered by a predicate closure: the mapped closure runs only where the predicate holds
        while recv[0] == "call" and X.last_seg(recv[1] or "") in ("as_mut", "as_ref", "as_deref", "as_deref_mut", "iter", "iter_mut", "take"):
            recv = X.strip(recv[3][0])
        if recv[0] == "call" and X.last_seg(recv[1] or "") == "filter" and len(recv[3]) == 2:
            pc = recv[3][1]
            if pc[0] == "agg" and pc[1] == "closure":
                pb = P.bodies.get("%s::%s" % (body.crate, pc[2]))
                if pb is not None:
                    Ob = X.Origins(pb, P)
                    rets = [Ob.rvalue(d[3], d[0], d[1], 0) for d in pb.defs.get(0, ()) if d[2] == "assign"]
                    if rets and all(_is_param(R.in_root_terms(P, pb, r), pname) for r in rets):
                        return True
    return conditioned_on(P, root, parent, cs.bb, pname, depth + 1)


def r9(ctx, rule="C03.R9"):
    ctx.rule(rule, "presence slots are consumed under the same condition on both sides: in every arm of Scope::write_into_field and "
                   "Scope::read_from_field each access of the presence bitmap (with_write_position_at / with_read_position_at, also in "
                   "closures and in expanded helpers) is either unconditional or conditional on `is_opt` on *both* sides - a reader that "
                   "consumes a slot for every root field while the writer reserves one per OPTIONAL/DEFAULT field misreads every "
                   "extensible SEQUENCE whose extension bit is set")
    P = ctx.program()
    try:
        w = P.one("asn1rs", "rw::uper::Scope::write_into_field")
        r = P.one("asn1rs", "rw::uper::Scope::read_from_field")
    except KeyError as e:
        ctx.fail(rule, "anchor-lost", str(e))
        return
    res = {}
    n = 0
    for side, b in (("writer", w), ("reader", r)):
        O = X.Origins(b, P)
        arms = [a for a in R.match_tables(P, b, O) if len(a.path) == 1 and a.path[0][0] == "$1"]
        if not any(nm == "is_opt" for nm in b.param_names().values()):
            ctx.fail(rule, side + "#anchor-lost:is_opt", "%s has no parameter `is_opt`" % b.path, "%s:%d" % (b.file, b.line))
            return
        for body in [b] + P.closures_of(b):
            Ob = O if body is b else X.Origins(body, P)
            for cs in body.calls():
                if cs.name not in POSITION_CALLS:
                    continue
                # the arm: directly, or through the chain of closure creations
                anchor_body, anchor_bb = body, cs.bb
                while anchor_body is not b:
                    parent = P.bodies.get("%s::%s" % (anchor_body.crate, anchor_body.parent or ""))
                    if parent is None:
                        break
                    created = [bb for bb, j, st in parent.all_statements() if st["k"] == "assign" and st["rv"]["k"] == "agg"
                               and st["rv"].get("ak") == "closure" and st["rv"]["def"] == anchor_body.path]
                    if not created:
                        break
                    anchor_body, anchor_bb = parent, created[0]
                arm = [a.path[0][1] for a in arms if anchor_body is b and anchor_bb in a.blocks]
                if not arm:
                    continue
                pos = F.rd(R.positional(R.in_root_terms(P, body, Ob.call_args(cs)[1]) if body is not b else Ob.call_args(cs)[1]))
                kind = "ext_bit" if "bit_pos" in pos else "presence_range"
                cond = conditioned_on(P, b, body, cs.bb, "is_opt")
                n += 1
                res.setdefault(arm[0], {}).setdefault(side, set()).add((kind, "if is_opt" if cond else "always"))
    for v in sorted(res):
        ws, rs = res[v].get("writer", set()), res[v].get("reader", set())
        detail = {"variant": v, "writer": sorted(ws), "reader": sorted(rs)}
        if ws != rs:
            ctx.fail(rule, v, "Scope::%s: the writer touches the presence bitmap %s, the reader %s" % (v, sorted(ws), sorted(rs)), "src/rw/uper.rs", detail)
        else:
            ctx.ok(rule, v, detail)
    ctx.floor(rule, n, rule + ".accesses")


def r10(ctx, rule="C03.R10"):
    ctx.rule(rule, "every root component is counted: in Scope::write_into_field and Scope::read_from_field the countdown "
                   "`calls_until_ext_bitfield` of an extensible SEQUENCE is stored to on every path that handles a root component "
                   "(the branch in which the counter is still above zero) before the function returns - a return in front of the "
                   "decrement (for OPTIONAL components, say) makes that side reach the extension additions later than its twin, and the "
                   "extension bit / the addition bitmap are looked for at the wrong component")
    P = ctx.program()
    n = 0
    for side, fn in (("writer", "rw::uper::Scope::write_into_field"), ("reader", "rw::uper::Scope::read_from_field")):
        try:
            b = P.one("asn1rs", fn)
        except KeyError as e:
            ctx.fail(rule, side + "#anchor-lost", str(e))
            continue
        O = X.Origins(b, P)
        FIELD = "calls_until_ext_bitfield"
        ptrs = set()
        for bb, j, st in b.all_statements():
            if st["k"] == "assign" and st["rv"]["k"] in ("ref", "rawptr") and st["rv"]["pl"]["p"] and \
                    st["rv"]["pl"]["p"][-1].get("n") == FIELD:
                ptrs.add(st["pl"]["l"])
        ptrs = R.pointers_to(b, ptrs) | ptrs if ptrs else ptrs
        stores = set()
        for bb, j, st in b.all_statements():
            if st["k"] != "assign":
                continue
            pl = st["pl"]
            if pl["p"] and pl["p"][-1].get("n") == FIELD:
                stores.add(bb)
            elif pl["l"] in ptrs and len(pl["p"]) == 1 and pl["p"][0]["k"] == "deref":
                stores.add(bb)
        # the branch that handles a root component: the counter compared with zero
        tests = [c for c in F.comparisons(b, O) if c.switch_bb is not None and c.kind == "b" and c.rhs == "" and c.boundary == 1
                 and FIELD in c.lhs]
        if not tests or not stores:
            ctx.fail(rule, side + "#anchor-lost:countdown", "%s: the test of the countdown against zero (%d) or the store to it (%d) was not found"
                     % (X.short(b.path), len(tests), len(stores)), "%s:%d" % (b.file, b.line))
            continue
        c = tests[0]
        t = b.blocks[c.switch_bb]["term"]
        # normal form `counter < 1`: for Lt / Le the true edge is `otherwise`
        zero_t, other_t = t["targets"][0], t["otherwise"]
        if int(t["vals"][0]) != 0:
            zero_t, other_t = other_t, zero_t
        below_on_true = c.nop in ("Lt", "Le")
        root_entry = zero_t if below_on_true else other_t      # the edge on which the counter is >= 1
        if getattr(c, "flipped", False):
            root_entry = other_t if root_entry == zero_t else zero_t
        n += 1
        free = b.reach_from(root_entry, avoid=stores) if root_entry not in stores else set()
        leaks = [bb for bb in sorted(free) if b.blocks[bb]["term"] and b.blocks[bb]["term"]["k"] == "return"]
        detail = {"function": b.path, "countdown_test": c.raw, "at": c.loc, "stores": len(stores),
                  "root_branch_entry": root_entry}
        if leaks:
            # where does the path leave: the last value assigned to the return place on the way
            ctx.fail(rule, side + "#uncounted-return", "%s returns from the branch that handles a root component on a path that never stores to "
                                                       "`calls_until_ext_bitfield`: that component is not counted and the extension additions "
                                                       "are expected one component too late" % X.short(b.path), c.loc, detail)
        else:
            ctx.ok(rule, side + "#countdown", detail)
    ctx.floor(rule, n, rule + ".sides")


def r3(ctx):
    from . import c01
    rule = "C03.R3"
    ctx.rule(rule, "T7 optional-notion agreement: RustType::is_optional is true exactly for Option and Default; exactly write_opt / write_default "
                   "(and their read twins) pass is_opt = true to the bit-field entry; STD_OPTIONAL_FIELDS is counted with is_optional")
    P = ctx.program()
    try:
        io = P.one("asn1rs_model", "RustType::is_optional")
    except KeyError as e:
        ctx.fail(rule, "anchor-lost:is_optional", str(e))
        return
    O = X.Origins(io, P)
    true_variants = set()
    for a in R.match_tables(P, io, O):
        if len(a.path) != 1:
            continue
        val = None
        for bb in sorted(a.blocks):
            for s in io.blocks[bb]["stmts"]:
                if s["k"] == "assign" and s["rv"]["k"] == "use" and s["rv"]["op"].get("ty") == "bool" and "val" in s["rv"]["op"]:
                    val = s["rv"]["op"]["val"]
        if val == "1":
            true_variants.add(a.path[0][1])
    detail = {"is_optional_true_for": sorted(true_variants)}
    if true_variants != {"Option", "Default"}:
        ctx.fail(rule, "is_optional", "RustType::is_optional is true for %s; OPTIONAL and DEFAULT components (Option, Default) are the ones "
                                      "with a presence bit" % sorted(true_variants), "%s:%d" % (io.file, io.line), detail)
    else:
        ctx.ok(rule, "is_optional", detail)
    for side, prefix in (("writer", "<rw::uper::UperWriter as descriptor::Writer>::write_"), ("reader", "<rw::uper::UperReader<B> as descriptor::Reader>::read_")):
        opt_kinds = set()
        for b in P.lib_bodies("asn1rs"):
            if b.path.startswith(prefix) and b.def_kind == "AssocFn" and "::promoted[" not in b.path:
                sk = c01.skeleton(ctx, b, 0)
                for e in sk:
                    if e[0] == "bit_field_entry" and dict(e[1]).get("is_opt") == "1":
                        opt_kinds.add(b.name.split("_", 1)[1])
        d = {"side": side, "kinds_with_is_opt_true": sorted(opt_kinds)}
        if opt_kinds != {"opt", "default"}:
            ctx.fail(rule, side + "#is_opt", "the %s passes is_opt = true for %s; exactly opt and default carry a presence bit" % (side, sorted(opt_kinds)),
                     "src/rw/uper.rs", d)
        else:
            ctx.ok(rule, side + "#is_opt", d)
    try:
        ic = P.one("asn1rs_model", "AsnDefWriter::write_sequence_constraint_insert_consts")
    except KeyError as e:
        ctx.fail(rule, "anchor-lost:insert_consts", str(e))
        return
    uses = [cs for body in [ic] + P.closures_of(ic) for cs in body.calls() if cs.name == "is_optional"]
    if not uses:
        ctx.fail(rule, "STD_OPTIONAL_FIELDS#predicate", "STD_OPTIONAL_FIELDS is no longer counted with RustType::is_optional", "%s:%d" % (ic.file, ic.line))
    else:
        ctx.ok(rule, "STD_OPTIONAL_FIELDS#predicate", {"call": uses[0].loc()})


def r4(ctx):
    rule = "C03.R4"
    ctx.rule(rule, "error-site census: ErrorKind::ExtensionFieldsInconsistent is constructed at exactly one site, in the ExtensibleSequenceEmpty "
                   "arm of write_into_field under `is_present`; write_into_field constructs no other error kind")
    P = ctx.program()
    sites = []
    for b in P.lib_bodies("asn1rs"):
        if "::promoted[" in b.path or "::tests::" in b.path or b.derived:
            continue
        for bb, j, s in b.all_statements():
            if s["k"] == "assign" and s["rv"]["k"] == "agg" and s["rv"].get("adt", "").endswith("ErrorKind") and s["rv"]["variant"] == "ExtensionFieldsInconsistent":
                sites.append((b, bb, span_loc(s["sp"])))
    try:
        w = P.one("asn1rs", "rw::uper::Scope::write_into_field")
    except KeyError as e:
        ctx.fail(rule, "anchor-lost", str(e))
        return
    detail = {"sites": [(X.short(b.path), loc) for b, _, loc in sites]}
    if len(sites) != 1 or sites[0][0].key != w.key:
        ctx.fail(rule, "site-count", "ExtensionFieldsInconsistent is constructed at %d sites %s; the encoder may refuse a value with it only in "
                                     "Scope::write_into_field" % (len(sites), detail["sites"]), sites[-1][2] if sites else "src/rw/uper.rs", detail)
        return
    O = X.Origins(w, P)
    arms = [a for a in R.match_tables(P, w, O) if len(a.path) == 1 and sites[0][1] in a.blocks]
    in_empty = any(a.path[0][1] == "ExtensibleSequenceEmpty" for a in arms)
    guarded = any(F.rd(R.positional(O.switch_cond(bb))) == "$4" and w.dominates(bb, sites[0][1]) for bb, t in w.switches())
    others = set()
    for bb, j, s in w.all_statements():
        if s["k"] == "assign" and s["rv"]["k"] == "agg" and s["rv"].get("adt", "").endswith("ErrorKind"):
            others.add(s["rv"]["variant"])
    detail.update({"arm": [a.path for a in arms], "under_is_present": guarded, "error_kinds_in_write_into_field": sorted(others)})
    if not in_empty or not guarded:
        ctx.fail(rule, "site-condition", "the inconsistent-extension error is not confined to `ExtensibleSequenceEmpty && is_present` "
                                         "(first addition absent while a later one is present)", sites[0][2], detail)
    elif others != {"ExtensionFieldsInconsistent"}:
        ctx.fail(rule, "other-errors", "write_into_field also refuses values with %s" % sorted(others - {"ExtensionFieldsInconsistent"}), sites[0][2], detail)
    else:
        ctx.ok(rule, "ExtensionFieldsInconsistent", detail)


def r5(ctx, rule="C03.R5"):
    ctx.rule(rule, "T6 constant provenance in write_sequence_constraint_insert_consts: EXTENDED_AFTER_FIELD <- extension_after_field, "
                   "FIELD_COUNT <- fields.len(), STD_OPTIONAL_FIELDS <- count over the same fields up to the extension marker, NAME <- name")
    P = ctx.program()
    try:
        ic = P.one("asn1rs_model", "AsnDefWriter::write_sequence_constraint_insert_consts")
    except KeyError as e:
        ctx.fail(rule, "anchor-lost:insert_consts", str(e))
        return
    templ = []
    for p, f in ctx.src().fns(path="asn1rs-model/src/generate/walker.rs", name="write_sequence_constraint_insert_consts"):
        templ = sorted((s["line"], s["s"]) for s in f["strings"] if s["ctx"].startswith("macro:format") and "const " in s["s"])
    O = X.Origins(ic, P)
    args = []
    for cs in ic.calls():
        if cs.name in ("new_display", "new_debug") and cs.args:
            args.append((int(cs.loc().split(":")[1]), F.rd(R.positional(O.call_args(cs)[0]))))
    args.sort()
    want = {"EXTENDED_AFTER_FIELD": lambda a: a == "$4", "FIELD_COUNT": lambda a: a == "slice::len($3)",
            "STD_OPTIONAL_FIELDS": lambda a: "Iterator::count(" in a and "slice::iter($3)" in a and "take_while" in a and "filter" in a,
            "NAME": lambda a: a == "$2"}
    n = 0
    if len(args) != len(templ):
        ctx.fail(rule, "anchor-lost:format-arguments", "%d constant templates but %d formatted arguments" % (len(templ), len(args)),
                 "%s:%d" % (ic.file, ic.line), {"templates": templ, "arguments": args})
        return
    for (line, t), (_, mine) in zip(templ, args):
        cname = re.search(r"const (\w+)", t).group(1)
        n += 1
        detail = {"constant": cname, "template": t, "printed_from": mine}
        chk = want.get(cname)
        if chk is None:
            ctx.ok(rule, cname, detail, nontrivial=False)
        elif not chk(mine):
            ctx.fail(rule, cname, "constant %s is printed from `%s`" % (cname, mine[:120]), "%s:%d" % (ic.file, line), detail)
        else:
            ctx.ok(rule, cname, detail)
    ctx.floor(rule, n, rule + ".constants")
    # the take_while bound is the extension marker
    cl = P.closures_of(ic)
    cm = []
    resolved = {}
    for body in cl:
        caps = R.closure_captures(P, ic, body)
        for c in F.comparisons(body, X.Origins(body, P)):
            # a bound hoisted into a local of the emitter (`let last_root = extension_after_field.unwrap_or(MAX)`) reaches the
            # closure as a captured variable: look at what was captured
            resolved[id(c)] = (F.rd(R.resolve_upvars(c.lex, caps)) if c.lex is not None else "",
                               F.rd(R.resolve_upvars(c.rex, caps)) if c.rex is not None else "")
            cm.append(c)
    tw = [c for c in cm if "extension_after_field" in "".join(resolved[id(c)]) or "extension_after_field" in (c.lhs + c.rhs)]
    if not tw:
        ctx.fail(rule, "STD_OPTIONAL_FIELDS#bound", "the count of optional fields is not limited to the fields up to the extension marker",
                 "%s:%d" % (ic.file, ic.line), {"comparisons": [c.raw for c in cm]})
    else:
        c = tw[0]
        # index <= extension_after  <=>  after - index boundary 0  <=>  index - after boundary 1
        after_left = "extension_after_field" in c.lhs or "extension_after_field" in resolved[id(c)][0]
        ok = c.kind == "b" and ((after_left and c.boundary == 0) or (not after_left and c.boundary == 1))
        if not ok:
            ctx.fail(rule, "STD_OPTIONAL_FIELDS#bound", "optional root fields are counted with `%s` instead of index <= extension_after_field" % c.raw,
                     c.loc, {"comparison": c.raw})
        else:
            ctx.ok(rule, "STD_OPTIONAL_FIELDS#bound", {"comparison": c.raw})


def r6(ctx):
    from .. import strtab as S
    rule = "C03.R6"
    ctx.rule(rule, "presence polarity: write_default announces a component as present exactly when it differs from the default "
                   "(`DEFAULT_VALUE.ne(value)`) and writes the value on that same condition; write_opt writes the value when it is "
                   "Some; read_opt / read_default read a value exactly when the presence bit is set and yield None / the default "
                   "otherwise")
    P = ctx.program()
    want = {"write_opt": ("UperWriter as", lambda c: c.startswith("discr(")),
            "write_default": ("UperWriter as", lambda c: c.startswith("PartialEq::ne(C::DEFAULT_VALUE")),
            "read_opt": ("UperReader<B> as", lambda c: "read_bit_field_entry(" in c and c.startswith("Option::unwrap(")),
            "read_default": ("UperReader<B> as", lambda c: "read_bit_field_entry(" in c and c.startswith("Option::unwrap("))}
    for nm, (pre, cond_ok) in want.items():
        bs = [b for b in P.lib_bodies("asn1rs") if b.name == nm and pre in b.path and b.def_kind == "AssocFn"]
        if len(bs) != 1:
            ctx.fail(rule, "anchor-lost:" + nm, "matched %d bodies" % len(bs))
            continue
        b = bs[0]
        O = X.Origins(b, P)
        wbs = [cs for cs in b.calls() if cs.name == "with_buffer"]
        if len(wbs) != 1:
            ctx.fail(rule, nm + "#anchor-lost:with_buffer", "%d with_buffer calls" % len(wbs), "%s:%d" % (b.file, b.line))
            continue
        cb = S.controlling_branch(b, O, wbs[0].bb)
        flag = None
        for cs in b.calls():
            if cs.name == "write_bit_field_entry":
                flag = F.rd(R.positional(O.call_args(cs)[2]))
        cond = F.rd(R.positional(cb[1])) if cb else None
        detail = {"function": b.path, "value_handled_under": cond, "on_true_side": cb[2] if cb else None, "announced_flag": flag}
        probs = []
        if cb is None:
            probs.append("the value is written / read unconditionally")
        else:
            if not cond_ok(cond):
                probs.append("the value is handled under `%s`" % cond[:80])
            elif not cb[2]:
                probs.append("the value is handled when `%s` is false" % cond[:80])
        if nm == "write_default" and flag is not None and cond is not None and flag != cond:
            probs.append("the presence bit announces `%s` but the value is written under `%s`" % (flag[:60], cond[:60]))
        if nm == "write_opt" and flag is not None and ("Not" in flag or flag in ("0", "1")):
            probs.append("the presence bit is `%s`" % flag)
        if probs:
            ctx.fail(rule, nm, "; ".join(probs), wbs[0].loc(), detail)
        else:
            ctx.ok(rule, nm, detail)


def run(ctx):
    r1(ctx)
    r2(ctx)
    r3(ctx)
    r4(ctx)
    r5(ctx)
    r6(ctx)
    from .c07 import r5 as marker_recorded
    marker_recorded(ctx, rule="C03.R7")
    # the OPTIONAL / DEFAULT wrappers hide the enclosing scope on both sides while the value is transferred
    from .c01 import r2 as wrapper_symmetry
    wrapper_symmetry(ctx, rule="C03.R8", kinds=("opt", "default"))
    # every component kind enters the enclosing SEQUENCE's bookkeeping at the same place on both sides (before the scope is
    # stashed / pushed): the countdown to the extension additions counts components of every kind
    wrapper_symmetry(ctx, rule="C03.R11", kinds=None, only_prefix="nest:bit_field_entry@")
    r9(ctx)
    r10(ctx)

"""C20 - DER primitives: table inversion, boundary agreement, skeleton symmetry (DESIGN.md section 5, C20)."""
import json
import os

from .. import expr as X
from .. import facts as F
from .. import rules as R
from ..core import VERIF
from .c04 import is_todo_body


def r1(ctx, table):
    rule = "C20.R1"
    ctx.rule(rule, "T7 class-bit tables: write_identifier maps each Tag class to CLASS_BITS_X, read_identifier maps the same bit "
                   "patterns back to the same class (mutually inverse), and the constants are the X.690 8.1.2.2 values")
    P = ctx.program()
    want = table["class_bits"]
    cvals = {k.split("::")[-1]: int(v["val"]) for k, v in P.consts.items() if "distinguished::CLASS_BITS_" in k and "val" in v}
    ctx.anchor(rule, "CLASS_BITS_* constants", cvals)
    try:
        w = P.one("asn1rs", "BasicWrite for T>::write_identifier")
        r = P.one("asn1rs", "BasicRead for T>::read_identifier")
    except KeyError as e:
        ctx.fail(rule, "anchor-lost:identifier", str(e))
        return
    Ow = X.Origins(w, P)
    wt = {}
    for a in R.match_tables(P, w, Ow):
        eff = R.arm_effects(P, w, a, Ow)
        cs = [c for c in eff["consts"] if c.startswith("CLASS_BITS_")]
        if len(a.path) == 1:
            wt[a.path[0][1]] = [cvals.get(c) for c in cs] or [v for v in eff["lits"]]
    Or = X.Origins(r, P)
    rt = {}
    for bb, scrut, tab in R.int_switch_tables(P, r, Or):
        for val, eff in tab.items():
            vs = [a.split("::")[-1] for a in eff["aggs"] if a.startswith("Tag::")]
            if vs:
                rt[val] = vs
    if not rt:
        # the same table written as an equality chain: `if class == CLASS_BITS_UNIVERSAL { Tag::Universal(..) } else if ..`
        for bb, j, st in r.all_statements():
            rv = st.get("rv") or {}
            if st["k"] == "assign" and rv.get("k") == "agg" and rv.get("adt", "").endswith("Tag") and rv.get("variant"):
                dnf = R.reach_dnf(r, Or, bb)
                masked = "BitAnd %d)" % table["class_mask"]
                for path in dnf or ():
                    vals, excluded = [], set()
                    for k, truth in path:
                        parts = k.split("|")
                        if masked not in parts[0]:
                            continue        # a test of other bits than the two class bits does not decide the class
                        try:
                            if parts[2] == "eq" and truth == "at-or-above":
                                vals.append(int(parts[3]))
                            elif parts[2] == "eq":
                                excluded.add(int(parts[3]))
                            elif parts[2] == "b" and parts[3] == "1" and truth == "below":
                                vals.append(0)      # `x == 0` of an unsigned value is kept as `x < 1`
                            elif parts[2] == "b" and parts[3] == "1":
                                excluded.add(0)
                        except ValueError:
                            continue
                    if not vals and excluded:
                        # the last `else` of the chain: the one class value that was not excluded
                        rest = set(want.values()) - excluded
                        if len(rest) == 1:
                            vals = sorted(rest)
                    for v in vals:
                        if rv["variant"] not in rt.setdefault(v, []):
                            rt[v].append(rv["variant"])
    detail = {"writer": wt, "reader": rt, "x690": want, "constants": cvals}
    for cls, bits in want.items():
        got = wt.get(cls)
        if got != [bits]:
            ctx.fail(rule, "write:" + cls, "write_identifier emits class bits %s for Tag::%s; X.690 8.1.2.2 requires 0x%02X" % (got, cls, bits),
                     "%s:%d" % (w.file, w.line), detail)
        else:
            ctx.ok(rule, "write:" + cls, detail)
        back = rt.get(bits)
        if back != [cls]:
            ctx.fail(rule, "read:" + cls, "read_identifier maps class bits 0x%02X to %s instead of Tag::%s" % (bits, back, cls),
                     "%s:%d" % (r.file, r.line), detail)
        else:
            ctx.ok(rule, "read:" + cls, detail)
    # the class bits reach the wire: bit provenance of the octet handed to write_all (OR keeps, AND with a constant filters)
    def const_val(e):
        e = F.strip_casts(e)
        if e[0] == "const":
            return e[1] & 0xFF
        if e[0] == "un" and e[1] == "Not":
            v = const_val(e[2])
            return None if v is None else (~v) & 0xFF
        return None

    def class_mask(e):
        """bits of the written octet that can still carry what the class table put there"""
        e = F.strip_casts(e)
        if e[0] == "phi" and all(F.strip_casts(a)[0] == "const" and (a[3] or "").split("::")[-1].startswith("CLASS_BITS_") for a in e[1]):
            m = 0
            for a in e[1]:
                m |= a[1]
            return m
        if e[0] == "bin":
            op = X.norm_op(e[1])
            l, r_ = class_mask(e[2]), class_mask(e[3])
            if op in ("BitOr", "BitXor", "Add"):
                return l | r_
            if op == "BitAnd":
                cl, cr = const_val(e[2]), const_val(e[3])
                if cr is not None:
                    return l & cr
                if cl is not None:
                    return r_ & cl
                return l | r_
            return 0
        return 0
    written = None
    for cs in w.calls():
        if cs.name == "write_all":
            a = Ow.call_args(cs)
            for e in X.walk(a[1] if len(a) > 1 else a[0]):
                if e[0] == "agg" and e[1] == "array" and e[4]:
                    written = (e[4][0][1], cs.loc())
    if written is None:
        ctx.fail(rule, "write:anchor-lost:octet", "write_identifier no longer hands a one-octet array to write_all", "%s:%d" % (w.file, w.line))
    else:
        m = class_mask(written[0])
        d2 = {"written_octet": F.rd(written[0])[:200], "class_bits_that_reach_the_wire": "0x%02X" % m}
        if m & table["class_mask"] != table["class_mask"]:
            ctx.fail(rule, "write:class-reaches-wire", "only the bits 0x%02X of the class table reach the written octet (X.690 8.1.2.2: bits 8 "
                                                       "and 7 carry the class): every tag is written as if it were of another class" % m,
                     written[1], d2)
        else:
            ctx.ok(rule, "write:class-reaches-wire", d2)
    # mask
    ffr = R.FnFacts(P, r, include_closures=False)
    if "BitAnd %d" % table["class_mask"] not in ffr.constops or "BitAnd %d" % (255 - table["class_mask"]) not in ffr.constops:
        ctx.fail(rule, "read:mask", "read_identifier does not split the octet with the masks 0xC0 / 0x3F", "%s:%d" % (r.file, r.line),
                 {"constops": sorted(ffr.constops)})
    else:
        ctx.ok(rule, "read:mask", {"constops": sorted(ffr.constops)})


def r2_r3_r5(ctx, table):
    ctx.rule("C20.R2", "T3-b X.690 table: length-form boundary 128 on the writer, bit-8 split on the reader, long-form marker 0x80, "
                       "boolean `!= 0`, 8-octet limit of integer contents, identifier/length/content sequence of BOOLEAN and INTEGER")
    ctx.rule("C20.R2.near", "T3-c near miss on the same facts")
    n = R.check_table(ctx, "C20.R2", "C20.R2.near", table)
    ctx.floor("C20.R2", n, "C20.R2.entries")
    # R3: write_boolean emits a non-zero constant for true and 0 for false
    rule = "C20.R3"
    ctx.rule(rule, "boolean constants: write_boolean emits a non-zero octet for true and 0 for false")
    P = ctx.program()
    try:
        b = P.one("asn1rs", "BasicWrite for T>::write_boolean")
    except KeyError as e:
        ctx.fail(rule, "anchor-lost:write_boolean", str(e))
        return
    O = X.Origins(b, P)
    t = None
    for bb, tm in b.switches():
        ex = O.switch_cond(bb)
        if F.rd(R.positional(ex)) == "$2":
            t = (bb, tm)
    if t is None:
        ctx.fail(rule, "anchor-lost:switch-on-value", "write_boolean does not branch on its value", "%s:%d" % (b.file, b.line))
        return
    bb, tm = t
    vals = {}
    for v, tg in list(zip(tm["vals"], tm["targets"])) + [("other", tm["otherwise"])]:
        for s in b.blocks[tg]["stmts"]:
            if s["k"] == "assign" and s["rv"]["k"] == "use" and s["rv"]["op"].get("k") == "const" and "val" in s["rv"]["op"]:
                vals[v] = int(s["rv"]["op"]["val"])
    detail = {"function": b.path, "octet_by_branch": vals}
    f, tr = vals.get("0"), vals.get("other")
    if f != 0 or not tr:
        ctx.fail(rule, "write_boolean", "write_boolean emits %s for false and %s for true" % (f, tr), "%s:%d" % (b.file, b.line), detail)
    else:
        ctx.ok(rule, "write_boolean", detail)
    # R5: width agreement of write_number's length and write_integer_i64's octet count
    rule = "C20.R5"
    ctx.rule(rule, "integer width agreement: the length announced by BasicWriter::write_number and the octets written by "
                   "write_integer_i64 are both built from leading_zeros / u8::BITS of the same value (8 - n, at least 1 / offset "
                   "clamped to 7)")
    try:
        wn = P.one("asn1rs", "BasicWriter<W> as descriptor::Writer>::write_number")
        wi = P.one("asn1rs", "BasicWrite for T>::write_integer_i64")
    except KeyError as e:
        ctx.fail(rule, "anchor-lost", str(e))
        return
    fn, fi = R.FnFacts(P, wn, False), R.FnFacts(P, wi, False)
    a = [k for k in fn.allcalls if k.startswith("Ord::max(") and "leading_zeros" in k and "Div 8" in k and k.endswith(", 1)")]
    b2 = [k for k in fi.allcalls if k.startswith("Ord::min(") and "leading_zeros" in k and "Div 8" in k and ("Sub 1" in k or k.endswith(", 7)"))]
    detail = {"write_number_length": a[:1], "write_integer_i64_offset": b2[:1]}
    if not a or not b2:
        ctx.fail(rule, "width", "the announced length (8 - lz/8, max 1) and the written octets (bytes[min(lz/8, 7)..]) are no longer "
                                "derived from the same leading_zeros / 8 expression", "%s:%d" % (wn.file, wn.line), detail)
    else:
        ctx.ok(rule, "width", detail)


def r4(ctx):
    rule = "C20.R4"
    ctx.rule(rule, "T2 skeleton symmetry in rw/der.rs: every implemented Writer method of BasicWriter has an implemented Reader twin of "
                   "BasicReader performing the same BasicWrite/BasicRead calls (identifier, length, content)")
    P = ctx.program()
    ws = {b.name: b for b in P.lib_bodies("asn1rs") if b.path.startswith("<rw::der::BasicWriter<W> as descriptor::Writer>::")
          and b.def_kind == "AssocFn" and "::promoted[" not in b.path}
    rs = {b.name: b for b in P.lib_bodies("asn1rs") if b.path.startswith("<rw::der::BasicReader<R> as descriptor::Reader>::")
          and b.def_kind == "AssocFn" and "::promoted[" not in b.path}
    ctx.anchor(rule, "impl Writer for BasicWriter", ws)
    n = todo = 0
    for wn, wb in sorted(ws.items()):
        if not wn.startswith("write_"):
            continue
        rb = rs.get("read_" + wn[6:])
        if rb is None:
            continue
        wt, rt = is_todo_body(wb), is_todo_body(rb)
        if wt and rt:
            todo += 1
            continue
        name = wn[6:]
        if wt != rt:
            ctx.fail(rule, name + "#one-sided", "DER kind `%s` is implemented only on the %s side" % (name, "reader" if wt else "writer"),
                     "%s:%d" % (wb.file, wb.line))
            continue
        n += 1

        def skel(b):
            out = set()
            for body in [b] + P.closures_of(b):
                O = X.Origins(body, P)
                for cs in body.calls():
                    d = R.codec_call_desc(P, cs, O.call_args(cs), R.ALL)
                    if d is not None:
                        out.add("%s(%s)" % (d[0], ", ".join("%s=%s" % kv for kv in d[1])))
                    elif cs.fn and (cs.trait or "").split("::")[-1] in ("WritableType", "ReadableType"):
                        import re as _re
                        a0 = ",".join(a for a in cs.fn["args"][:1])
                        a0 = _re.sub(r"<rw::der::Basic(Writer<W>|Reader<R>) as descriptor::(Writer|Reader)>::(write|read)_", "<Basic as X>::", a0)
                        out.add("value<%s>" % a0)
            return out

        sw, sr = skel(wb), skel(rb)
        # the reader's extra `length` validation etc. are not codec calls; sets must match
        detail = {"writer": sorted(sw), "reader": sorted(sr)}
        if sw != sr:
            ctx.fail(rule, name, "DER writer and reader of `%s` perform different primitive calls: %s vs %s" % (name, sorted(sw), sorted(sr)),
                     "%s:%d" % (wb.file, wb.line), detail)
        else:
            ctx.ok(rule, name, detail)
    ctx.ok(rule, "census", {"implemented_pairs": n, "unimplemented_pairs": todo}, nontrivial=False)
    ctx.floor(rule, n, "C20.R4.pairs")


def r6(ctx):
    import re
    rule = "C20.R6"
    ctx.rule(rule, "adapter symmetry: the local constraint adapters that BasicWriter::write_K and BasicReader::read_K of rw/der.rs "
                   "declare to reuse the INTEGER codec (IntegerConstraint<IC>) define every associated constant from the same "
                   "expression on both sides (TAG forwards the type's own tag, MIN / MAX / EXTENSIBLE agree)")
    P = ctx.program()
    side = {"w": {}, "r": {}}
    for k, b in P.bodies.items():
        if b.def_kind != "AssocConst" or "rw::der::" not in k:
            continue
        m = re.search(r"rw::der::Basic(Writer|Reader)<\w+> as descriptor::(?:Writer|Reader)>::(?:write|read)_(\w+)::(\w+)<.*> as ([\w:]+)(?:<.*>)?>::(\w+)$", k)
        if not m:
            continue
        O = X.Origins(b, P)
        vals = sorted(F.rd(O.rvalue(d[3], d[0], d[1], 0)) if d[2] == "assign" else "call " + str(d[3].callee) for d in b.defs.get(0, ()))
        side["w" if m.group(1) == "Writer" else "r"][(m.group(2), m.group(3), m.group(4).split("::")[-2] if "::" in m.group(4) else m.group(4), m.group(5))] = (vals, "%s:%d" % (b.file, b.line))
    n = 0
    for key in sorted(set(side["w"]) | set(side["r"])):
        w, r = side["w"].get(key), side["r"].get(key)
        name = "%s::%s<%s>::%s" % key
        detail = {"kind": key[0], "adapter": key[1], "trait": key[2], "constant": key[3], "writer": w and w[0], "reader": r and r[0]}
        if w is None or r is None:
            # a constant that only one side needs to override is compared with the trait default by rustc; nothing to pair
            ctx.ok(rule, name, dict(detail, note="declared on one side only"), nontrivial=False)
            continue
        n += 1
        if w[0] != r[0]:
            ctx.fail(rule, name, "the %s adapter of write_%s defines %s as %s, the one of read_%s as %s: what the writer emits is not what the "
                                 "reader expects" % (key[1], key[0], key[3], w[0], key[0], r[0]), w[1], detail)
        else:
            ctx.ok(rule, name, detail)
    ctx.floor(rule, n, "C20.R6.paired_constants")



def r7(ctx):
    from .c01 import payload_used
    rule = "C20.R7"
    ctx.rule(rule, "all-or-error content reads: the DER / BER primitive readers (impl BasicRead for T, rw::der) fill their buffers with "
                   "Read::read_exact; a call of Read::read whose byte count is not used accepts a short read (BufReader, chained or "
                   "network readers) and leaves content octets unconsumed; likewise the writers use Write::write_all, not a Write::write whose count is ignored")
    P = ctx.program()
    n = 0
    exact = 0
    for b in P.lib_bodies("asn1rs"):
        if "::promoted[" in b.path or "::tests::" in b.path or b.derived:
            continue
        if not ("protocol::basic" in b.path or "rw::der" in b.path):
            continue
        for cs in b.calls():
            tr = (cs.trait or "")
            if tr.endswith("io::Write") and cs.name in ("write", "write_vectored"):
                # the mirror image on the writer: `write` may accept fewer octets than offered
                n += 1
                usedw = payload_used(b, cs)
                keyw = "%s#%s" % (X.short(b.root or b.path), cs.name)
                dw = {"function": b.path, "call": cs.name, "byte_count_used": usedw}
                if not usedw:
                    ctx.fail(rule, keyw, "%s calls Write::%s and ignores how many bytes were written: a sink that accepts fewer octets per "
                                         "call (a slice, a pipe) receives truncated content under a length that announces all of it"
                             % (X.short(b.root or b.path), cs.name), cs.loc(), dw)
                else:
                    ctx.ok(rule, keyw, dw)
                continue
            if not tr.endswith("io::Read"):
                continue
            if cs.name == "read_exact":
                exact += 1
                continue
            if cs.name not in ("read", "read_vectored", "read_buf"):
                continue
            n += 1
            used = payload_used(b, cs)
            detail = {"function": b.path, "call": cs.name, "byte_count_used": used}
            key = "%s#%s" % (X.short(b.root or b.path), cs.name)
            if not used:
                ctx.fail(rule, key, "%s calls Read::%s and ignores how many bytes were read: a reader that returns short reads yields a "
                                    "wrong value and leaves content octets in the stream" % (X.short(b.root or b.path), cs.name), cs.loc(), detail)
            else:
                ctx.ok(rule, key, detail)
    ctx.floor(rule, exact, "C20.R7.read_exact_sites")

def r8(ctx):
    rule = "C20.R8"
    ctx.rule(rule, "the extension marker does not exist on the DER wire (X.690 8.4: an ENUMERATED is encoded as its integer value, "
                   "X.680 extensibility has no effect on BER / DER): BasicReader::read_enumerated and BasicWriter::write_enumerated "
                   "decide on VARIANT_COUNT / from_choice_index only - a mention of STD_VARIANT_COUNT or EXTENSIBLE (the root / "
                   "addition split of PER) makes one side refuse or reorder values the other side produces")
    P = ctx.program()
    n = 0
    for side, pat in (("reader", "BasicReader"), ("writer", "BasicWriter")):
        nm = "read_enumerated" if side == "reader" else "write_enumerated"
        roots = [b for b in P.lib_bodies("asn1rs") if b.file.endswith("rw/der.rs") and b.name == nm and b.def_kind == "AssocFn" and pat in b.path]
        if len(roots) != 1:
            ctx.fail(rule, "anchor-lost:" + nm, "matched %d bodies" % len(roots))
            continue
        root = roots[0]
        n += 1
        found = []

        def scan(o):
            if isinstance(o, dict):
                if o.get("k") == "const" and o.get("trait") and o.get("name") in ("STD_VARIANT_COUNT", "EXTENSIBLE", "EXTENDED_AFTER_INDEX"):
                    found.append((o["name"], (o.get("sp") or {}).get("s")))
                for k, v in o.items():
                    if k not in ("sp", "fsp", "exp"):
                        scan(v)
            elif isinstance(o, list):
                for v in o:
                    scan(v)
        bodies = [root] + P.closures_of(root)
        for b in bodies:
            scan(b.raw["blocks"])
            # promoted constants of these bodies (`&(0..C::STD_VARIANT_COUNT)`)
            for k, pb in P.bodies.items():
                if k.startswith("%s::%s::promoted[" % (b.crate, b.path)):
                    scan(pb.raw["blocks"])
        d = {"function": root.path, "per_only_constants_mentioned": sorted({f[0] for f in found})}
        if found:
            ctx.fail(rule, nm + "#per-root-split", "%s mentions %s: the DER %s treats extension additions of an ENUMERATED differently from "
                                                   "root values, which the other side does not" % (nm, found[0][0], side),
                     "%s:%d" % (root.file, root.line), d)
        else:
            ctx.ok(rule, nm, d)
    ctx.floor(rule, n, "C20.R8.functions")


def run(ctx):
    with open(os.path.join(VERIF, "tables", "x690.json")) as fh:
        table = json.load(fh)
    r1(ctx, table)
    r2_r3_r5(ctx, table)
    r4(ctx)
    r6(ctx)
    r7(ctx)
    r8(ctx)

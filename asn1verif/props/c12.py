"""C12 - value references and imports resolve like the literals they name (DESIGN.md 5/C12)."""
import re

from .. import expr as X
from .. import facts as F
from .. import rules as R
from ..mir import span_loc

SUBST_CALLS = ("unwrap_or", "unwrap_or_default", "unwrap_or_else", "default", "or", "or_else_default")
LOOKUPS = ("value_reference", "definition", "value_reference_at_depth", "definition_at_depth")


def resolver_bodies(ctx, rule):
    P = ctx.program()
    out = [b for b in P.lib_bodies("asn1rs_model") if b.name == "resolve" and (b.impl_trait or "").endswith("resolve::Resolver")
           and "ResolveScope" in (b.impl_self_ty or "") and b.def_kind == "AssocFn" and "::promoted[" not in b.path]
    ctx.floor(rule, len(out), "C12.R1.resolvers")
    return out


def r1_r2(ctx):
    r1 = "C12.R1"
    r2 = "C12.R2"
    ctx.rule(r1, "T5 lookup variant (no substitution): every value a Resolver impl of ResolveScope returns as Ok comes from the literal or "
                 "from the looked-up value reference / definition - never from a constant, Default::default or unwrap_or*")
    ctx.rule(r2, "lossless use: no `as` cast is applied to a looked-up value inside the resolvers")
    P = ctx.program()
    for b in resolver_bodies(ctx, r1):
        payloads = []
        casts = []
        for body in [b] + P.closures_of(b):
            O = X.Origins(body, P)
            for bb, j, s in body.all_statements():
                if s["k"] != "assign":
                    continue
                rv = s["rv"]
                if rv["k"] == "agg" and rv.get("ak") == "adt" and rv["adt"].endswith("result::Result") and rv["variant"] == "Ok":
                    payloads.append((O.operand(rv["ops"][0], bb, j), span_loc(s["sp"]), body))
                if rv["k"] == "cast" and rv["ck"] == "IntToInt":
                    ex = O.operand(rv["op"], bb, j)
                    if any(e[0] == "call" and X.last_seg(e[1]) in LOOKUPS + ("to_integer",) for e in X.walk(ex)) or \
                            any(e[0] in ("param", "upvar") for e in X.walk(ex)):
                        casts.append(("%s as %s" % (X.render(ex)[:60], rv["ty"]), span_loc(s["sp"])))
            if body is b:
                # values returned through combinators: `_0 = lookup.map(..).ok_or_else(..)`
                for d in body.defs.get(0, ()):
                    if d[2] == "call" and d[3].name != "from_residual":     # the Err side of `?` carries no Ok payload
                        payloads.append((O.call_ex(d[3], 0), d[3].loc(), body))
        name = (b.impl_self_ty or "") + " as " + re.sub(r".*Resolver", "Resolver", b.path.split(">::")[0])
        name = re.sub(r"^<.*? as ", "", b.path).replace(">::resolve", "")
        bad = []
        for ex, loc, body in payloads:
            txt = X.render(ex)
            subst = [X.last_seg(e[1]) for e in X.walk(ex) if e[0] == "call" and X.last_seg(e[1]) in SUBST_CALLS]
            from_lit = "as Lit" in txt
            from_lookup = any(e[0] == "call" and X.last_seg(e[1]) in LOOKUPS + ("to_integer", "try_from") for e in X.walk(ex)) or \
                any(e[0] in ("param", "upvar") and e[2] in ("value", "vr", "def") for e in X.walk(ex))
            leafless = not any(e[0] in ("param", "upvar", "call", "try", "env") for e in X.walk(ex))
            if subst:
                bad.append(("substitutes a default through %s" % subst[0], loc, txt))
            elif leafless:
                bad.append(("returns the constant `%s`" % txt[:40], loc, txt))
            elif not (from_lit or from_lookup):
                bad.append(("returns `%s`, which is neither the literal nor the looked-up value" % txt[:60], loc, txt))
        detail = {"resolver": name, "ok_payloads": [X.render(e)[:100] for e, _, _ in payloads]}
        if not payloads:
            ctx.fail(r1, name + "#anchor-lost", "no Ok payload found in " + name, "%s:%d" % (b.file, b.line), detail)
        elif bad:
            ctx.fail(r1, name, "%s %s: an unresolvable or non-integer reference is silently replaced" % (name, bad[0][0]), bad[0][1], detail)
        else:
            ctx.ok(r1, name, detail)
        if casts:
            ctx.fail(r2, name, "the looked-up value is converted with `%s`: a negative or too wide value changes silently, where the literal "
                               "would be rejected" % casts[0][0], casts[0][1], {"casts": casts})
        else:
            ctx.ok(r2, name, {"casts_on_looked_up_values": 0})


def literal_constants(P, body):
    """integer constants the token-level parser compares a literal bound with"""
    out = set()
    for b in [body] + P.closures_of(body):
        O = X.Origins(b, P)
        for bb, scrut, table in R.int_switch_tables(P, b, O):
            if "as Lit" in scrut:
                out |= set(table)
        for bb, t in b.switches():
            ex = X.render(O.switch_cond(bb))
            if "as Lit" in ex and t.get("opty") not in ("bool", "isize"):
                out |= {int(v) for v in t["vals"]}
        for bb, j, s in b.all_statements():
            if s["k"] == "assign" and s["rv"]["k"] == "agg" and s["rv"].get("variant") == "Lit" and s["rv"]["adt"].endswith("LitOrRef"):
                o = s["rv"]["ops"][0]
                if o.get("k") == "const" and "val" in o:
                    out.add(int(o["val"]))
                else:
                    e = O.operand(o, bb, j)
                    if e[0] == "const":
                        out.add(e[1])
        # promoted constants hold `LitOrRef::Lit(c)` patterns used with eq/ne
    for pb in P.lib_bodies(body.crate):
        if pb.path.startswith(body.path + "::") and "::promoted[" in pb.path or pb.path.startswith(body.path + "::promoted["):
            for bb, j, s in pb.all_statements():
                if s["k"] == "assign" and s["rv"]["k"] == "agg" and s["rv"].get("variant") == "Lit":
                    o = s["rv"]["ops"][0]
                    if o.get("k") == "const" and "val" in o:
                        out.add(int(o["val"]))
    return out


def compared_constants(P, body, depth=1):
    out = set()
    bodies = [body] + P.closures_of(body)
    if depth > 0:
        for cs in body.calls():
            t = P.resolve_callee(body.crate, cs)
            if t is not None and t.crate == body.crate and t.file == body.file and t.key != body.key:
                bodies.append(t)
    for b in bodies:
        O = X.Origins(b, P)
        for bb, t in b.switches():
            if t.get("opty") not in ("bool", "isize"):
                out |= {int(v) for v in t["vals"]}
        for c in F.comparisons(b, O):
            if c.rhs == "" and c.kind == "eq":
                out.add(c.boundary)
            elif c.rhs == "":
                out.add(c.boundary)
                out.add(c.boundary - 1)
    return out


def r3(ctx):
    rule = "C12.R3"
    ctx.rule(rule, "T7 normalisation twin: every literal value the token-level parser of INTEGER ranges / SIZE constraints branches on "
                   "(LitOrRef::Lit(c)) is also tested by the type's try_resolve (or the normaliser it calls), so a referenced bound ends in "
                   "the same model as the literal - and, the other way round, try_resolve singles out no extreme value (|c| > 2^31) that the "
                   "parser of the literal form does not")
    P = ctx.program()
    pairs = [("Integer", "asn::integer::Integer<", "integer.rs"), ("Size", "asn::size::Size<", "size.rs")]
    for name, ty, f in pairs:
        parser = [b for b in P.lib_bodies("asn1rs_model") if b.name == "try_from" and b.file.endswith("asn/" + f) and b.def_kind == "AssocFn"
                  and "::promoted[" not in b.path and ty in (b.impl_self_ty or "")]
        resolver = [b for b in P.lib_bodies("asn1rs_model") if b.name == "try_resolve" and b.file.endswith("asn/" + f)
                    and b.def_kind == "AssocFn" and "::promoted[" not in b.path and ty in (b.impl_self_ty or "")]
        if len(parser) != 1 or len(resolver) != 1:
            ctx.fail(rule, name + "#anchor-lost", "parser / try_resolve of %s not found (%d / %d)" % (name, len(parser), len(resolver)))
            continue
        cp = literal_constants(P, parser[0])
        cr = compared_constants(P, resolver[0])
        detail = {"type": name, "parser_literal_constants": sorted(cp), "resolver_compared_constants": sorted(cr)[:12]}
        if not cp:
            ctx.ok(rule, name, dict(detail, note="the parser does not branch on literal bounds"), nontrivial=False)
            continue
        missing = sorted(cp - cr)
        extra = sorted(c for c in (cr - cp) if abs(c) > 2 ** 31)
        if extra and not missing:
            ctx.fail(rule, name + "#resolver-only", "try_resolve of %s treats the bound(s) %s specially, but the parser of the literal form does "
                                                    "not: a range written with these values (or with references to them) is normalised to "
                                                    "something the literal spelling is not" % (name, extra),
                     "%s:%d" % (resolver[0].file, resolver[0].line), detail)
            continue
        if missing:
            ctx.fail(rule, name, "the parser of %s treats the literal bound(s) %s specially, but try_resolve never tests them: `%s (ref..)` with "
                                 "ref = %s resolves to a different model than the literal" % (name, missing, name.upper(), missing[0]),
                     "%s:%d" % (resolver[0].file, resolver[0].line), detail)
        else:
            ctx.ok(rule, name, detail)


def eq_fields(P, body):
    """pairs of field names compared with eq inside a body and its closures"""
    out = set()
    for b in [body] + P.closures_of(body):
        O = X.Origins(b, P)
        for cs in b.calls():
            if cs.name in ("eq", "ne") and len(cs.args) == 2:
                a = [X.render(x) for x in O.call_args(cs)]
                fa = [re.findall(r"\.([a-z_]+)\b", x)[-1:] for x in a]
                if fa[0] and fa[1]:
                    out.add(tuple(sorted((fa[0][0], fa[1][0]))))
    return out


def r4(ctx):
    rule = "C12.R4"
    ctx.rule(rule, "T7 import-match agreement: the value/type resolver and the tag resolver select the exporting module of an import with "
                   "the same relation (object identifier or name)")
    P = ctx.program()
    try:
        a = P.one("asn1rs_model", "ResolveScope::<'a>::model_with_imported_item")
    except KeyError as e:
        ctx.fail(rule, "anchor-lost:model_with_imported_item", str(e))
        return
    bs = [b for b in P.lib_bodies("asn1rs_model") if "TagResolver" in b.path and b.def_kind == "AssocFn" and "::promoted[" not in b.path
          and b.name.startswith("resolve_tag")]
    fa = eq_fields(P, a)
    fb = set()
    for b in bs:
        fb |= eq_fields(P, b)
    key_a = {p for p in fa if "from" in p or "from_oid" in p or "oid" in p}
    key_b = {p for p in fb if "from" in p or "from_oid" in p or "oid" in p or p == ("name", "name")}
    oid_a = any("oid" in x for p in key_a for x in p)
    oid_b = any("oid" in x for p in fb for x in p)
    detail = {"resolve_scope_compares": sorted(fa), "tag_resolver_compares": sorted(fb)}
    if oid_a != oid_b:
        ctx.fail(rule, "tag-resolver-ignores-oid", "ResolveScope::model_with_imported_item matches the exporting module by object identifier or "
                                                  "name, TagResolver::resolve_tag by name only: an import by OID from a module whose name differs "
                                                  "resolves its values but not its tags", "asn1rs-model/src/asn/tag_resolver.rs", detail)
    else:
        ctx.ok(rule, "import-match", detail)


def r5(ctx):
    rule = "C12.R5"
    ctx.rule(rule, "full scope: MultiModuleResolver::try_resolve_all hands every model the whole list of loaded models (no prefix, filter or "
                   "reordering), so resolution does not depend on the load order")
    P = ctx.program()
    try:
        b = P.one("asn1rs_model", "MultiModuleResolver::try_resolve_all")
    except KeyError as e:
        ctx.fail(rule, "anchor-lost:try_resolve_all", str(e))
        return
    scopes = []
    bad = []
    for body in [b] + P.closures_of(b):
        O = X.Origins(body, P)
        for bb, j, s in body.all_statements():
            if s["k"] == "assign" and s["rv"]["k"] == "agg" and s["rv"].get("adt", "").endswith("ResolveScope"):
                for nm, o in zip(s["rv"]["fields"], s["rv"]["ops"]):
                    if nm == "scope":
                        scopes.append(X.render(O.operand(o, bb, j)))
        for cs in body.calls():
            if cs.name in ("index", "split_at", "filter", "skip", "take", "split_first", "split_last", "rev", "sort", "sort_by"):
                bad.append(cs)
    detail = {"scope_field": scopes}
    if not scopes:
        ctx.fail(rule, "anchor-lost:scope-field", "ResolveScope { scope: .. } not constructed in try_resolve_all", "%s:%d" % (b.file, b.line))
    elif bad or not all("models" in s_ for s_ in scopes):
        ctx.fail(rule, "full-scope", "the scope handed to a model is not the whole `self.models` (%s)" % (bad[0].name if bad else scopes),
                 bad[0].loc() if bad else "%s:%d" % (b.file, b.line), detail)
    else:
        ctx.ok(rule, "full-scope", detail)


def r6(ctx):
    rule = "C12.R6"
    ctx.rule(rule, "an absent object identifier matches nothing: every hand-written equality test between two "
                   "Option<ObjectIdentifier> values that selects a module is evaluated only when one side is known to be Some "
                   "(a dominating is_some test) - otherwise `None == None` makes the first module without an OID the exporter of "
                   "every import without an OID, and resolution depends on the load order")
    P = ctx.program()
    n = 0
    for b in P.lib_bodies("asn1rs_model"):
        if getattr(b, "derived", False) or "::tests::" in b.path:
            continue
        O = None
        for cs in b.calls():
            tys = cs.term.get("argtys", ["-"])
            if cs.name not in ("eq", "ne") or not all("ObjectIdentifier" in t for t in tys):
                continue
            O = O or X.Origins(b, P)
            args = [F.rd(R.positional(a)) for a in O.call_args(cs)]
            key = "%s#oid-eq" % (b.root or b.path)
            if not any("Option<" in t for t in tys):
                # `match (&m.oid, &import.from_oid) { (Some(a), Some(b)) => a.eq(b), .. }`: both sides were matched as Some
                if all(" as Some)" in a for a in args):
                    n += 1
                    ctx.ok(rule, key, {"function": b.path, "compares": args, "guarded_by": "both operands are payloads of a `Some` pattern"})
                continue
            if not all("Option<" in t for t in tys):
                continue
            n += 1
            guarded = None
            for g in b.calls():
                if g.name == "is_some" and g.target is not None:
                    ga = F.rd(R.positional(O.call_args(g)[0]))
                    if ga not in args:
                        continue
                    t = b.blocks[g.target]["term"]
                    if t and t["k"] == "switch" and len(t["targets"]) == 1:
                        true_bb = t["otherwise"] if int(t["vals"][0]) == 0 else t["targets"][0]
                        if true_bb == cs.bb or b.dominates(true_bb, cs.bb):
                            guarded = g
            detail = {"function": b.path, "compares": args, "guarded_by": guarded.loc() if guarded else None}
            if guarded is None:
                ctx.fail(rule, key, "two optional object identifiers are compared without requiring one of them to be present: a module "
                                    "without an OID matches every import without an OID", cs.loc(), detail)
            else:
                ctx.ok(rule, key, detail)
    ctx.floor(rule, n, "C12.R6.sites")


def r7(ctx):
    rule = "C12.R7"
    ctx.rule(rule, "T6 normaliser provenance: Size::reconsider_constraints (run on every resolved SIZE, i.e. on bounds given by "
                   "reference) rebuilds a value only from the fields of the value it received - in particular the extension marker of "
                   "the rebuilt Size comes from the marker of the source - so that SIZE(lo..hi,...) with lo = hi = 2 ends in the same "
                   "model as the literal SIZE(2..2,...)")
    P = ctx.program()
    bs = [b for b in P.find("asn1rs_model", "Size::reconsider_constraints") if b.def_kind == "AssocFn"]
    if len(bs) != 1:
        ctx.fail(rule, "anchor-lost:reconsider_constraints", "matched %d bodies" % len(bs))
        return
    b = bs[0]
    O = X.Origins(b, P)
    n = 0
    for bb, j, st in b.all_statements():
        if st["k"] == "assign" and st["rv"]["k"] == "agg" and st["rv"].get("ak") == "adt" and st["rv"]["adt"].endswith("size::Size") and st["rv"]["ops"]:
            n += 1
            v = st["rv"]["variant"]
            fields = [F.rd(R.positional(O.operand(o, bb, j))) for o in st["rv"]["ops"]]
            detail = {"variant": v, "fields": fields}
            consts = [f for f in fields if not f.startswith("($1 as ")]
            marker = fields[-1]
            if consts:
                ctx.fail(rule, "reconsider_constraints#Size::" + v, "Size::%s is rebuilt with `%s`, which is not a field of the value being "
                                                                    "normalised: a bound given by reference resolves to a different model "
                                                                    "than the same literal" % (v, consts[0]), span_loc(st["sp"]), detail)
            elif not marker.endswith(".2"):
                ctx.fail(rule, "reconsider_constraints#Size::" + v, "the extension marker of the rebuilt Size::%s is `%s`, not the source's marker"
                         % (v, marker), span_loc(st["sp"]), detail)
            else:
                ctx.ok(rule, "reconsider_constraints#Size::" + v, detail)
    ctx.floor(rule, n, "C12.R7.rebuilds")


def r8(ctx):
    rule = "C12.R8"
    ctx.rule(rule, "no state leaks between FROM clauses: read_imports collects the symbols of one clause in an accumulator and, "
                   "after pushing it, replaces the whole accumulator by a fresh Import (or pushes a freshly built one) - a field "
                   "that is only conditionally overwritten (`from_oid` when the clause has an OID) otherwise carries the previous "
                   "clause's module identifier into the next import, and the reference resolves in the wrong module")
    P = ctx.program()
    bs = [b for b in P.find("asn1rs_model", "::read_imports") if b.def_kind == "AssocFn"]
    if len(bs) != 1:
        ctx.fail(rule, "anchor-lost:read_imports", "matched %d bodies" % len(bs))
        return
    b = bs[0]
    O = X.Origins(b, P)
    pushes = [cs for cs in b.calls() if cs.name == "push" and any("model::Import" in t for t in cs.term.get("argtys", []))]
    if not pushes:
        ctx.fail(rule, "read_imports#anchor-lost:push", "no push of an Import", "%s:%d" % (b.file, b.line))
        return
    for i, cs in enumerate(pushes):
        arg = cs.args[1]
        acc = None
        if arg.get("k") in ("copy", "move") and not arg["pl"]["p"]:
            acc = arg["pl"]["l"]
            # pushed through a clone: the accumulator is what was cloned
            for d in b.defs.get(acc, ()):
                if d[2] == "call" and d[3].name == "clone":
                    a0 = d[3].args[0]
                    src = O.operand(a0, d[3].bb, len(b.blocks[d[3].bb]["stmts"]))
                    for e in X.walk(src):
                        if e[0] == "local":
                            acc = e[1]
        # the pushed operand is usually a temporary `_t = move import`: follow plain moves back to the named local
        for _ in range(4):
            ds = b.defs.get(acc, ()) if acc is not None else ()
            if len(ds) == 1 and ds[0][2] == "assign" and ds[0][3]["k"] == "use" and ds[0][3]["op"].get("k") in ("copy", "move") \
                    and not ds[0][3]["op"]["pl"]["p"]:
                acc = ds[0][3]["op"]["pl"]["l"]
            else:
                break
        fresh_before = False
        reset_after = []
        if acc is not None:
            for d in b.defs.get(acc, ()):
                whole = True
                if d[2] == "assign":
                    pass
                blk = d[0]
                if cs.target is not None and (blk == cs.target or b.dominates(cs.target, blk)) and d[2] in ("call", "assign"):
                    if d[2] == "call":
                        what = d[3].name
                    else:
                        e = O.rvalue(d[3], d[0], d[1], 0)
                        while e[0] in ("ref", "deref", "mut"):
                            e = e[1]
                        what = X.last_seg(e[1]) if e[0] == "call" else e[0]
                    reset_after.append((what, blk))
        name = (b.names or {}).get(acc, "_%s" % acc)
        detail = {"pushed": name, "whole_reassignments_after_push": reset_after}
        ok = any(w in ("default", "new", "agg") for w, _ in reset_after)
        if not ok:
            ctx.fail(rule, "read_imports#accumulator-reset", "after an Import is pushed the accumulator `%s` is not replaced by a fresh value: "
                                                             "fields that the next clause does not set keep the previous clause's content"
                     % name, cs.loc(), detail)
        else:
            ctx.ok(rule, "read_imports#accumulator-reset", detail)



def r9(ctx):
    rule = "C12.R9"
    ctx.rule(rule, "T6 scope is carried along the import chain: wherever ResolveScope::value_reference_at_depth / definition_at_depth "
                   "continue the lookup in the exporting module, the ResolveScope they continue on is built with `scope` taken from "
                   "`self.scope` (the whole list of loaded modules) - a scope rebuilt from the exporting module alone "
                   "(ResolveScope::from(model)) cannot follow that module's own imports, and a reference that is re-exported through an "
                   "intermediate module stops resolving")
    P = ctx.program()
    n = 0
    # every place where a ResolveScope method is called on a ResolveScope other than `self`: the lookup continues in another module
    roots = [b for b in P.lib_bodies("asn1rs_model") if "ResolveScope" in b.path and b.def_kind == "AssocFn" and "::promoted[" not in b.path
             and b.file.endswith("asn/resolve_scope.rs")]
    if not roots:
        ctx.fail(rule, "anchor-lost:ResolveScope", "no method of ResolveScope found")
        return
    for b in roots:
        m = b.name
        rec = []
        for body in [b] + P.closures_of(b):
            O = X.Origins(body, P)
            for cs in body.calls():
                if cs.fn and "ResolveScope" in (cs.fn.get("def") or "") and cs.args and cs.fn.get("name") not in ("from", "try_resolve"):
                    a0 = O.call_args(cs)[0]
                    a0 = R.in_root_terms(P, body, a0) if body is not b else a0
                    s0 = X.strip(a0)
                    while s0[0] in ("ref", "deref", "mut"):
                        s0 = X.strip(s0[1])
                    if s0[0] == "param" and s0[1] == 1:
                        continue        # a call on `self`
                    rec.append((cs, a0))
        if not rec:
            continue
        def through_map(e, body, depth=0):
            """`opt.map(|m| ResolveScope { model: m, scope: self.scope })?`: the value is what the closure returns"""
            while e[0] in ("ref", "deref", "mut", "try"):
                e = e[1]
            if depth < 3 and e[0] == "call" and X.last_seg(e[1] or "") in ("map", "and_then") and len(e[3]) == 2 \
                    and e[3][1][0] == "agg" and e[3][1][1] == "closure":
                cb = P.bodies.get("%s::%s" % (b.crate, e[3][1][2]))
                if cb is not None:
                    Oc = X.Origins(cb, P)
                    rets = [Oc.rvalue(d[3], d[0], d[1], 0) for d in cb.defs.get(0, ()) if d[2] == "assign"]
                    if len(rets) == 1:
                        return through_map(R.in_root_terms(P, cb, rets[0]), cb, depth + 1)
            return e
        for cs, a0 in rec:
            n += 1
            e = through_map(a0, b)
            while e[0] in ("ref", "deref", "mut"):
                e = e[1]
            if e[0] == "agg" and e[1] == "adt" and e[2].endswith("option::Option") and e[3] == "Some" and e[4]:
                e = e[4][0][1]
                while e[0] in ("ref", "deref", "mut"):
                    e = e[1]
            scope = None
            if e[0] == "agg" and e[1] == "adt" and e[2].endswith("ResolveScope"):
                for nm, x in e[4]:
                    if nm == "scope":
                        scope = x
            txt = F.rd(R.positional(scope)) if scope is not None else F.rd(R.positional(e))
            detail = {"function": b.path, "continues_on": F.rd(R.positional(e))[:160], "scope_field": txt[:120]}
            sx = X.strip(scope) if scope is not None else None
            ok = sx is not None and sx[0] == "field" and sx[2] == "scope" and X.strip(sx[1])[0] == "param" and X.strip(sx[1])[1] == 1
            if not ok:
                ctx.fail(rule, m + "#scope", "%s continues on `%s`, whose scope is not `self.scope`: modules reached through an import "
                                             "lose sight of the other loaded modules" % (m, F.rd(R.positional(e))[:80]), cs.loc(), detail)
            else:
                ctx.ok(rule, m + "#scope", detail)
    ctx.floor(rule, n, "C12.R9.sites")

def r10(ctx, rule="C12.R10"):
    ctx.rule(rule, "the module name is an alternative, not a fallback: in every predicate that selects the exporting module of an import "
                   "by comparing the module name with the import's `from` name, each path that returns without having made that "
                   "comparison returns the constant `true` (an object-identifier match) - a path that returns the outcome of the "
                   "object-identifier comparison itself rejects a module whose OID is merely spelled differently "
                   "(`{ iso org(3) base(7) }` vs `{ 1 3 7 }`) although its name matches, and the import no longer resolves")
    P = ctx.program()
    n = 0
    for b in P.lib_bodies("asn1rs_model"):
        if getattr(b, "derived", False) or "::tests::" in b.path or "::promoted[" in b.path or not b.file.endswith("asn/resolve_scope.rs"):
            continue
        O = None
        name_eq = []
        for cs in b.calls():
            if cs.name not in ("eq", "ne") or len(cs.args) != 2:
                continue
            O = O or X.Origins(b, P)
            a = [X.render(x) for x in O.call_args(cs)]
            fa = [re.findall(r"\.([a-z_]+)\b", x)[-1:] for x in a]
            if fa[0] and fa[1] and sorted((fa[0][0], fa[1][0])) == ["from", "name"]:
                name_eq.append(cs)
        if not name_eq:
            continue
        n += 1
        key = "%s#name-alternative" % (b.root or b.path)
        rets = R.returned_on_paths(b, avoid={cs.bb for cs in name_eq})
        detail = {"function": b.path, "name_comparisons": [cs.loc() for cs in name_eq],
                  "returns_without_name_comparison": sorted({"%s %s" % (k, (p.name if k == "call" else p)) for k, p, _ in rets or ()})}
        if rets is None:
            ctx.fail(rule, key + "#undecided", "too many paths", "%s:%d" % (b.file, b.line), detail)
            continue
        bad = [(k, p) for k, p, _ in rets if not (k == "const" and str(p) not in ("0", "false", "False"))]
        if bad:
            k, p = bad[0]
            what = ("the outcome of %s at %s" % (X.short(p.callee or p.name), p.loc())) if k == "call" else ("`false`" if k == "const" else "a computed value")
            ctx.fail(rule, key, "the predicate returns %s on a path that never compares the module name with the import's `from`: a module "
                                "that the name identifies is rejected when the other criterion does not match" % what,
                     p.loc() if k == "call" else "%s:%d" % (b.file, b.line), detail)
        else:
            ctx.ok(rule, key, detail)
    ctx.floor(rule, n, rule + ".predicates")


def run(ctx):
    r1_r2(ctx)
    r3(ctx)
    r4(ctx)
    r5(ctx)
    r6(ctx)
    r7(ctx)
    r8(ctx)
    r9(ctx)
    r10(ctx)
    # a bound given by reference ends in the same model as the literal: what try_resolve rebuilds comes from the source (shared with C07)
    from .c07 import r1 as field_provenance
    field_provenance(ctx, rule="C12.R11")

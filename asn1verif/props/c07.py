"""C07 - parsing preserves every declared element: the copying stages drop, reorder or replace nothing (DESIGN.md 5/C07)."""
import json
import os
import re

from .. import expr as X
from .. import facts as F
from .. import rules as R
from ..core import VERIF
from ..mir import span_loc

MODEL_ADTS = ("asn::", "model::", "resolve::")


def mentions_field(ex, fname, variant=None):
    for e in X.walk(ex):
        if e[0] == "field" and e[2] == fname:
            if variant is None:
                return True
            b = e[1]
            while b[0] in ("deref", "ref", "mut"):
                b = b[1]
            if b[0] == "downcast" and b[2] == variant:
                return True
        if e[0] in ("param", "upvar") and e[2] == fname:
            return True        # destructured binding with the field's name (`Definition(name, asn)` / closure capture)
    return False


def every_alternative_mentions(ex, fname, variant=None):
    """as mentions_field, but a value chosen between several sources (`match .. { a => Range::none(), b => Range(.., marker) }`)
    must come from the field on every alternative; an alternative that is itself a freshly built model value is decided where
    it is built"""
    e = X.strip(ex)
    while e[0] in ("ref", "deref", "mut"):
        e = X.strip(e[1])
    if e[0] == "phi":
        return all(every_alternative_mentions(a, fname, variant) for a in e[1])
    if e[0] == "agg" and e[1] == "adt" and e[2].startswith(MODEL_ADTS):
        return True
    return mentions_field(e, fname, variant)


def r1(ctx, rule="C07.R1"):
    ctx.rule(rule, "T6 field provenance: in every try_resolve of the ASN model (and ResolveScope::try_resolve) each field of a constructed "
                   "struct comes from the same-named field of the source, and each argument of a constructed enum variant from the same "
                   "position of the same variant - nothing is dropped, swapped, defaulted or rebuilt as a neighbouring variant")
    P = ctx.program()
    with open(os.path.join(VERIF, "tables", "discharged_sites.json")) as fh:
        table = json.load(fh).get("C07", {})
    fns = [b for b in P.lib_bodies("asn1rs_model") if b.name == "try_resolve" and b.def_kind == "AssocFn" and "::promoted[" not in b.path
           and (b.file.startswith("asn1rs-model/src/asn/") or b.file.endswith("resolve.rs"))]
    ctx.floor(rule, len(fns), rule + ".functions")
    n = 0
    for b in sorted(fns, key=lambda x: x.path):
        fname = X.short(b.path)
        self_adt = (b.impl_self_ty or "").split("<")[0]
        for body in [b] + P.closures_of(b):
            O = X.Origins(body, P)
            arms = R.match_tables(P, body, O) if body is b else []
            for bb, j, s in body.all_statements():
                if s["k"] != "assign" or s["rv"]["k"] != "agg" or s["rv"].get("ak") != "adt":
                    continue
                rv = s["rv"]
                adt = rv["adt"]
                if not adt.startswith(MODEL_ADTS) or adt.endswith("Error") or adt.endswith("ErrorKind"):
                    continue
                enum = rv["variant"] != adt.split("::")[-1]
                if enum and adt != self_adt:
                    continue      # builds a value of another type (not a copy of the source)
                # for enum variants: which source variant are we in?
                src_variant = None
                if enum:
                    for a in arms:
                        if bb in a.blocks and len(a.path) == 1:
                            src_variant = a.path[0][1]
                for fld, o in zip(rv["fields"], rv["ops"]):
                    n += 1
                    ex = O.operand(o, bb, j)
                    key = "%s#%s::%s.%s" % (fname, adt.split("::")[-1], rv["variant"], fld)
                    detail = {"function": body.path, "constructs": "%s::%s" % (adt.split("::")[-1], rv["variant"]), "field": fld,
                              "from": X.render(ex)[:140], "at": span_loc(s["sp"])}
                    if enum:
                        if src_variant is not None and src_variant != rv["variant"] and adt == self_adt:
                            ctx.fail(rule, key, "the arm for %s::%s rebuilds the value as %s::%s" % (adt.split("::")[-1], src_variant,
                                                                                              adt.split("::")[-1], rv["variant"]),
                                     span_loc(s["sp"]), detail)
                            continue
                        ok = every_alternative_mentions(ex, fld, rv["variant"] if adt == self_adt else None) or not any(
                            e[0] in ("param", "upvar", "call", "field") for e in X.walk(ex)) and False
                    else:
                        ok = every_alternative_mentions(ex, fld)
                    if ok:
                        ctx.ok(rule, key, detail)
                    elif key in table:
                        detail["reviewed"] = table[key]
                        ctx.ok(rule, key, detail)
                    else:
                        ctx.fail(rule, key, "%s builds %s::%s with `%s` taken from `%s`, not from the source's `%s`: the declared element is "
                                            "dropped or replaced" % (fname, adt.split("::")[-1], rv["variant"], fld, X.render(ex)[:60], fld),
                                 span_loc(s["sp"]), detail)
    ctx.floor(rule, n, rule + ".fields")


def r2(ctx):
    rule = "C07.R2"
    ctx.rule(rule, "dropped-parse census: the parsers in asn1rs-model/src/asn discard the result of a parse call (`let _ = ..`) only at the "
                   "reviewed sites (WITH COMPONENTS is parsed and dropped, as the README says)")
    src = ctx.src()
    with open(os.path.join(VERIF, "tables", "discharged_sites.json")) as fh:
        table = json.load(fh).get("C07.R2", {})
    n = 0
    for p, f in src.files.items():
        if not p.startswith("asn1rs-model/src/asn/"):
            continue
        for fn in f["fns"]:
            for i, line in enumerate(fn["let_underscore"]):
                n += 1
                key = "%s::%s#let_#%d" % (p.split("/")[-1], fn["name"], i)
                if key in table:
                    ctx.ok(rule, key, {"file": p, "function": fn["name"], "line": line, "reviewed": table[key]})
                else:
                    ctx.fail(rule, key, "`let _ = ..` in parser %s::%s discards a parsed element" % (p.split("/")[-1], fn["name"]),
                             "%s:%d" % (p, line), {"file": p, "function": fn["name"]})
    ctx.ok(rule, "census", {"let_underscore_sites": n}, nontrivial=False)
    ctx.floor(rule, n, "C07.R2.sites")


def base_name(ty):
    return ty.replace("&", "").replace("mut ", "").strip().split("<")[0].split("::")[-1]


def r3(ctx):
    rule = "C07.R3"
    ctx.rule(rule, "no defaulting constructor in the parsers: inside the TryFrom<&mut Peekable> impls and read_* functions of the ASN model "
                   "no model struct is built with `..Default::default()` / Default::default(), except the Model skeleton whose five fields "
                   "are all assigned afterwards")
    P = ctx.program()
    n = 0
    for b in P.lib_bodies("asn1rs_model"):
        if not b.file.startswith("asn1rs-model/src/asn/") or "::promoted[" in b.path or "::tests::" in b.path or b.derived:
            continue
        if not (b.name.startswith("read_") or b.name == "try_from" or b.name.startswith("maybe_read") or b.name.startswith("next_")):
            continue
        n += 1
        for cs in b.calls():
            if cs.fn and cs.name == "default" and (cs.trait or "").endswith("Default"):
                ty = cs.fn.get("self_ty") or (cs.fn["args"][0] if cs.fn["args"] else "")
                if not ty.startswith(("model::", "asn::")):
                    continue
                key = "%s#default:%s" % (X.short(b.path), ty.split("<")[0].split("::")[-1])
                adt = R.adt_of(P, b.crate, ty)
                if adt is None or len(adt["variants"]) != 1:
                    ctx.fail(rule, key, "parser %s builds %s from Default::default(): declared elements are replaced by defaults" % (
                        X.short(b.path), ty), cs.loc(), {"function": b.path})
                    continue
                need = {f["name"] for f in adt["variants"][0]["fields"]}
                written = set()
                for body in [b] + P.closures_of(b):
                    for bb, j, s in body.all_statements():
                        if s["k"] != "assign":
                            continue
                        fs = [p["n"] for p in s["pl"]["p"] if p["k"] == "field" and base_name(p.get("of", "")) == base_name(ty)]
                        written |= set(fs)
                        if s["rv"]["k"] in ("ref", "rawptr") and (s["rv"].get("mut") or s["rv"]["k"] == "rawptr"):
                            fs = [p["n"] for p in s["rv"]["pl"]["p"] if p["k"] == "field" and base_name(p.get("of", "")) == base_name(ty)]
                            written |= set(fs)
                detail = {"function": b.path, "type": ty, "fields": sorted(need), "fields_written_after_default": sorted(written & need)}
                if need - written:
                    ctx.fail(rule, key, "%s::default() is used as parser skeleton but %s is never assigned: the declared element stays "
                                        "empty" % (base_name(ty), sorted(need - written)), cs.loc(), detail)
                else:
                    ctx.ok(rule, key, detail)
    ctx.ok(rule, "census", {"parser_functions": n}, nontrivial=False)
    ctx.floor(rule, n, "C07.R3.parsers")


def r4(ctx):
    rule = "C07.R4"
    ctx.rule(rule, "sentinel agreement for SIZE(n..MAX): the constant the SIZE parser substitutes for an absent upper bound is the "
                   "constant Size::reconsider_constraints recognises as `no upper bound`, and the absent lower bound is 0 "
                   "(a declared `MAX` must not turn into the Default of the type)")
    P = ctx.program()
    bs = [b for b in P.bodies.values() if b.crate == "asn1rs_model" and "asn::size::Size" in b.path and b.name == "try_from"
          and b.def_kind == "AssocFn" and "Peekable" in b.path and "::promoted[" not in b.path]
    rc = [b for b in P.find("asn1rs_model", "::reconsider_constraints") if b.def_kind == "AssocFn"]
    if len(bs) != 1 or len(rc) != 1:
        ctx.fail(rule, "anchor-lost:Size::try_from/reconsider_constraints", "matched %d / %d bodies" % (len(bs), len(rc)))
        return
    b, rc = bs[0], rc[0]
    sentinels = sorted({c.boundary for c in F.comparisons(rc, X.Origins(rc, P)) if c.kind == "eq" and c.rhs == "" and c.boundary > 2 ** 31})
    if len(sentinels) != 1:
        ctx.fail(rule, "anchor-lost:sentinel", "reconsider_constraints compares the upper bound with %s" % sentinels, "%s:%d" % (rc.file, rc.line))
        return
    S = sentinels[0]
    O = X.Origins(b, P)
    n = 0
    for bb, j, st in b.all_statements():
        if st["k"] == "assign" and st["rv"]["k"] == "agg" and st["rv"].get("adt", "").endswith("size::Size") and st["rv"]["variant"] == "Range":
            n += 1
            lo, hi = O.operand(st["rv"]["ops"][0], bb, j), O.operand(st["rv"]["ops"][1], bb, j)
            detail = {"sentinel": S, "lower": F.rd(lo)[:60] + "…", "upper": F.rd(hi)[-80:]}
            d = None
            e = hi
            while e[0] in ("ref", "deref", "mut"):
                e = e[1]
            if e[0] == "call" and X.last_seg(e[1]) == "unwrap_or" and len(e[3]) == 2:
                dv = e[3][1]
                consts = [x[1] for x in X.walk(dv) if x[0] == "const"]
                d = consts[0] if len(consts) == 1 else None
            elif e[0] == "call" and X.last_seg(e[1]) == "unwrap_or_default":
                d = 0
            detail["absent_upper_bound_becomes"] = d
            if d is None:
                ctx.ok(rule, "Size::Range#upper-default", dict(detail, note="upper bound is not an Option default; nothing to compare"), nontrivial=False)
            elif d != S:
                ctx.fail(rule, "Size::Range#upper-default", "SIZE(n..MAX) stores %s as the upper bound, but `no upper bound` is %d everywhere "
                                                            "else (reconsider_constraints): the declared MAX becomes a wrong finite bound" % (d, S),
                         span_loc(st["sp"]), detail)
            else:
                ctx.ok(rule, "Size::Range#upper-default", detail)
    ctx.floor(rule, n, "C07.R4.sites")


def _peel(e):
    shape = []
    while True:
        if e[0] == "discr":
            shape.append("discr")
            e = e[1]
        elif e[0] == "field":
            shape.append("." + str(e[2]))
            e = e[1]
        elif e[0] == "downcast":
            shape.append("as " + e[2])
            e = e[1]
        elif e[0] in ("ref", "deref", "mut"):
            e = e[1]
        elif e[0] == "cast":
            e = e[2]
        else:
            break
    return e, tuple(reversed(shape))


def r6(ctx):
    rule = "C07.R6"
    ctx.rule(rule, "no declared bound is dropped: the SIZE range parser classifies `lo..hi` as unconstrained (Size::Any) only on decision "
                   "paths where the lower bound is absent (MIN) or the literal 0 and the upper bound is absent (MAX) or the `no upper bound` "
                   "sentinel; any other literal or a reference keeps Size::Range")
    P = ctx.program()
    bs = [b for b in P.bodies.values() if b.crate == "asn1rs_model" and "asn::size::Size" in b.path and b.name == "try_from"
          and b.def_kind == "AssocFn" and "Peekable" in b.path and "::promoted[" not in b.path]
    if len(bs) != 1:
        ctx.fail(rule, "anchor-lost:Size::try_from", "matched %d bodies" % len(bs))
        return
    b = bs[0]
    O = X.Origins(b, P)
    rng = anyb = None
    for bb, j, st in b.all_statements():
        if st["k"] == "assign" and st["rv"]["k"] == "agg" and st["rv"].get("adt", "").endswith("size::Size"):
            if st["rv"]["variant"] == "Range":
                rng = (bb, j, st)
            elif st["rv"]["variant"] == "Any":
                anyb = (bb, j, st)
    if rng is None or anyb is None:
        ctx.fail(rule, "anchor-lost:Size::Any/Range", "the range path of the SIZE parser builds Any: %s, Range: %s" % (anyb is not None, rng is not None),
                 "%s:%d" % (b.file, b.line))
        return

    def option_of(ex):
        e = ex
        while e[0] in ("ref", "deref", "mut"):
            e = e[1]
        if e[0] == "call" and X.last_seg(e[1]) in ("unwrap_or", "unwrap_or_default", "unwrap_or_else") and e[3]:
            return X.strip(e[3][0])
        if e[0] == "unwrap_or":
            return X.strip(e[1])
        return X.strip(e)
    LO = option_of(O.operand(rng[2]["rv"]["ops"][0], rng[0], rng[1]))
    HI = option_of(O.operand(rng[2]["rv"]["ops"][1], rng[0], rng[1]))
    # the verdict may be computed into a bool first (`let any = matches!(..)`, `let any = if .. { a || b } else { c && d }`)
    paths = R.verdict_paths(b, O, anyb[0], rng[0])
    if not paths:
        ctx.fail(rule, "anchor-lost:decision", "the decision between Size::Any and Size::Range could not be enumerated", span_loc(anyb[2]["sp"]))
        return
    sentinels = []
    rc = [x for x in P.find("asn1rs_model", "::reconsider_constraints") if x.def_kind == "AssocFn"]
    if len(rc) == 1:
        sentinels = sorted({c.boundary for c in F.comparisons(rc[0], X.Origins(rc[0], P)) if c.kind == "eq" and c.rhs == "" and c.boundary > 2 ** 31})
    S = sentinels[0] if len(sentinels) == 1 else None
    recognised = 0
    n = 0
    def side_of(e):
        while e[0] in ("ref", "deref", "mut"):
            e = e[1]
        e = X.strip(e)
        return "lo" if e == LO else "hi" if e == HI else None

    def structure_facts(k):
        """facts a bound equal to the constant structure `k` has"""
        f = {}
        if k is None or k[0] != "agg":
            return None
        if k[3] == "None":
            f["opt"] = ("in", frozenset({0}))
            return f
        if k[3] != "Some" or not k[4]:
            return None
        f["opt"] = ("in", frozenset({1}))
        inner = k[4][0][1]
        while inner[0] in ("ref", "deref", "mut"):
            inner = inner[1]
        if inner[0] == "agg" and inner[4]:
            f["variant_name"] = inner[3]
            c = F.strip_casts(inner[4][0][1])
            if inner[3] == "Lit" and c[0] == "const":
                f["lit"] = ("in", frozenset({c[1]}))
        return f

    for path in paths:
        facts = {"lo": {}, "hi": {}}
        for s_bb, c, v in path:
            c = F.strip_casts(c)
            while c[0] == "un" and c[1] == "Not":
                c = F.strip_casts(c[2])
                v = ("in" if v[0] == "not" else "not", v[1]) if v[1] == frozenset({0}) else v
            if c[0] == "call" and X.last_seg(c[1] or "") in ("is_none", "is_some") and len(c[3]) == 1:
                side = side_of(c[3][0])
                if side is None:
                    continue
                recognised += 1
                truth = (v == ("not", frozenset({0})))
                absent = truth if X.last_seg(c[1]) == "is_none" else not truth
                facts[side]["opt"] = ("in", frozenset({0 if absent else 1}))
                continue
            if c[0] == "call" and X.last_seg(c[1] or "") in ("eq", "ne") and len(c[3]) == 2:
                sides = [side_of(a) for a in c[3]]
                if (sides[0] is None) == (sides[1] is None):
                    continue
                side = sides[0] or sides[1]
                k = R.const_structure(P, b, c[3][1] if sides[0] else c[3][0])
                recognised += 1
                truth = (v == ("not", frozenset({0})))
                equal = truth if X.last_seg(c[1]) == "eq" else not truth
                sf = structure_facts(k)
                if equal and sf is not None:
                    facts[side].update(sf)
                continue
            base, shape = _peel(c)
            side = "lo" if X.strip(base) == LO else "hi" if X.strip(base) == HI else None
            if side is None:
                continue
            recognised += 1
            if shape == ("discr",):
                facts[side]["opt"] = v
            elif shape[-1:] == ("discr",):
                facts[side]["variant"] = v
            elif shape and shape[-1].startswith("."):
                facts[side]["lit"] = v
        n += 1
        desc = []
        bad = None
        for side, zero in (("lo", 0), ("hi", S)):
            f = facts[side]
            absent = f.get("opt") == ("in", frozenset({0}))
            lit = f.get("lit")
            desc.append("%s: %s" % (side, "absent" if absent else ("literal %s" % sorted(lit[1]) if lit and lit[0] == "in" else "any value")))
            if absent:
                continue
            if not (lit and lit[0] == "in" and lit[1] == frozenset({zero})):
                bad = "a SIZE range whose %s bound is %s is classified as unconstrained (Size::Any): the declared bound is dropped" % (
                    "lower" if side == "lo" else "upper", "any literal or reference" if not lit else "in %s" % sorted(lit[1]))
        key = "Size::Any#path%d" % n
        detail = {"function": b.path, "path": desc, "switches": [sb for sb, _, _ in path]}
        if bad:
            ctx.fail(rule, "Size::Any#" + ",".join(desc), bad, span_loc(anyb[2]["sp"]), detail)
        else:
            ctx.ok(rule, "Size::Any#" + ",".join(desc), detail)
    if not recognised:
        ctx.fail(rule, "anchor-lost:scrutinee", "no decision on the way to Size::Any tests the parsed bounds", span_loc(anyb[2]["sp"]))
    ctx.floor(rule, n, "C07.R6.paths")


def r5(ctx, rule="C07.R5"):
    ctx.rule(rule, "the extension marker is recorded wherever it is recognised: in the parsers of SEQUENCE/SET, CHOICE and ENUMERATED "
                   "every path from the consumption of the last `.` of `...` to the next loop iteration or to a success return "
                   "assigns `extension_after` (a marker that is recorded only when additions follow turns `{ a, ... }` into a "
                   "non-extensible type)")
    P = ctx.program()
    n = 0
    for f in ("components", "choice", "enumerated"):
        bs = [b for b in P.lib_bodies("asn1rs_model") if b.name == "try_from" and ("asn::%s::" % f) in b.path and "Peekable" in b.path
              and b.def_kind == "AssocFn"]
        if len(bs) != 1:
            ctx.fail(rule, "anchor-lost:%s parser" % f, "matched %d bodies" % len(bs))
            continue
        b = bs[0]
        dots = [cs for cs in b.calls() if cs.name in ("next_separator_eq_or_err", "next_if_separator_and_eq")
                and any(a.get("k") == "const" and a.get("s") == "'.'" for a in cs.args)]
        rec = sorted({bb for bb, j, st in b.all_statements() if st["k"] == "assign" and any(p.get("n") == "extension_after" for p in st["pl"]["p"])})
        if not dots or not rec:
            ctx.fail(rule, f + "#anchor-lost", "dot consumption (%d) / extension_after assignment (%d) not found" % (len(dots), len(rec)),
                     "%s:%d" % (b.file, b.line))
            continue
        n += 1
        last = max(dots, key=lambda c: len(b.dom.get(c.bb, ())))
        # success continuation of the `?` on the last dot: follow the Continue edge = blocks dominated by the call's target that
        # are not error-only
        okr = F.ok_reaching(b)
        start = last.target
        # blocks reachable from the consumption without passing a recording block
        free = b.reach_from(start, avoid=rec)
        # a "success continuation" is reaching another token-consuming call of the loop (the next item) or an Ok return
        leaks = []
        for bb in sorted(free):
            t = b.blocks[bb]["term"]
            for st in b.blocks[bb]["stmts"]:
                if st["k"] == "assign" and st["pl"]["l"] == 0 and not st["pl"]["p"] and st["rv"]["k"] == "agg" and st["rv"].get("variant") == "Ok":
                    leaks.append(("Ok return", span_loc(st["sp"])))
            if t and t["k"] == "call" and t["func"].get("fn") and t["func"]["fn"]["name"] in (
                    "next_text_or_err", "next_if_separator_and_eq", "read_role_given_text", "next_with_opt_tag", "push"):
                leaks.append((t["func"]["fn"]["name"], span_loc(t["sp"])))
        detail = {"parser": b.path[:90], "last_dot_consumed_at": last.loc(), "marker_recorded_in_blocks": rec, "unrecorded_continuations": leaks[:4]}
        if leaks:
            ctx.fail(rule, f + "#marker-recorded", "after `...` is consumed the parser can go on (%s at %s) without having recorded the "
                                                   "marker" % leaks[0], leaks[0][1], detail)
        else:
            ctx.ok(rule, f + "#marker-recorded", detail)
    ctx.floor(rule, n, "C07.R5.parsers")


def run(ctx):
    r1(ctx)
    r2(ctx)
    r3(ctx)
    r4(ctx)
    r5(ctx)
    r6(ctx)
    # imports keep resolving to the module they name (shared with C12): an accepted module must end in a resolved model
    from .c12 import r10 as name_is_an_alternative
    name_is_an_alternative(ctx, rule="C07.R7")
    r8(ctx)


def r8(ctx, rule="C07.R8"):
    ctx.rule(rule, "the parsed `,...` of an INTEGER constraint reaches every Range the parser returns: in the token parser of INTEGER "
                   "(asn/integer.rs try_from) every Range value that is built after the extension marker was looked for - aggregate or "
                   "constructor call - takes its third field from that decision (`extensible`); a constructor without the flag "
                   "(`Range::none()`) on the branch that normalises `(0..MAX, ...)` turns an extensible INTEGER into a plain one")
    P = ctx.program()
    bs = [b for b in P.lib_bodies("asn1rs_model") if b.name == "try_from" and b.file.endswith("asn/integer.rs") and b.def_kind == "AssocFn"
          and "::promoted[" not in b.path and "Integer<" in (b.impl_self_ty or "")]
    if len(bs) != 1:
        ctx.fail(rule, "anchor-lost:Integer::try_from", "matched %d bodies" % len(bs))
        return
    b = bs[0]
    flags = [d["pl"]["l"] for d in b.raw["debug"] if d.get("name") == "extensible" and d.get("pl") and not d["pl"]["p"] and not d.get("inlined_from")]
    if len(flags) != 1:
        ctx.fail(rule, "anchor-lost:extensible", "the parser has %d locals named `extensible`" % len(flags), "%s:%d" % (b.file, b.line))
        return
    L = flags[0]
    defs = [d for d in b.defs.get(L, ()) if d[2] in ("assign", "call")]
    region = set()
    for d in defs:
        region |= b.reach_from(d[0])
    region -= {d[0] for d in defs}

    def is_flag(op, depth=0):
        if not isinstance(op, dict) or op.get("k") not in ("copy", "move") or op["pl"]["p"] or depth > 4:
            return False
        l = op["pl"]["l"]
        if l == L:
            return True
        ds = b.defs.get(l, ())
        return len(ds) == 1 and ds[0][2] == "assign" and ds[0][3]["k"] == "use" and is_flag(ds[0][3]["op"], depth + 1)
    n = 0
    for bb in sorted(region):
        for st in b.blocks[bb]["stmts"]:
            rv = st.get("rv") or {}
            if st["k"] == "assign" and rv.get("k") == "agg" and (rv.get("adt") or "").endswith("range::Range") and len(rv.get("ops", ())) == 3:
                n += 1
                key = "Integer::try_from#Range#%d" % n
                if is_flag(rv["ops"][2]):
                    ctx.ok(rule, key, {"at": span_loc(st["sp"]), "marker": "extensible"})
                else:
                    ctx.fail(rule, "Integer::try_from#Range-without-parsed-marker", "a Range is built at %s whose extension marker is not the "
                                                                                      "parsed one" % span_loc(st["sp"]), span_loc(st["sp"]))
        t = b.blocks[bb]["term"]
        if t and t["k"] == "call" and "range::Range<" in (t.get("dty") or "") and not (t.get("dty") or "").startswith(("&", "std::option", "std::result")):
            full = ((t["func"].get("fn") or {}).get("full") or "")
            name = full.split("::")[-1]
            n += 1
            if name == "with_extensible" and len(t["args"]) == 2 and is_flag(t["args"][1]):
                ctx.ok(rule, "Integer::try_from#Range#%d" % n, {"at": span_loc(t["sp"]), "marker": "with_extensible(extensible)"})
            elif name in ("with_extensible",):
                ctx.fail(rule, "Integer::try_from#Range-without-parsed-marker", "with_extensible is called with something else than the parsed "
                                                                                  "marker at %s" % span_loc(t["sp"]), span_loc(t["sp"]))
            elif any(b.blocks[x]["term"] and b.blocks[x]["term"]["k"] == "call" and
                     ((b.blocks[x]["term"]["func"].get("fn") or {}).get("full") or "").endswith("::with_extensible")
                     and is_flag(b.blocks[x]["term"]["args"][1]) and is_flag_src(b, b.blocks[x]["term"]["args"][0], t["dest"])
                     for x in b.reach_from(t.get("t")) if t.get("t") is not None):
                ctx.ok(rule, "Integer::try_from#Range#%d" % n, {"at": span_loc(t["sp"]), "marker": "passed on to with_extensible(extensible)"})
            else:
                ctx.fail(rule, "Integer::try_from#Range-without-parsed-marker", "%s at %s builds a Range after the `,...` was looked for without "
                                                                                  "the parsed marker: `INTEGER (0..MAX, ...)` is parsed as a plain "
                                                                                  "INTEGER" % (X.short(full), span_loc(t["sp"])), span_loc(t["sp"]))
    ctx.floor(rule, n, rule + ".ranges")


def is_flag_src(b, op, dest):
    """is the operand a copy / move of the place `dest` (the Range just constructed)?"""
    if not isinstance(op, dict) or op.get("k") not in ("copy", "move") or op["pl"]["p"]:
        return False
    l = op["pl"]["l"]
    if l == dest["l"]:
        return True
    ds = b.defs.get(l, ())
    return len(ds) == 1 and ds[0][2] == "assign" and ds[0][3]["k"] == "use" and is_flag_src(b, ds[0][3]["op"], dest)

"""C09 - every accepted module yields Rust that rustc accepts: keyword clause (DESIGN.md section 5, C09)."""
import json
import os

from .. import expr as X
from .. import facts as F
from ..core import VERIF

EMITTERS = ("add_struct", "impl_struct_field_get", "impl_struct_field_get_mut", "impl_struct_field_set")
AFFIX_TEMPLATES = ("{}_mut", "set_{}")   # the field name is only part of a longer identifier: cannot be a keyword


def r1(ctx):
    rule = "C09.R1"
    ctx.rule(rule, "T7 keyword table: the KEYWORDS array of generate/rust.rs contains every strict and reserved Rust keyword "
                   "(editions 2015-2021) that can be an ASN.1 component identifier")
    with open(os.path.join(VERIF, "tables", "rust_keywords.json")) as fh:
        t = json.load(fh)
    want = set(t["strict"]) | set(t["strict_2018"]) | set(t["reserved"]) | set(t["reserved_2018"])
    c = ctx.src().const("asn1rs-model/src/generate/rust.rs", "KEYWORDS")
    if not ctx.anchor(rule, "const KEYWORDS in generate/rust.rs", c) or not c["array"]:
        if c is not None and not c["array"]:
            ctx.fail(rule, "anchor-lost:KEYWORDS-array", "KEYWORDS is no longer a literal array")
        return
    have = set(c["elems"])
    missing = sorted(want - have)
    detail = {"table_words": len(want), "array_words": len(have), "missing": missing}
    for w in missing:
        ctx.fail(rule, "keyword:" + w, "Rust keyword `%s` is not escaped: a component named `%s` is emitted verbatim and the generated "
                                       "code does not compile" % (w, w), "asn1rs-model/src/generate/rust.rs:%d" % c["line"], detail)
    if not missing:
        ctx.ok(rule, "KEYWORDS", detail)
    for w in sorted(want & have):
        ctx.ok(rule, "keyword:" + w, None, nontrivial=False)
    # the escape itself: exact comparison and a suffix that keeps the name an identifier
    P = ctx.program()
    try:
        b = P.one("asn1rs_model", "RustCodeGenerator::rust_field_name")
    except KeyError as e:
        ctx.fail(rule, "anchor-lost:rust_field_name", str(e))
        return
    O = X.Origins(b, P)
    calls = {cs.name: cs for cs in b.calls()}
    pushes = [cs for cs in b.calls() if cs.name == "push"]
    pushed = [X.render(O.call_args(cs)[1]) for cs in pushes]
    eqs = [cs for cs in b.calls() if cs.name in ("eq", "ne")]
    detail = {"function": b.path, "pushed_chars": pushed, "comparisons": [X.short(c.callee) for c in eqs]}
    if "95" not in pushed:       # '_' as char constant
        ctx.fail(rule, "escape-suffix", "rust_field_name no longer appends `_` to a keyword", "%s:%d" % (b.file, b.line), detail)
    elif not eqs:
        ctx.fail(rule, "escape-compare", "rust_field_name no longer compares the name with the keyword table", "%s:%d" % (b.file, b.line), detail)
    else:
        ctx.ok(rule, "escape", detail)
    # the loop must cover the whole array: iterates `&KEYWORDS` without take/skip/filter
    bad = [cs for cs in b.calls() if cs.name in ("take", "skip", "filter", "step_by", "take_while", "skip_while")]
    if bad:
        ctx.fail(rule, "escape-loop", "rust_field_name does not look at every keyword (%s)" % bad[0].name, bad[0].loc(), detail)


def r3(ctx):
    rule = "C09.R3"
    ctx.rule(rule, "who-may-print: in the struct emitters of generate/rust.rs a field name is printed in identifier position only "
                   "through rust_field_name(.., true); raw uses are limited to the affix templates `{}_mut` and `set_{}`")
    P = ctx.program()
    src = ctx.src()
    n = 0
    for fn in EMITTERS:
        try:
            b = P.one("asn1rs_model", "RustCodeGenerator::" + fn)
        except KeyError as e:
            ctx.fail(rule, "anchor-lost:" + fn, str(e))
            continue
        n += 1
        O = X.Origins(b, P)
        escaped = raw = 0
        off = []
        for body in [b] + P.closures_of(b):
            Ob = O if body is b else X.Origins(body, P)
            for cs in body.calls():
                if cs.name == "rust_field_name":
                    a = Ob.call_args(cs)
                    flag = F.rd(a[1]) if len(a) > 1 else "?"
                    if flag != "1":
                        off.append(cs)
                if cs.name in ("new_display", "new_debug") and cs.args:
                    a = Ob.call_args(cs)[0]
                    txt = X.render(a)
                    names_field = ("field_name" in txt) or ("Field::name(" in txt)
                    if not names_field:
                        continue
                    if "rust_field_name(" in txt:
                        escaped += 1
                    else:
                        raw += 1
        templates = []
        for p, f in src.fns(path="asn1rs-model/src/generate/rust.rs", name=fn):
            templates = [s["s"] for s in f["strings"] if s["ctx"].startswith("macro:format")]
        allowed = sum(1 for t in templates if t in AFFIX_TEMPLATES)
        detail = {"function": b.path, "escaped_uses": escaped, "raw_uses": raw, "affix_templates": allowed, "templates": templates}
        if off:
            ctx.fail(rule, fn + "#escape-off", "rust_field_name is called with check_for_keywords = false", off[0].loc(), detail)
        elif raw > allowed:
            ctx.fail(rule, fn + "#raw-field-name", "%s prints a field name in identifier position without rust_field_name(.., true) "
                                                  "(%d raw uses, %d affix templates)" % (fn, raw, allowed), "%s:%d" % (b.file, b.line), detail)
        elif escaped == 0:
            ctx.fail(rule, fn + "#anchor-lost:escaped-use", "%s no longer prints any escaped field name" % fn, "%s:%d" % (b.file, b.line), detail)
        else:
            ctx.ok(rule, fn, detail)
    ctx.floor(rule, n, "C09.R3.emitters")


def run(ctx):
    r1(ctx)
    r3(ctx)

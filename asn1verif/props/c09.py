"""C09 - every accepted module yields Rust that rustc accepts: keyword clause (DESIGN.md section 5, C09)."""
import json
import os

from .. import expr as X
from .. import facts as F
from .. import rules as R
from ..core import VERIF

EMITTERS = ("add_struct", "impl_struct_field_get", "impl_struct_field_get_mut", "impl_struct_field_set")
AFFIX_TEMPLATES = ("{}_mut", "set_{}")   # the field name is only part of a longer identifier: cannot be a keyword


def r1(ctx):
    rule = "C09.R1"
    ctx.rule(rule, "T7 keyword table: the KEYWORDS array of generate/rust.rs contains every strict and reserved Rust keyword "
                   "(editions 2015-2021) that can be an ASN.1 component identifier")
    with open(os.path.join(VERIF, "tables", "rust_keywords.json")) as fh:
        t = json.load(fh)
    want = set(t["strict"]) | set(t["strict_2018"]) | set(t["reserved"]) | set(t["reserved_2018"])
    c = ctx.src().const("asn1rs-model/src/generate/rust.rs", "KEYWORDS")
    if not ctx.anchor(rule, "const KEYWORDS in generate/rust.rs", c) or not c["array"]:
        if c is not None and not c["array"]:
            ctx.fail(rule, "anchor-lost:KEYWORDS-array", "KEYWORDS is no longer a literal array")
        return
    have = set(c["elems"])
    missing = sorted(want - have)
    detail = {"table_words": len(want), "array_words": len(have), "missing": missing}
    for w in missing:
        ctx.fail(rule, "keyword:" + w, "Rust keyword `%s` is not escaped: a component named `%s` is emitted verbatim and the generated "
                                       "code does not compile" % (w, w), "asn1rs-model/src/generate/rust.rs:%d" % c["line"], detail)
    if not missing:
        ctx.ok(rule, "KEYWORDS", detail)
    for w in sorted(want & have):
        ctx.ok(rule, "keyword:" + w, None, nontrivial=False)
    # the escape itself: exact comparison and a suffix that keeps the name an identifier
    P = ctx.program()
    try:
        b = P.one("asn1rs_model", "RustCodeGenerator::rust_field_name")
    except KeyError as e:
        ctx.fail(rule, "anchor-lost:rust_field_name", str(e))
        return
    O = X.Origins(b, P)
    calls = {cs.name: cs for cs in b.calls()}
    pushes = [cs for cs in b.calls() if cs.name == "push"]
    pushed = [X.render(O.call_args(cs)[1]) for cs in pushes]
    # exact comparison with every entry: an explicit loop with `==`, `iter().any(|k| k == name)` (the comparison then sits in a
    # closure) or `contains`; a `binary_search` is not one of them - the table is not sorted
    bodies = [b] + P.closures_of(b)
    eqs = [cs for bd in bodies for cs in bd.calls() if cs.name in ("eq", "ne", "contains")]
    if any(cs.name.startswith("binary_search") for bd in bodies for cs in bd.calls()):
        eqs = []
    detail = {"function": b.path, "pushed_chars": pushed, "comparisons": [X.short(c.callee) for c in eqs]}
    if "95" not in pushed:       # '_' as char constant
        ctx.fail(rule, "escape-suffix", "rust_field_name no longer appends `_` to a keyword", "%s:%d" % (b.file, b.line), detail)
    elif not eqs:
        ctx.fail(rule, "escape-compare", "rust_field_name no longer compares the name with the keyword table", "%s:%d" % (b.file, b.line), detail)
    else:
        ctx.ok(rule, "escape", detail)
    # the loop must cover the whole array: iterates `&KEYWORDS` without take/skip/filter
    bad = [cs for cs in b.calls() if cs.name in ("take", "skip", "filter", "step_by", "take_while", "skip_while")]
    if bad:
        ctx.fail(rule, "escape-loop", "rust_field_name does not look at every keyword (%s)" % bad[0].name, bad[0].loc(), detail)


def r3(ctx):
    rule = "C09.R3"
    ctx.rule(rule, "who-may-print: in the struct emitters of generate/rust.rs a field name is printed in identifier position only "
                   "through rust_field_name(.., true); raw uses are limited to the affix templates `{}_mut` and `set_{}`")
    P = ctx.program()
    src = ctx.src()
    n = 0
    for fn in EMITTERS:
        try:
            b = P.one("asn1rs_model", "RustCodeGenerator::" + fn)
        except KeyError as e:
            ctx.fail(rule, "anchor-lost:" + fn, str(e))
            continue
        n += 1
        O = X.Origins(b, P)
        escaped = raw = 0
        off = []
        for body in [b] + P.closures_of(b):
            Ob = O if body is b else X.Origins(body, P)
            for cs in body.calls():
                if cs.name == "rust_field_name":
                    a = Ob.call_args(cs)
                    flag = F.rd(a[1]) if len(a) > 1 else "?"
                    if flag != "1":
                        off.append(cs)
                if cs.name in ("new_display", "new_debug") and cs.args:
                    a = Ob.call_args(cs)[0]
                    txt = X.render(a)
                    names_field = ("field_name" in txt) or ("Field::name(" in txt)
                    if not names_field:
                        continue
                    if "rust_field_name(" in txt:
                        escaped += 1
                    else:
                        raw += 1
        templates = []
        for p, f in src.fns(path="asn1rs-model/src/generate/rust.rs", name=fn):
            templates = [s["s"] for s in f["strings"] if s["ctx"].startswith("macro:format")]
        allowed = sum(1 for t in templates if t in AFFIX_TEMPLATES)
        detail = {"function": b.path, "escaped_uses": escaped, "raw_uses": raw, "affix_templates": allowed, "templates": templates}
        if off:
            ctx.fail(rule, fn + "#escape-off", "rust_field_name is called with check_for_keywords = false", off[0].loc(), detail)
        elif raw > allowed:
            ctx.fail(rule, fn + "#raw-field-name", "%s prints a field name in identifier position without rust_field_name(.., true) "
                                                  "(%d raw uses, %d affix templates)" % (fn, raw, allowed), "%s:%d" % (b.file, b.line), detail)
        elif escaped == 0:
            ctx.fail(rule, fn + "#anchor-lost:escaped-use", "%s no longer prints any escaped field name" % fn, "%s:%d" % (b.file, b.line), detail)
        else:
            ctx.ok(rule, fn, detail)
    ctx.floor(rule, n, "C09.R3.emitters")


SAME_SHAPE = ("Bool", "U8", "I8", "U16", "I16", "U32", "I32", "U64", "I64", "Null", "Option", "Default", "Complex")


def r4(ctx):
    from .. import rules as R
    rule = "C09.R4"
    ctx.rule(rule, "sibling type printers: RustType::to_string (type of a field) and RustType::to_const_lit_string (type of the "
                   "constants declared for that field) print the same word for every scalar variant and treat the wrappers alike "
                   "(Option: `Option<inner>`, Default: the inner type, Complex: the name) - otherwise `pub const X: T = lit` is "
                   "declared with a type the literal / the field does not have and rustc rejects the generated file")
    P = ctx.program()
    bodies = {}
    for nm in ("to_string", "to_const_lit_string"):
        bs = [b for b in P.lib_bodies("asn1rs_model") if b.name == nm and b.def_kind == "AssocFn" and "RustType" in (b.impl_self_ty or "")]
        if len(bs) != 1:
            ctx.fail(rule, "anchor-lost:RustType::" + nm, "matched %d bodies" % len(bs))
            return
        bodies[nm] = bs[0]
    desc = {}
    for nm, b in bodies.items():
        O = X.Origins(b, P)
        d = {}
        for a in R.match_tables(P, b, O):
            if len(a.path) != 1:
                continue
            words, fmt, rec = set(), False, False
            for bb in sorted(a.blocks):
                blk = b.blocks[bb]
                for st in blk["stmts"]:
                    if st["k"] == "assign":
                        rv = st["rv"]
                        for o in [rv.get(k) for k in ("op", "l", "r", "a")] + list(rv.get("ops", [])):
                            if isinstance(o, dict) and o.get("k") == "const" and o.get("ty") == "&str":
                                words.add(o["s"].strip('"'))
                t = blk["term"]
                if t and t["k"] == "call" and t["func"]["k"] == "const" and t["func"].get("fn"):
                    f = t["func"]["fn"]
                    if f["name"] == "format" and "fmt" in (f.get("def") or ""):
                        fmt = True
                    if f["name"] == nm and "RustType" in ((f.get("impl_self_ty") or "") + (f.get("full") or "") + (f.get("resolved") or "")):
                        rec = True
                    for o in t["args"]:
                        if o.get("k") == "const" and o.get("ty") == "&str":
                            words.add(o["s"].strip('"'))
            d[a.path[0][1]] = {"words": sorted(words), "formats": fmt, "recurses_into_inner": rec}
        desc[nm] = d
    n = 0
    for v in SAME_SHAPE:
        a, c = desc["to_string"].get(v), desc["to_const_lit_string"].get(v)
        if a is None or c is None:
            ctx.fail(rule, "RustType::" + v, "variant %s has no arm in %s" % (v, "to_string" if a is None else "to_const_lit_string"),
                     "%s:%d" % (bodies["to_string"].file, bodies["to_string"].line))
            continue
        n += 1
        detail = {"variant": v, "to_string": a, "to_const_lit_string": c}
        if a != c:
            ctx.fail(rule, "RustType::" + v, "the field type printer handles RustType::%s as %s, the constant type printer as %s: constants of "
                                             "such a field are declared with a different type than the field" % (v, a, c),
                     "%s:%d" % (bodies["to_const_lit_string"].file, bodies["to_const_lit_string"].line), detail)
        else:
            ctx.ok(rule, "RustType::" + v, detail)
    ctx.floor(rule, n, "C09.R4.variants")


DIGIT_TESTS = ("is_numeric", "is_ascii_digit", "is_digit", "is_alphanumeric")
SIGN_SPLITS = ("strip_prefix", "starts_with", "trim_start_matches", "split_at", "split_first")


def r5(ctx):
    rule = "C09.R5"
    ctx.rule(rule, "digit grouping keeps the literal a literal: RustCodeGenerator::format_number_nicely inserts `_` only next to digits - "
                   "every push of the separator is guarded by a digit test of a character, or the sign is split off before grouping "
                   "(`-_128` is an identifier expression, the generated accessor of INTEGER (-128..127) does not compile)")
    P = ctx.program()
    bs = [b for b in P.find("asn1rs_model", "RustCodeGenerator::format_number_nicely") if b.def_kind in ("Fn", "AssocFn")]
    if len(bs) != 1:
        ctx.fail(rule, "anchor-lost:format_number_nicely", "matched %d bodies" % len(bs))
        return
    b = bs[0]
    n = 0
    bodies = [b] + P.closures_of(b)
    sign_split = []
    for body in bodies:
        O = X.Origins(body, P)
        for cs in body.calls():
            if cs.name in SIGN_SPLITS and any(a.get("k") == "const" and a.get("s") in ("'-'", '"-"') for a in cs.args):
                sign_split.append(cs.loc())
        for c in F.comparisons(body, O):
            if c.kind == "eq" and c.boundary == 45:      # == '-'
                sign_split.append(c.loc)
    for body in bodies:
        O = X.Origins(body, P)
        for cs in body.calls():
            if cs.name not in ("push", "push_str", "insert") or not any(
                    a.get("k") == "const" and a.get("s") in ("'_'", '"_"') for a in cs.args):
                continue
            n += 1
            guards = []
            for s_bb, ex, val in R.path_conditions(body, O, cs.bb):
                e = X.strip(ex)
                if e[0] == "call" and X.last_seg(e[1] or "") in DIGIT_TESTS and val:
                    guards.append(X.last_seg(e[1]))
            detail = {"function": body.path, "separator_pushed_at": cs.loc(), "digit_tests_on_the_path": guards, "sign_split_off_at": sign_split}
            if guards or sign_split:
                ctx.ok(rule, "format_number_nicely#separator", detail)
            else:
                ctx.fail(rule, "format_number_nicely#separator", "the separator `_` is inserted without testing that it stands between digits and "
                                                                 "the sign is not split off: a negative number whose digit count is a multiple of "
                                                                 "three is printed as `-_ddd`", cs.loc(), detail)
    ctx.floor(rule, n, "C09.R5.pushes")


NICE_FILES = {"generate/walker.rs": False, "generate/rust.rs": True}


def _strip(e):
    e = X.strip(e)
    while e[0] in ("ref", "deref", "mut", "cast"):
        e = X.strip(e[2] if e[0] == "cast" else e[1])
    return e


def _contexts(P, body, exprs, depth=0):
    """the argument tuples `exprs` of a call inside `body`, with parameters of a closure replaced by what the function's own
    calls of that closure pass: a list of tuples of origins in which no closure parameter is left (or the originals when the
    closure is handed to someone else)"""
    idx = [(_strip(e)[1] if _strip(e)[0] == "param" else None) for e in exprs]
    if body.def_kind != "Closure" or depth > 2 or not any(i is not None and i >= 2 for i in idx):
        return [(body, exprs)]
    sites = R.own_closure_calls(P, body)
    if not sites:
        return [(body, exprs)]
    out = []
    for cb, cs, elems in sites:
        new = []
        for e, i in zip(exprs, idx):
            if i is not None and i >= 2 and i - 2 < len(elems):
                new.append(elems[i - 2])
            else:
                new.append(e)
        out.extend(_contexts(P, cb, new, depth + 1))
    return out


def _probe_accepts(P, body, probe, discr):
    """may the probe return true for the enum variant with discriminant `discr`?  True / False, and a description"""
    e = _strip(probe)
    if e[0] == "fnitem":
        # a named function handed over as the probe (`fn is_boolean(l: &LiteralValue) -> bool`)
        cb = P.bodies.get("%s::%s" % (body.crate, e[1])) or P.bodies.get(e[1])
        if cb is None:
            hb = getattr(P, "helper_bodies", {}) or {}
            cb = hb.get("%s::%s" % (body.crate, e[1])) or hb.get(e[1])
    elif e[0] == "agg" and e[1] == "closure":
        cb = P.bodies.get("%s::%s" % (body.crate, e[2]))
    else:
        return True, "a probe that cannot be resolved (%s)" % X.render(e)[:60]
    if cb is None:
        return True, "an unknown closure"
    rets = R.returned_on_paths(cb)
    if rets is None:
        return True, "a probe with too many paths"
    for k, p, path in rets:
        if k == "const" and str(p) in ("0", "false"):
            continue
        # does the path exclude the variant?  a discriminant switch on the path whose taken edge does not cover `discr`
        excluded = False
        for a, b_ in zip(path, path[1:]):
            t = cb.blocks[a]["term"]
            if t and t["k"] == "switch" and t.get("opty") != "bool":
                vals = [int(v) for v in t["vals"]]
                taken = {v for v, tg in zip(vals, t["targets"]) if tg == b_}
                if b_ == t["otherwise"] and b_ not in t["targets"]:
                    if discr in vals:
                        excluded = True
                elif taken and discr not in taken and b_ != t["otherwise"]:
                    excluded = True
        if not excluded:
            return True, "the probe at %s:%d" % (cb.file, cb.line)
    return False, "the probe at %s:%d" % (cb.file, cb.line)


def r6(ctx):
    rule = "C09.R6"
    ctx.rule(rule, "names are made nice exactly once: the generator (generate/rust.rs, working on ASN.1 names) renders every literal with "
                   "make_names_nice = true; the walker (generate/walker.rs, working on the re-parsed attributes, which already carry the "
                   "Rust names) renders with make_names_nice = true only what its probe does not accept as an EnumeratedVariant - "
                   "rust_variant_name is not idempotent (`m-s` -> `MS` -> `Ms`), so a second pass names a variant the generated enum "
                   "does not have and DEFAULT_VALUE does not compile.  Arguments that are parameters of a local closure are resolved "
                   "through the function's own calls of that closure")
    P = ctx.program()
    adt = R.adt_of(P, "asn1rs_model", "model::LiteralValue")
    discr = None
    for v in (adt or {}).get("variants", ()):
        if v["name"] == "EnumeratedVariant":
            discr = int(v["discr"])
    if discr is None:
        ctx.fail(rule, "anchor-lost:LiteralValue::EnumeratedVariant", "the enum variant was not found")
        return
    n = {k: 0 for k in NICE_FILES}
    for b in P.lib_bodies("asn1rs_model"):
        f = next((k for k in NICE_FILES if b.file.endswith(k)), None)
        if f is None or "::tests::" in b.path or "::promoted[" in b.path:
            continue
        O = None
        k = 0
        for cs in b.calls():
            if cs.name not in ("as_rust_const_literal", "as_rust_const_literal_expect") or "LiteralValue" not in (cs.callee or ""):
                continue
            O = O or X.Origins(b, P)
            args = O.call_args(cs)
            key = "%s#%s#%d" % (b.root or b.path, cs.name, k)
            k += 1
            n[f] += 1
            bad = None
            seen = []
            for body, ex in _contexts(P, b, list(args[1:])):
                flag = _strip(ex[0])
                val = None
                if flag[0] == "const":
                    val = str(flag[1]) not in ("0", "false", "False")
                seen.append("%s%s" % ("?" if val is None else str(val).lower(), ", " + X.render(_strip(ex[1]))[:60] if len(ex) > 1 else ""))
                if NICE_FILES[f]:
                    if val is not True:
                        bad = "the generator renders a literal with make_names_nice = %s: an ENUMERATED default keeps its ASN.1 spelling, " \
                              "which the generated enum does not declare" % ("false" if val is False else "an undecided value")
                    continue
                if val is False:
                    continue
                acc, why = (True, "no probe") if len(ex) < 2 else _probe_accepts(P, body, ex[1], discr)
                if acc:
                    bad = "the walker renders a literal with make_names_nice = %s and %s accepts an EnumeratedVariant: the variant name, " \
                          "already a Rust name, is mangled a second time (`MS` -> `Ms`)" % ("true" if val else "an undecided value", why)
            detail = {"function": b.path, "call": cs.loc(), "contexts (flag, probe)": seen}
            if bad:
                ctx.fail(rule, key, bad, cs.loc(), detail)
            else:
                ctx.ok(rule, key, detail)
    # the renderer itself: under the flag both halves of `Type::Variant` get the name the generator gives the enum and its
    # variant (a half that is printed as stored names an item the generated file does not declare)
    fmts = [b for b in P.lib_bodies("asn1rs_model") if "as_rust_const_literal" in b.path and b.name == "fmt" and b.def_kind == "AssocFn"]
    if len(fmts) != 1:
        ctx.fail(rule, "anchor-lost:as_rust_const_literal::fmt", "matched %d bodies" % len(fmts))
    else:
        fb = fmts[0]
        Of = X.Origins(fb, P)
        arms = [a for a in R.match_tables(P, fb, Of) if a.path[-1][1] == "EnumeratedVariant"]
        calls = set()
        for a in arms:
            calls |= {c.split("::")[-1] for c in R.arm_effects(P, fb, a, Of)["calls"]}
        want = {"rust_struct_or_enum_name": "type", "rust_variant_name": "variant"}
        d = {"function": fb.path, "calls_in_the_EnumeratedVariant_arm": sorted(calls)}
        miss = [w for w in want if w not in calls]
        if not arms:
            ctx.fail(rule, "as_rust_const_literal#anchor-lost:EnumeratedVariant", "no arm for LiteralValue::EnumeratedVariant", "%s:%d" % (fb.file, fb.line), d)
        elif miss:
            ctx.fail(rule, "as_rust_const_literal#EnumeratedVariant#" + want[miss[0]], "the %s half of an ENUMERATED default is never passed "
                     "through %s: `Traffic-Light::Amber` is printed for the generated `enum TrafficLight`" % (want[miss[0]], miss[0]),
                     "%s:%d" % (fb.file, fb.line), d)
        else:
            ctx.ok(rule, "as_rust_const_literal#EnumeratedVariant", d)
    ctx.floor(rule, n["generate/walker.rs"], "C09.R6.walker_sites")
    ctx.floor(rule, n["generate/rust.rs"], "C09.R6.generator_sites")


def run(ctx):
    r1(ctx)
    r3(ctx)
    r4(ctx)
    r5(ctx)
    r6(ctx)
    # the declared field type and the type the attribute expansion derives agree on signedness (shared with C15)
    from .c15 import r1 as signedness_of_extensible_integers
    signedness_of_extensible_integers(ctx, rule="C09.R7")

"""C16 - SET canonical order and tag assignment: the ordering mechanism (DESIGN.md section 5, C16)."""
import json
import os
import re

from .. import expr as X
from .. import facts as F
from .. import rules as R
from ..core import VERIF
from ..mir import span_loc


def r1(ctx):
    rule = "C16.R1"
    ctx.rule(rule, "Tag: variants declared in the canonical class order Universal < Application < ContextSpecific < Private (X.680 8.6), "
                   "PartialOrd and Ord derived (no manual impl), one number field per variant")
    e = ctx.src().enum("asn1rs-model/src/asn/tag.rs", "Tag")
    if not ctx.anchor(rule, "enum Tag in asn/tag.rs", e):
        return
    order = [v["name"] for v in e["variants"]]
    want = ["Universal", "Application", "ContextSpecific", "Private"]
    detail = {"declared": order, "derives": e["derives"]}
    if order != want:
        ctx.fail(rule, "variant-order", "Tag variants are declared as %s; the derived ordering then is not the canonical class order %s" % (
            order, want), "asn1rs-model/src/asn/tag.rs:%d" % e["line"], detail)
    else:
        ctx.ok(rule, "variant-order", detail)
    for d in ("PartialOrd", "Ord"):
        if d not in e["derives"]:
            ctx.fail(rule, "derive:" + d, "Tag no longer derives %s" % d, "asn1rs-model/src/asn/tag.rs:%d" % e["line"], detail)
        else:
            ctx.ok(rule, "derive:" + d, detail, nontrivial=False)
    if any(v["fields"] != 1 or v["discr"] for v in e["variants"]):
        ctx.fail(rule, "variant-shape", "a Tag variant does not hold exactly one number or has an explicit discriminant",
                 "asn1rs-model/src/asn/tag.rs:%d" % e["line"], detail)
    else:
        ctx.ok(rule, "variant-shape", detail, nontrivial=False)
    P = ctx.program()
    manual = [im for im in P.impls if im["crate"] == "asn1rs_model" and im["self_ty"].endswith("asn::tag::Tag")
              and (im.get("trait") or "").split("::")[-1] in ("Ord", "PartialOrd") and not im["derived"]]
    if manual:
        ctx.fail(rule, "manual-ord", "Tag has a hand-written %s implementation" % manual[0]["trait"], manual[0]["span"]["s"], detail)
    else:
        n = len([im for im in P.impls if im["crate"] == "asn1rs_model" and im["self_ty"].endswith("asn::tag::Tag")
                 and (im.get("trait") or "").split("::")[-1] in ("Ord", "PartialOrd")])
        if n < 2:
            ctx.fail(rule, "anchor-lost:derived-ord", "derived Ord/PartialOrd impls of Tag not found in MIR facts")
        else:
            ctx.ok(rule, "manual-ord", {"derived_impls": n})


SORTING = ("sort_fields_canonically", "sort", "sort_by", "sort_by_key", "sort_unstable", "sort_unstable_by", "reverse", "to_vec")


def _under_sort(P, body, O, bb):
    """is block bb executed only when the EncodingOrdering value is Sort? (match arm or `== EncodingOrdering::Sort` test)"""
    adt = [a for k, a in P.adts.items() if k.endswith("rust::EncodingOrdering")]
    names = [v.get("name") for v in adt[0].get("variants", [])] if adt else []
    for s_bb, ex, vals in R.path_values(body, O, bb):
        e = X.strip(ex)
        if e[0] == "discr" and "Sort" in names:
            ty = body.blocks[s_bb]["term"].get("opty", "")
            src = [st for st in body.blocks[s_bb]["stmts"] if st["k"] == "assign" and st["rv"]["k"] == "discr"]
            if src and "EncodingOrdering" in src[-1]["rv"].get("of", ""):
                i = names.index("Sort")
                if vals == ("in", frozenset({i})) or (vals[0] == "not" and set(range(len(names))) - set(vals[1]) == {i}):
                    return True
    for s_bb, ex, val in R.path_conditions(body, O, bb):
        e = X.strip(ex)
        if e[0] == "call" and X.last_seg(e[1] or "") in ("eq", "ne") and len(e[3]) == 2:
            ks = [R.const_structure(P, body, a) for a in e[3]]
            if not ks[0] and not ks[1]:
                # a fieldless enum constant may be a plain aggregate operand
                ks = [a if X.strip(a)[0] == "agg" else None for a in (X.strip(e[3][0]), X.strip(e[3][1]))]
            k = ks[0] or ks[1]
            if k is not None and k[0] == "agg" and k[2].endswith("EncodingOrdering") and k[3] == "Sort":
                if (X.last_seg(e[1]) == "eq") == bool(val):
                    return True
    return False


def _sort_confined_by_conditions(ctx, r3, P, body, O, cs):
    """R3 without assuming a `match`: every order-changing call of the caller runs only under ordering == Sort"""
    calls = [c for c in body.calls() if c.name in SORTING and (c.name != "to_vec")]
    if not calls or not _under_sort(P, body, O, cs.bb):
        return False
    detail = {"caller": body.path, "call": cs.loc(), "order_changing_calls": [(c.name, c.loc()) for c in calls]}
    loose = [c for c in calls if not _under_sort(P, body, O, c.bb)]
    if loose:
        ctx.fail(r3, "keep-arm", "%s is called outside the EncodingOrdering::Sort case: the declared order of a SEQUENCE is changed" % loose[0].name,
                 loose[0].loc(), detail)
    else:
        ctx.ok(r3, "sort-arm", detail)
        ctx.ok(r3, "keep-arm", {"calls_outside_sort": []})
    return True


def _partition_form(P, b, sorts):
    """the same order produced as `let (root, additions) = fields.split_at_mut(root_len); root.sort_by_key(tag);
    additions.sort_by_key(tag)`: None when the function has another form, else (ok, what is wrong, facts)"""
    splits = [cs for cs in b.calls() if cs.name in ("split_at_mut", "split_at")]
    if not splits or len(sorts) != 2 or not all(cs.name in ("sort_by_key", "sort_by_cached_key") for cs in sorts):
        return None
    O = X.Origins(b, P)
    sp = splits[0]
    pn = b.param_names()
    ext_p = next((i for i, nm in pn.items() if nm == "extended_after_index"), None)
    idx = X.strip(O.call_args(sp)[1])
    facts = {"form": "partition at the root length, then sort both parts by tag", "split_index": F.rd(R.positional(idx))[:160]}
    ok_idx = False
    if idx[0] == "call" and X.last_seg(idx[1] or "") == "map_or" and len(idx[3]) == 3:
        recv, dflt, cl = (X.strip(a) for a in idx[3])
        while recv[0] in ("ref", "deref"):
            recv = X.strip(recv[1])
        c0 = cl
        while c0[0] in ("ref", "deref", "mut"):
            c0 = c0[1]
        if recv[0] == "param" and recv[1] == ext_p and re.match(r"^slice::len\(\$1\)$|^Vec::len\(", F.rd(R.positional(dflt))) \
                and c0[0] == "agg" and c0[1] == "closure":
            cb = P.bodies.get("%s::%s" % (b.crate, c0[2]))
            if cb is not None:
                Oc = X.Origins(cb, P)
                rets = [Oc.rvalue(d[3], d[0], d[1], 0) for d in cb.defs.get(0, ()) if d[2] == "assign"]
                if len(rets) == 1:
                    base, k = F.linear(rets[0])
                    base = F.strip_casts(base) if base is not None else None
                    ok_idx = k == 1 and base is not None and base[0] == "param" and base[1] == 2
    if not ok_idx:
        return False, "the fields are split at `%s`, not at the number of root components (extension index + 1, or all of them without a marker): " \
                      "root components would not all precede extension additions" % facts["split_index"][:80], facts
    halves = set()
    for cs in sorts:
        r = X.strip(O.call_args(cs)[0])
        while r[0] in ("ref", "deref", "mut"):
            r = X.strip(r[1])
        if r[0] == "field" and X.strip(r[1])[0] == "call" and X.last_seg(X.strip(r[1])[1] or "") == sp.name:
            halves.add(r[2])
    keys = [(cs.fn.get("args") or ["", ""])[1] for cs in sorts]
    facts["sorted_parts"] = sorted(halves)
    facts["key_types"] = keys
    if halves != {"0", "1"}:
        return False, "only the part(s) %s of the split are sorted" % sorted(halves), facts
    if not all("Tag" in k and not k.startswith("(") for k in keys):
        return False, "the parts are sorted by `%s`, not by the tag" % keys, facts
    if any(cs.name in ("reverse", "rev") for c in [b] + P.closures_of(b) for cs in c.calls()):
        return False, "the order is reversed", facts
    return True, "", facts


def r2_r3(ctx):
    r2 = "C16.R2"
    r3 = "C16.R3"
    ctx.rule(r2, "sort key: sort_fields_canonically compares (is-extension-addition, tag) tuples - the flag is `index > extension index`, "
                 "the tag is the explicit tag or else the type's tag - with the derived Ord")
    ctx.rule(r3, "who sorts: sort_fields_canonically is called only on the EncodingOrdering::Sort arm of the constraint writer; the Keep arm "
                 "passes the fields through unchanged")
    P = ctx.program()
    try:
        b = P.one("asn1rs_model", "AsnDefWriter::sort_fields_canonically")
    except KeyError as e:
        ctx.fail(r2, "anchor-lost:sort_fields_canonically", str(e))
        return
    closures = P.closures_of(b)
    cmps = [(c, cs) for c in closures for cs in c.calls() if cs.name == "cmp" and (cs.trait or "").endswith("Ord")]
    sorts = [cs for cs in b.calls() if cs.name in ("sort_by", "sort", "sort_by_key", "sort_unstable_by", "sort_by_cached_key")]
    detail = {"function": b.path, "sort_calls": [X.short(c.callee) for c in sorts],
              "key_types": [cs.fn.get("self_ty") for _, cs in cmps]}
    partition = _partition_form(P, b, sorts)
    if partition is not None:
        ok_p, why, d_p = partition
        detail.update(d_p)
        if ok_p:
            ctx.ok(r2, "key-type", detail)
        else:
            ctx.fail(r2, "key-type", why, sorts[0].loc(), detail)
    elif not sorts:
        ctx.fail(r2, "sort-call", "sort_fields_canonically no longer sorts", "%s:%d" % (b.file, b.line), detail)
    elif not cmps and not any(cs.name in ("sort_by_key", "sort_by_cached_key", "sort") for cs in sorts):
        ctx.fail(r2, "anchor-lost:key-comparison", "no Ord::cmp call found in the comparison closure", "%s:%d" % (b.file, b.line), detail)
    else:
        if cmps:
            kt = cmps[0][1].fn.get("self_ty") or ""
            where = cmps[0][1].loc()
        else:
            # sort_by_key(|..| key): the key type is a generic argument of the call
            sk = [cs for cs in sorts if cs.name in ("sort_by_key", "sort_by_cached_key")]
            tuples = [a for a in (sk[0].fn.get("args") or []) if a.startswith("(bool")] if sk else []
            kt = next((a for a in tuples if "Tag" in a), tuples[0] if tuples else "")
            where = (sk or sorts)[0].loc()
            detail["key_types"] = [kt]
            cmps = [(None, (sk or sorts)[0])]
        m = re.match(r"\((bool), &?(.*)\)$", kt)
        chain = False
        if not m:
            # the same key written as a lexicographic chain: `a_flag.cmp(b_flag).then_with(|| a.tag.cmp(&b.tag))` / `.then(..)`
            tys = [(cs.fn.get("self_ty") or "") for _, cs in cmps]
            thens = [cs for c in closures for cs in c.calls() if cs.name in ("then_with", "then") and "Ordering" in (cs.fn.get("def") or "")]
            first_bool = False
            for c in closures:
                Oc = X.Origins(c, P)
                by_loc = {cs.loc(): cs for cs in c.calls() if cs.name == "cmp"}
                for cs in c.calls():
                    if cs.name in ("then_with", "then") and "Ordering" in (cs.fn.get("def") or ""):
                        a0 = X.strip(Oc.call_args(cs)[0])
                        # the comparison the chain starts with decides first: it must be the one on the extension flag
                        if a0[0] == "call" and X.last_seg(a0[1] or "") == "cmp" and a0[4] in by_loc:
                            first_bool = (by_loc[a0[4]].fn.get("self_ty") or "") == "bool"
            if thens and first_bool and any("Tag" in t for t in tys) and all(t == "bool" or "Tag" in t for t in tys):
                chain = True
                detail["key_types"] = ["bool, then " + next(t for t in tys if "Tag" in t)]
        if chain:
            ctx.ok(r2, "key-type", detail)
        elif not m or "Tag" not in kt:
            ctx.fail(r2, "key-type", "the sort key is `%s`, not (extension flag: bool, tag)" % kt, cmps[0][1].loc(), detail)
        else:
            ctx.ok(r2, "key-type", detail)
        if any(cs.name in ("reverse", "rev") for c in closures + [b] for cs in c.calls()) or \
                any(cs.name == "reverse" and (cs.trait or "").endswith("Ordering") for c in closures for cs in c.calls()):
            ctx.fail(r2, "key-reversed", "the comparison result is reversed", cmps[0][1].loc(), detail)
    # flag and tag of the key: in the map closure (or in a private helper it calls); values are traced back to the parameters of
    # sort_fields_canonically, so the names of locals and closure parameters do not matter
    flag_ok = tag_ok = False
    flag_detail = []

    def candidates():
        for c in [b] + closures:
            O = X.Origins(c, P)
            for cm in F.comparisons(c, O):
                if cm.lex is not None and cm.rex is not None:
                    yield F.rd(R.in_root_terms(P, c, cm.lex)), F.rd(R.in_root_terms(P, c, cm.rex)), cm
            for cs in c.calls():
                if cs.fn is None or not cs.is_local or cs.trait:
                    continue
                t = P.resolve_callee(c.crate, cs)
                if t is None or t.file != b.file or t.def_kind not in ("Fn", "AssocFn") or t.key == b.key:
                    continue
                pn = t.param_names()
                sub = {pn[i + 1]: R.in_root_terms(P, c, a) for i, a in enumerate(O.call_args(cs)) if pn.get(i + 1)}
                Ot = X.Origins(t, P)
                for cm in F.comparisons(t, Ot):
                    if cm.lex is not None and cm.rex is not None:
                        yield F.rd(R.substitute(cm.lex, sub)), F.rd(R.substitute(cm.rex, sub)), cm
    for lt, rt, cm in candidates():
        flag_detail.append("%s  [%s | %s]" % (cm.raw[:60], lt[:50], rt[:50]))
        if cm.kind != "b":
            continue
        # `index > after`: with the extension position on the left of the normal form the boundary is 0, on the right it is 1
        if "extended_after_index" in lt and "extended_after_index" not in rt and cm.boundary == 0:
            flag_ok = True
        if "extended_after_index" in rt and "extended_after_index" not in lt and cm.boundary == 1:
            flag_ok = True
    item_helpers = []
    for c in [b] + closures:
        for cs in c.calls():
            for a in cs.args:
                if a.get("k") == "const" and isinstance(a.get("fn"), dict):
                    nm = a["fn"].get("resolved") or a["fn"].get("def") or ""
                    hb = P.bodies.get("%s::%s" % (b.crate, nm)) or P.bodies.get(nm) or (getattr(P, "helper_bodies", {}) or {}).get("%s::%s" % (b.crate, nm))
                    if hb is not None and hb.file == b.file and hb not in item_helpers:
                        item_helpers.append(hb)       # `.map(Self::with_canonical_tag)`
    for c in [b] + closures + item_helpers:
        O = X.Origins(c, P)
        for cs in c.calls():
            if cs.name == "or_else" and "tag" in X.render(O.call_args(cs)[0]):
                tag_ok = True
    if not tag_ok:
        # `if field.tag.is_none() { field.tag = field.type().tag(); }`
        for c in [b] + closures:
            O = X.Origins(c, P)
            for bb, j, st in c.all_statements():
                if st["k"] != "assign" or not st["pl"]["p"] or st["pl"]["p"][-1].get("n") != "tag":
                    continue
                v = X.strip(O.rvalue(st["rv"], bb, j, 0))
                if not (v[0] == "call" and X.last_seg(v[1] or "") == "tag"):
                    continue
                for s_bb, ex, val in R.path_conditions(c, O, bb):
                    e = X.strip(ex)
                    if e[0] == "call" and X.last_seg(e[1] or "") in ("is_none", "is_some") and "tag" in X.render(e[3][0]):
                        if (X.last_seg(e[1]) == "is_none") == bool(val):
                            tag_ok = True
                    elif e[0] == "discr" and "tag" in X.render(e[1]) and not val:
                        tag_ok = True       # discriminant 0 = None
    d2 = {"comparisons_in_key_closures": flag_detail[:6]}
    if partition is not None:
        if partition[0]:
            ctx.ok(r2, "extension-flag", partition[2])
        else:
            ctx.fail(r2, "extension-flag", partition[1], "%s:%d" % (b.file, b.line), partition[2])
    elif flag_ok:
        ctx.ok(r2, "extension-flag", d2)
    else:
        ctx.fail(r2, "extension-flag", "the extension flag of the sort key is not `index > extended_after_index`: root components would not "
                                       "all precede extension additions", "%s:%d" % (b.file, b.line), d2)
    if tag_ok:
        ctx.ok(r2, "tag-source", {"tag": "field.tag.or_else(type tag)"})
    else:
        ctx.fail(r2, "tag-source", "the key's tag is no longer `field.tag.or_else(|| field.type().tag())`", "%s:%d" % (b.file, b.line))
    # R3: callers
    callers = []
    for body in P.lib_bodies("asn1rs_model"):
        if "::tests::" in body.path or "::promoted[" in body.path:
            continue
        for cs in body.calls():
            if cs.name == "sort_fields_canonically":
                callers.append((body, cs))
    if len(callers) != 1:
        ctx.fail(r3, "callers", "sort_fields_canonically has %d callers (expected the single call in write_sequence_or_set_constraint)" % len(callers),
                 callers[0][1].loc() if callers else "?")
        return
    body, cs = callers[0]
    O = X.Origins(body, P)
    if _sort_confined_by_conditions(ctx, r3, P, body, O, cs):
        return
    arms = R.match_tables(P, body, O)
    arm = [a for a in arms if cs.bb in a.blocks and a.path[-1][0].endswith("$7") or (cs.bb in a.blocks and "ordering" in a.path[-1][0])]
    arm = [a for a in arms if cs.bb in a.blocks]
    detail = {"caller": body.path, "call": cs.loc(), "arms": [a.path for a in arm]}
    if not arm or not all(a.path[-1][1] == "Sort" for a in arm):
        ctx.fail(r3, "sort-arm", "the canonical sort is not confined to the EncodingOrdering::Sort arm (arms: %s)" % [a.path for a in arm],
                 cs.loc(), detail)
    else:
        ctx.ok(r3, "sort-arm", detail)
    keep = [a for a in arms if a.path[-1][1] == "Keep" and a.switch_bb == arm[0].switch_bb] if arm else []
    if keep:
        eff = R.arm_effects(P, body, keep[0], O)
        if any(c.split("::")[-1] in ("sort_fields_canonically", "sort", "sort_by", "reverse", "to_vec") for c in eff["calls"]):
            ctx.fail(r3, "keep-arm", "the Keep arm modifies the field order (%s)" % eff["calls"], cs.loc(), detail)
        else:
            ctx.ok(r3, "keep-arm", {"calls_in_keep_arm": eff["calls"]})
    else:
        ctx.fail(r3, "anchor-lost:keep-arm", "EncodingOrdering::Keep arm not found next to the Sort arm", cs.loc(), detail)


def tag_const_values(ctx):
    src = ctx.src()
    f = src.file("asn1rs-model/src/asn/tag.rs")
    vals = {}
    for c in (f or {}).get("consts", []):
        m = re.match(r"Tag\s*::\s*(\w+)\s*\(\s*(\d+)\s*\)", c["expr"])
        if m:
            vals[c["name"]] = (m.group(1), int(m.group(2)))
    return vals


def r4(ctx):
    rule = "C16.R4"
    ctx.rule(rule, "T7 universal tag table: Tag::DEFAULT_* equal X.680 8.4 table 1, and the three places that map a type to its default "
                   "tag (TagResolver::resolve_type_tag, RustType::tag, Charset::default_tag) agree with it variant by variant")
    with open(os.path.join(VERIF, "tables", "x680_tags.json")) as fh:
        t = json.load(fh)
    vals = tag_const_values(ctx)
    ctx.anchor(rule, "Tag::DEFAULT_* constants", vals)
    for cname, tyname in sorted(t["constants"].items()):
        want = t["universal"][tyname]
        got = vals.get(cname)
        if got is None:
            ctx.fail(rule, "const:" + cname, "constant Tag::%s not found" % cname, "asn1rs-model/src/asn/tag.rs")
        elif got != ("Universal", want):
            ctx.fail(rule, "const:" + cname, "Tag::%s is %s(%d); X.680 assigns UNIVERSAL %d to %s" % (cname, got[0], got[1], want, tyname),
                     "asn1rs-model/src/asn/tag.rs", {"constant": cname, "value": got, "x680": want})
        else:
            ctx.ok(rule, "const:" + cname, {"constant": cname, "value": got, "type": tyname})
    P = ctx.program()
    for fn, table, crate in (("::resolve_type_tag", t["asn_type"], "asn1rs_model"), ("rust::RustType::tag", t["rust_type"], "asn1rs_model"),
                             ("Charset::default_tag", t["charset"], "asn1rs_model")):
        bs = [b for b in P.find(crate, fn) if b.def_kind == "AssocFn"]
        if len(bs) != 1:
            ctx.fail(rule, "anchor-lost:" + fn, "function %s matched %d bodies" % (fn, len(bs)))
            continue
        b = bs[0]
        O = X.Origins(b, P)
        arms = R.match_tables(P, b, O)
        hops = 0
        while not [a for a in arms if a.path[0][1] in table or "/".join(v for _, v in a.path) in table] and hops < 3:
            # thin wrapper: follow the delegation to a method of the same type
            nxt = None
            for cs in b.calls():
                tb = P.resolve_callee(b.crate, cs)
                if tb is not None and tb.impl_self_ty == b.impl_self_ty and tb.key != b.key:
                    nxt = tb
            if nxt is None:
                break
            b = nxt
            O = X.Origins(b, P)
            arms = R.match_tables(P, b, O)
            hops += 1
        got = {}
        for a in arms:
            key = "/".join(v for _, v in a.path)
            eff = R.arm_effects(P, b, a, O)
            cs = sorted({c for c in eff["consts"] if c.startswith("DEFAULT_")})
            got[key] = cs
        # an arm that delegates to another of the three table functions (`Type::String(_, charset) => charset.default_tag()`) covers
        # the variants that function decides - its own table is checked below / above
        for a in arms:
            key = "/".join(v for _, v in a.path)
            eff = R.arm_effects(P, b, a, O)
            if any(c.split("::")[-1] == "default_tag" and "Charset" in c for c in eff["calls"]):
                for variant in table:
                    if variant.startswith(key + "/") and variant not in got:
                        sub = variant[len(key) + 1:]
                        want_const = {v: k for k, v in t["constants"].items()}.get(table[variant])
                        # the delegate's table (t["charset"]) maps the same sub-variant to the same type name
                        if t["charset"].get(sub) == table[variant] and want_const:
                            got[variant] = [want_const]
        name = X.short(b.path)
        # the table must be applied to the type itself: a scrutinee that was preprocessed (e.g. `self.as_inner_type()`, which also
        # looks through SEQUENCE OF / SET OF) gives a list the tag of its elements
        scr = sorted({a.path[0][0] for a in arms if a.path[0][1] in table or "/".join(v for _, v in a.path) in table})
        if scr and not all(re.match(r"^\$\d+$", x) for x in scr):
            ctx.fail(rule, "%s#scrutinee" % name, "the tag table of %s is applied to `%s`, not to the type it was asked about" % (name, scr[0][:80]),
                     "%s:%d" % (b.file, b.line), {"function": b.path, "scrutinee": scr})
        elif scr:
            ctx.ok(rule, "%s#scrutinee" % name, {"function": b.path, "scrutinee": scr})
        # the transparent wrappers take the tag of the type they wrap directly: `Option(inner) => inner.tag()`.  Going through a
        # helper that strips more than the wrapper (as_inner_type also looks through SEQUENCE OF / SET OF) gives an optional
        # list the tag of its elements
        if fn == "rust::RustType::tag":
            nw = 0
            for a in arms:
                v = a.path[0][1]
                if len(a.path) != 1 or v not in ("Option", "Default"):
                    continue
                rec = [c for c in b.calls() if c.bb in a.blocks and c.name == "tag" and "RustType" in (c.callee or "")]
                if not rec:
                    # `Option(inner) | Default(inner, ..) => inner.tag()`: the arms only bind, the call sits where they join
                    rec = [c for c in b.calls() if c.name == "tag" and "RustType" in (c.callee or "") and c.bb in b.reach_from(a.target)
                           and ("as %s)" % v) in F.rd(R.positional(O.call_args(c)[0]))]
                if not rec:
                    continue
                nw += 1
                arg = F.rd(R.positional(O.call_args(rec[0])[0]))
                alts = [arg]
                m = re.search(r"phi\{([^{}]*)\}", arg)
                if m:
                    alts = [arg[:m.start()] + x.strip() + arg[m.end():] for x in m.group(1).split(" | ")]
                okw = all(re.match(r"^\(*[*&]*\(*[*&]*\$1 as (Option|Default)\)\.0[.\w]*( as \*const [\w:]+\))?$", x) for x in alts)
                d = {"function": b.path, "variant": v, "delegates_to_tag_of": arg[:120]}
                if okw:
                    ctx.ok(rule, "%s#%s#wrapped-type" % (name, v), d)
                else:
                    ctx.fail(rule, "%s#%s#wrapped-type" % (name, v), "the %s arm of %s takes the tag of `%s`, not of the type it wraps directly: "
                                                                     "an OPTIONAL / DEFAULT SEQUENCE OF is sorted by the tag of its elements"
                             % (v, name, arg[:80]), rec[0].loc(), d)
            ctx.floor(rule, nw, "C16.R4.wrapper_arms")
        for variant, tyname in sorted(table.items()):
            cs = got.get(variant)
            key = "%s#%s" % (name, variant)
            detail = {"function": b.path, "variant": variant, "constants": cs, "expected_type": tyname}
            if cs is None:
                ctx.fail(rule, key, "%s has no arm for %s" % (name, variant), "%s:%d" % (b.file, b.line), detail)
            elif len(cs) != 1:
                ctx.fail(rule, key, "arm %s of %s yields %s instead of one default tag constant" % (variant, name, cs), "%s:%d" % (b.file, b.line), detail)
            elif t["constants"].get(cs[0]) is None or t["universal"][t["constants"][cs[0]]] != t["universal"][tyname]:
                ctx.fail(rule, key, "arm %s of %s yields Tag::%s; %s has universal tag %d" % (variant, name, cs[0], tyname, t["universal"][tyname]),
                         "%s:%d" % (b.file, b.line), detail)
            else:
                ctx.ok(rule, key, detail)


def r5(ctx):
    rule = "C16.R5"
    ctx.rule(rule, "automatic tagging: assign_implicit_tags builds only Tag::ContextSpecific(index) from the enumerate() index and only "
                   "when no field carries an explicit tag")
    P = ctx.program()
    try:
        b = P.one("asn1rs_model", "AsnDefWriter::assign_implicit_tags")
    except KeyError as e:
        ctx.fail(rule, "anchor-lost:assign_implicit_tags", str(e))
        return
    aggs = []
    for c in [b] + P.closures_of(b):
        O = X.Origins(c, P)
        for bb, j, s in c.all_statements():
            if s["k"] == "assign" and s["rv"]["k"] == "agg" and s["rv"].get("adt", "").endswith("tag::Tag"):
                aggs.append((s["rv"]["variant"], F.rd(R.positional(O.operand(s["rv"]["ops"][0], bb, j))), c.path))
    O = X.Origins(b, P)
    # "some field carries an explicit tag": `any(|f| f.tag.is_some())`, or negated `all(|f| f.tag.is_none())`
    anys = []
    widened = []
    explicit_when = {}       # call location -> truth value of the call that means "an explicit tag exists"
    for cs in b.calls():
        if cs.name not in ("any", "all"):
            continue
        pol = None
        for a in O.call_args(cs)[1:]:
            if a[0] == "agg" and a[1] == "closure":
                cb = P.bodies.get("%s::%s" % (b.crate, a[2]))
                names = {c2.name for c2 in cb.calls()} if cb is not None else set()
                # the predicate looks at the component's own tag and at nothing else: a second criterion (the tag a referenced
                # type carries, say) switches automatic tagging off for SETs in which nothing is textually tagged
                extra = sorted(names - {"is_some", "is_none", "deref", "as_ref", "tag"})
                other_switches = [1 for bb_, t_ in (cb.switches() if cb is not None else ()) if t_.get("opty") != "bool"]
                if cb is not None and (extra or other_switches):
                    widened.append((cs.loc(), extra or ["a match on another value"]))
                if "is_some" in names and "is_none" not in names:
                    pol = True
                elif "is_none" in names and "is_some" not in names:
                    pol = False
        if pol is None:
            continue
        if (cs.name == "any") == pol:
            anys.append(cs)
            explicit_when[cs.loc()] = (cs.name == "any")
    enum = [cs for cs in b.calls() if cs.name == "enumerate"]
    detail = {"function": b.path, "tags_built": aggs, "any_calls": len(anys), "enumerate_calls": len(enum)}
    probs = []
    if not aggs or any(v != "ContextSpecific" for v, _, _ in aggs):
        probs.append("builds %s instead of only Tag::ContextSpecific" % [v for v, _, _ in aggs])
    if any(not re.fullmatch(r"\$\d+\.0|index|\(?\$\d+\)?\.0", a) and "0" not in a.split(".")[-1:] for _, a, _ in aggs):
        probs.append("tag number is `%s`, not the enumerate index" % [a for _, a, _ in aggs])
    if widened:
        probs.append("the `any explicit tag` predicate at %s also looks at %s: components count as explicitly tagged although no tag "
                     "was written for them" % (widened[0][0], ", ".join(widened[0][1])))
    if not anys or not enum:
        probs.append("the `any explicit tag` test or the enumerate() is gone")
    else:
        # the automatic branch must be the one where `any` is false
        sw = []
        for bb, t in b.switches():
            e = F.strip_casts(O.switch_cond(bb))
            neg = False
            while e[0] == "un" and e[1] == "Not":
                e = F.strip_casts(e[2])
                neg = not neg
            if e[0] == "call" and X.last_seg(e[1] or "") in ("any", "all") and e[4] in explicit_when and len(t["vals"]) == 1:
                sw.append((bb, t, explicit_when[e[4]] != neg))     # truth value of the switched bool that means "explicit tag exists"
        if not sw:
            probs.append("the result of any(..) does not select the branch")
        else:
            bb0, t, explicit_is_true = sw[0]
            zero_t, other_t = t["targets"][0], t["otherwise"]
            if int(t["vals"][0]) != 0:
                zero_t, other_t = other_t, zero_t
            auto_target, explicit_target = (zero_t, other_t) if explicit_is_true else (other_t, zero_t)
            en_bb = enum[0].bb
            if en_bb not in b.reach_from(auto_target) or \
                    en_bb in b.reach_from(explicit_target) and not b.dominates(auto_target, en_bb):
                probs.append("automatic tags are assigned on the branch where some field has an explicit tag")
    if probs:
        ctx.fail(rule, "assign_implicit_tags", "; ".join(probs), "%s:%d" % (b.file, b.line), detail)
    else:
        ctx.ok(rule, "assign_implicit_tags", detail)


WHOLE_TAG_ORDER = ("sort", "sort_unstable", "min", "max", "cmp", "partial_cmp", "lt", "le", "gt", "ge")
KEYED_ORDER = ("sort_by_key", "sort_unstable_by_key", "sort_by_cached_key", "min_by_key", "max_by_key", "sort_by", "sort_unstable_by",
               "min_by", "max_by", "is_sorted_by_key")


def r6(ctx):
    rule = "C16.R6"
    ctx.rule(rule, "one canonical order: the tag an untagged CHOICE counts as (its smallest alternative, X.680 8.6 / X.691 23) is chosen "
                   "with the total order of Tag itself (`sort` / `min` over Tag values: class first, then number - C16.R1) and not "
                   "with an ad-hoc key or comparator over part of the tag")
    P = ctx.program()
    bs = [b for b in P.find("asn1rs_model", "TagResolver::<'_>::resolve_type_tag_at_depth") if b.def_kind == "AssocFn"]
    if len(bs) != 1:
        ctx.fail(rule, "anchor-lost:resolve_type_tag_at_depth", "matched %d bodies" % len(bs))
        return
    b = bs[0]
    whole, keyed = [], []
    for body in [b] + P.closures_of(b):
        for cs in body.calls():
            full = (cs.fn or {}).get("full") or ""
            if "tag::Tag" not in full and not any("tag::Tag" in t for t in cs.term.get("argtys", [])):
                continue
            if cs.name in KEYED_ORDER:
                keyed.append(cs)
            elif cs.name in WHOLE_TAG_ORDER:
                whole.append(cs)
    detail = {"function": b.path, "whole_tag_order": [c.loc() + " " + c.name for c in whole], "keyed_order": [c.loc() + " " + c.name for c in keyed]}
    if keyed:
        ctx.fail(rule, "choice-smallest-tag", "the alternatives' tags are ordered with `%s` (a key / comparator chosen at the call site) "
                                              "instead of Tag's own order: the class is no longer compared before the number" % keyed[0].name,
                 keyed[0].loc(), detail)
    elif not whole:
        ctx.fail(rule, "choice-smallest-tag", "no ordering of the alternatives' tags is left in resolve_type_tag_at_depth: an untagged CHOICE "
                                              "no longer counts as its smallest alternative", "%s:%d" % (b.file, b.line), detail)
    else:
        ctx.ok(rule, "choice-smallest-tag", detail)


def _choice_tag_loop(ctx, rule, P, b, O):
    """The same selection written as a loop over `variants().enumerate()` that keeps a running minimum: every update of the
    running value must lie behind the test that the enumerate index is not behind the extension marker (`index > after` false,
    `index <= after` true).  Returns False when the function has no such loop (the caller fails closed)."""
    enums = [cs for cs in b.calls() if cs.name == "enumerate"]
    nexts = [cs for cs in b.calls() if cs.name == "next"]
    if not enums or not nexts:
        return False
    # blocks of the loop(s) driven by `next()` on the enumerate iterator
    loop_blocks = set()
    for nx in nexts:
        if "enumerate(" not in X.render(O.call_args(nx)[0]):
            continue
        loop = set()
        for comp in b.sccs():
            if nx.bb in comp:
                loop = set(comp)
        loop_blocks |= loop
    if not loop_blocks:
        return False
    # accumulator updates: assignments of Option::Some(<tag>) / a tag to a local that is also read back in a comparison
    updates = []
    for bb, j, st in b.all_statements():
        rv = st.get("rv") or {}
        if st["k"] == "assign" and not st["pl"]["p"] and rv.get("k") == "agg" and rv.get("adt", "").endswith("option::Option") \
                and rv.get("variant") == "Some" and "Tag" in (st.get("pty") or "") and bb in loop_blocks:
            l = st["pl"]["l"]
            acc = len(b.defs.get(l, ())) >= 2
            if not acc:
                # `smallest = Some(tag)` is built in a temporary and moved into the accumulator
                for bb2, j2, st2 in b.all_statements():
                    if st2["k"] == "assign" and not st2["pl"]["p"] and st2["rv"]["k"] == "use" and st2["rv"]["op"].get("k") in ("copy", "move") \
                            and not st2["rv"]["op"]["pl"]["p"] and st2["rv"]["op"]["pl"]["l"] == l and len(b.defs.get(st2["pl"]["l"], ())) >= 2:
                        acc = True
            if acc:
                updates.append((bb, st))
    if not updates:
        return False
    ok_all = True
    for bb, st in updates:
        guarded = False
        conds = []
        for s_bb, ex, val in R.path_conditions(b, O, bb):
            txt = F.rd(R.positional(ex))
            conds.append("%s is %s" % (txt[:80], val))
            c = None
            e = F.strip_casts(ex)
            # `index > after` / `index <= after` on the enumerate index, directly or inside map_or / is_some_and closures
            if "extension_after_index(" in txt or "extension_after" in txt:
                if e[0] == "bin" and X.norm_op(e[1]) in ("Gt", "Ge", "Lt", "Le"):
                    c = (X.norm_op(e[1]), "extension_after" in F.rd(R.positional(e[2])))
                    gt_like = (c[0] in ("Gt", "Ge")) != c[1]          # true when the index is behind the marker
                    if gt_like != bool(val):
                        guarded = True
                elif e[0] == "call" and X.last_seg(e[1] or "") in ("map_or", "is_some_and", "is_none_or"):
                    for a in e[3][1:]:
                        if a[0] == "agg" and a[1] == "closure":
                            cb = P.bodies.get("%s::%s" % (b.crate, a[2]))
                            for cm in (F.comparisons(cb, X.Origins(cb, P)) if cb is not None else ()):
                                # closure `|after| index > after`: true = behind the marker
                                behind_when_true = cm.nop in ("Gt", "Ge") if "upvar" in X.render(cm.lex) or "^" in (cm.lhs or "") else cm.nop in ("Lt", "Le")
                                if behind_when_true != bool(val):
                                    guarded = True
        detail = {"update_at": span_loc(st["sp"]), "path_conditions": conds[:6]}
        if guarded:
            ctx.ok(rule, "choice-root-count", detail)
        else:
            ok_all = False
            ctx.fail(rule, "choice-root-count", "the running smallest tag is updated before (or without) the test that the alternative is not "
                                                "behind the extension marker: the first extension alternative can decide the choice's tag",
                     span_loc(st["sp"]), detail)
    return True


def r7(ctx, rule="C16.R7"):
    rule_text = ("root alternatives only: the tag of an untagged CHOICE is the smallest tag among its *root* alternatives - the number "
                 "of alternatives looked at is `extension_after_index + 1` (all of them only when there is no marker), with no further "
                 "max / widening - so that appending an extension alternative in a later version never moves the component inside an "
                 "enclosing SET")
    ctx.rule(rule, rule_text)
    P = ctx.program()
    bs = [b for b in P.find("asn1rs_model", "TagResolver::<'_>::resolve_type_tag_at_depth") if b.def_kind == "AssocFn"]
    if len(bs) != 1:
        ctx.fail(rule, "anchor-lost:resolve_type_tag_at_depth", "matched %d bodies" % len(bs))
        return
    b = bs[0]
    O = X.Origins(b, P)
    takes = [cs for cs in b.calls() if cs.name == "take"]
    if not takes and _choice_tag_loop(ctx, rule, P, b, O):
        return
    if not takes:
        ctx.fail(rule, "choice-root-count#anchor-lost", "the alternatives are no longer limited with take(..): extension alternatives take "
                                                        "part in the choice's tag", "%s:%d" % (b.file, b.line))
        return
    for cs in takes:
        a = O.call_args(cs)[1]
        e = F.strip_casts(a)
        txt = F.rd(R.positional(a))
        detail = {"take_argument": txt[:240]}
        ok = e[0] == "call" and X.last_seg(e[1]) in ("unwrap_or_else", "unwrap_or", "map_or", "map_or_else") and "extension_after_index(" in txt
        # the Some side adds one to the index
        plus_one = False
        if e[0] == "phi":
            # `match choice.extension_after_index() { Some(i) => i + 1, None => choice.len() }`
            alts = [F.rd(R.positional(x)) for x in e[1]]
            some = [x for x in alts if "extension_after_index(" in x and x.endswith("Add 1)") and x.startswith("(")]
            none = [x for x in alts if x.startswith("Choice::len(") or x.endswith("::len(($2 as Choice).0)")]
            ok = len(alts) == 2 and len(some) == 1 and len(none) == 1
            plus_one = ok
        for cl in P.closures_of(b):
            if any(x[0] == "agg" and x[1] == "closure" and x[2] == cl.path for x in X.walk(a)):
                for (op, val, pos), locs in F.const_ops(cl, X.Origins(cl, P)).items():
                    if op == "Add" and val == 1:
                        plus_one = True
        detail["index_plus_one"] = plus_one
        if not ok:
            ctx.fail(rule, "choice-root-count", "the number of alternatives considered is `%s`, not `extension_after_index + 1` (or all "
                                                "without a marker): extension alternatives can decide the choice's tag" % txt[:100], cs.loc(), detail)
        elif not plus_one:
            ctx.fail(rule, "choice-root-count", "the root alternatives are counted as `extension_after_index` without + 1: the last root "
                                                "alternative is ignored", cs.loc(), detail)
        else:
            ctx.ok(rule, "choice-root-count", detail)


def r8(ctx):
    rule = "C16.R8"
    ctx.rule(rule, "T6 a component's own tag is its explicit tag: proc_macro::into_asn, which rebuilds the model of every `#[asn(..)]` "
                   "field, takes the field's `tag` from the attribute's explicit tag(..) only; the tag a `complex(Name, tag(X))` "
                   "reference mentions belongs to the referenced type and stays inside the TypeReference (falling back to the "
                   "explicit tag) - merged into the field it makes an untagged list look explicitly tagged, automatic tags are no "
                   "longer assigned and a SET is ordered by the referenced types' tags")
    P = ctx.program()
    bs = [b for b in P.find("asn1rs_model", "proc_macro::into_asn") if b.def_kind == "Fn"]
    if len(bs) != 1:
        ctx.fail(rule, "anchor-lost:proc_macro::into_asn", "matched %d bodies" % len(bs))
        return
    b = bs[0]
    O = X.Origins(b, P)
    pn = b.param_names()
    ap = [i for i, n in pn.items() if n == "asn"]
    found = 0
    for bb, j, st in b.all_statements():
        if st["k"] == "assign" and st["rv"]["k"] == "agg" and st["rv"].get("ak") == "adt":
            flds = {n: F.rd(R.positional(O.operand(o, bb, j))) for n, o in zip(st["rv"]["fields"], st["rv"]["ops"])}
            if st["rv"]["adt"].endswith("asn::Asn") and "tag" in flds and ap:
                found += 1
                want = ("mut($%d).tag" % ap[0], "$%d.tag" % ap[0])
                detail = {"built": "Asn", "tag": flds["tag"][:160]}
                if flds["tag"] not in want:
                    ctx.fail(rule, "into_asn#field-tag", "the field's own tag is `%s`, not the attribute's explicit tag" % flds["tag"][:100],
                             span_loc(st["sp"]), detail)
                else:
                    ctx.ok(rule, "into_asn#field-tag", detail)
            if st["rv"]["adt"].endswith("asn::Type") and st["rv"].get("variant") == "TypeReference" and len(st["rv"]["ops"]) == 2 and ap:
                found += 1
                t = flds.get("1", "")
                detail = {"built": "Type::TypeReference", "tag": t[:200]}
                if not (t.startswith("Option::or(") and "as TypeReference).1" in t.split(",")[0] and t.rstrip(")").endswith(".tag")):
                    ctx.fail(rule, "into_asn#reference-tag", "the tag kept inside the TypeReference is `%s`, not `reference tag or else the "
                                                             "explicit tag`" % t[:100], span_loc(st["sp"]), detail)
                else:
                    ctx.ok(rule, "into_asn#reference-tag", detail)
    ctx.floor(rule, found, "C16.R8.aggregates")


def run(ctx):
    r1(ctx)
    r2_r3(ctx)
    r4(ctx)
    r5(ctx)
    r6(ctx)
    r7(ctx)
    r8(ctx)

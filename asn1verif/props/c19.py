"""C19 - the diagnostic feature does not change decoding (DESIGN.md sections 3/T9 and 5/C19)."""
import os
import re

from .. import expr as X
from .. import extract
from ..mir import span_loc, span_tuple

FEATURE = "descriptive-deserialize-errors"
ITEM_KINDS = ("fn", "enum", "mod", "impl", "struct", "use", "const", "variant", "file")
PANIC_MACROS = ("panic", "assert", "assert_eq", "assert_ne", "unreachable", "todo", "unimplemented", "debug_assert",
                "debug_assert_eq", "debug_assert_ne")
# gated code that is not reachable from decoding (formats an already returned error)
EXEMPT_FNS = {("src/protocol/per/err.rs", "fmt"): "impl Display for Error formats an error that was already returned; not reachable "
                                                   "from the UperReader entry points",
              ("src/protocol/per/err.rs", "scope_description"): "accessor on an already returned error"}


def inside(region, sp):
    f, l, c, el, ec = sp
    l1, c1, l2, c2 = region
    return (l1, c1) <= (l, c) and (el, ec) <= (l2, c2)


def user_span(sp):
    if not sp:
        return None
    s = sp.get("exp", {}).get("cs") or sp["s"]
    try:
        return span_tuple(s)
    except Exception:
        return None


class Regions:
    def __init__(self, src):
        self.by_file = {}
        self.all = []
        for path, c in src.cfgs(FEATURE):
            r = dict(c)
            r["file"] = path
            self.by_file.setdefault(path, []).append(r)
            self.all.append(r)

    def contained_in(self, sp):
        """is there a gated region that lies inside the span `sp`?"""
        if sp is None:
            return False
        f, l, c, el, ec = sp
        for r in self.by_file.get(f, ()):
            l1, c1, l2, c2 = r["span"]
            if (l, c) <= (l1, c1) and (l2, c2) <= (el, ec):
                return True
        return False

    def containing(self, sp):
        if sp is None:
            return None
        for r in self.by_file.get(sp[0], ()):
            if inside(r["span"], sp):
                return r
        return None


def r1(ctx, regions):
    rule = "C19.R1"
    ctx.rule(rule, "feature definition: `%s = []` in Cargo.toml, no other manifest mentions it, no cfg!(feature) use, no "
                   "not(feature) region" % FEATURE)
    repo = extract.REPO
    manifests = []
    for root, dirs, files in os.walk(repo):
        dirs[:] = [d for d in dirs if d not in ("target", ".git")]
        for f in files:
            if f == "Cargo.toml":
                manifests.append(os.path.join(root, f))
    defined = None
    others = []
    for m in manifests:
        txt = open(m).read()
        for line in txt.splitlines():
            if FEATURE in line:
                mm = re.match(r'\s*%s\s*=\s*\[(.*)\]\s*$' % re.escape(FEATURE), line)
                if mm and os.path.relpath(m, repo) == "Cargo.toml":
                    defined = mm.group(1).strip()
                else:
                    others.append("%s: %s" % (os.path.relpath(m, repo), line.strip()))
    if defined is None:
        ctx.fail(rule, "feature-definition", "feature %s is not defined as a plain list in Cargo.toml" % FEATURE, "Cargo.toml")
    elif defined != "":
        ctx.fail(rule, "feature-enables", "feature %s enables other features/dependencies: [%s]" % (FEATURE, defined), "Cargo.toml")
    else:
        ctx.ok(rule, "feature-definition", {"definition": "%s = []" % FEATURE})
    if others:
        ctx.fail(rule, "feature-mentioned-elsewhere", "the feature is mentioned in other manifest lines: %s" % others, others[0])
    else:
        ctx.ok(rule, "feature-mentioned-elsewhere", {"manifests": [os.path.relpath(m, repo) for m in manifests]}, nontrivial=False)
    src = ctx.src()
    bad = []
    for p, f in src.files.items():
        for cm in f["cfg_macros"]:
            if FEATURE in cm["pred"]:
                bad.append("%s:%d" % (p, cm["line"]))
    if bad:
        ctx.fail(rule, "cfg-macro", "cfg!(feature = \"%s\") selects behaviour at run time at %s" % (FEATURE, bad), bad[0])
    else:
        ctx.ok(rule, "cfg-macro", {"cfg_macro_uses": 0}, nontrivial=False)
    neg = [r for r in regions.all if re.search(r"\bnot\s*\(", r["pred"])]
    if neg:
        r = neg[0]
        ctx.fail(rule, "negated-region", "code gated on not(feature = \"%s\") exists only in the default build" % FEATURE,
                 "%s:%d" % (r["file"], r["span"][0]), {"regions": [(x["file"], x["span"]) for x in neg]})
    else:
        ctx.ok(rule, "negated-region", {"regions": len(regions.all)}, nontrivial=False)
    mixed = [r for r in regions.all if r["pred"].replace(" ", "") != 'feature="%s"' % FEATURE and r["attr"] == "cfg"]
    for r in mixed:
        ctx.fail(rule, "compound-predicate:%s:%s" % (r["file"], r["fn"]), "gate predicate `%s` is not the plain feature test" % r["pred"],
                 "%s:%d" % (r["file"], r["span"][0]))


def r2(ctx, regions):
    rule = "C19.R2"
    ctx.rule(rule, "control neutrality: no `?`, return, break, continue, panicking macro, unwrap/expect or indexing inside a gated "
                   "statement, argument, field initialiser or parameter")
    n = 0
    counters = {}
    for r in regions.all:
        if r["kind"] in ITEM_KINDS or r["kind"] == "field":
            continue
        n += 1
        base = "%s::%s#%s" % (r["file"], r["fn"], r["kind"])
        k = counters[base] = counters.get(base, -1) + 1
        key = "%s#%d" % (base, k)
        ex = EXEMPT_FNS.get((r["file"], r["fn"]))
        probs = []
        if r["tries"]:
            probs.append("`?` at line %s" % ",".join(r["tries"]))
        if r["jumps"]:
            probs.append("control transfer %s" % ",".join(r["jumps"]))
        pm = [m for m in r["macros"] if m.split("@")[0] in PANIC_MACROS]
        if pm:
            probs.append("panicking macro %s" % ",".join(pm))
        um = [m for m in r["methods"] if m.split("@")[0] in ("unwrap", "expect", "unwrap_err", "expect_err")]
        if um:
            probs.append("%s" % ",".join(um))
        if r["index"]:
            probs.append("%d indexing expression(s)" % r["index"])
        detail = {"file": r["file"], "function": r["fn"], "kind": r["kind"], "span": r["span"], "text": r["text"][:120]}
        if probs and ex:
            detail["exempt"] = ex
            ctx.ok(rule, key, detail)
        elif probs:
            ctx.fail(rule, key, "gated code can leave the enclosing function or panic: " + "; ".join(probs),
                     "%s:%d" % (r["file"], r["span"][0]), detail)
        else:
            ctx.ok(rule, key, detail)
    ctx.floor(rule, n, "C19.R2.regions")


def gated_names(PA, PB):
    """fields, functions and ADTs that exist only with the feature"""
    fields = set()
    for path, a in PB.adts.items():
        other = PA.adts.get(path)
        if other is None:
            continue
        for vb in a["variants"]:
            va = [v for v in other["variants"] if v["name"] == vb["name"]]
            an = {f["name"] for f in va[0]["fields"]} if va else set()
            for f in vb["fields"]:
                if f["name"] not in an:
                    fields.add(f["name"])
    fns = {k for k in PB.bodies if k not in PA.bodies and k.startswith("asn1rs::")}
    adts = {k for k in PB.adts if k not in PA.adts and k.startswith("asn1rs::")}
    return fields, fns, adts


def place_fields(pl):
    return [p["n"] for p in pl["p"] if p["k"] == "field"]


def r3_r4(ctx, regions):
    r3 = "C19.R3"
    r4 = "C19.R4"
    ctx.rule(r3, "state neutrality (MIR of the feature build): assignments and mutable borrows whose span lies in a gated region "
                 "target only temporaries, locals declared in the region, gated fields or the gated parameter")
    ctx.rule(r4, "name confinement: fields, functions and types that exist only with the feature are used only inside gated "
                 "regions, gated items or derive output")
    PA, PB = ctx.program("A"), ctx.program("B")
    gfields, gfns, gadts = gated_names(PA, PB)
    ctx.anchor(r4, "feature-only fields (scope_description, description)", sorted(gfields))
    ctx.anchor(r4, "feature-only functions", sorted(gfns)[:1])
    n3 = n4 = 0
    for b in PB.lib_bodies("asn1rs"):
        if "::promoted[" in b.path:
            continue
        if not (b.file.endswith("rw/uper.rs") or b.file.endswith("per/err.rs")):
            continue
        gated_body = b.key not in PA.bodies
        exempt = EXEMPT_FNS.get((b.file, b.name)) or EXEMPT_FNS.get((b.file, (b.root or "").split("::")[-1]))
        # locals declared inside a region
        declared_in = {}
        for d in b.raw["debug"]:
            pl = d.get("pl")
            if pl is not None and not pl["p"]:
                declared_in[pl["l"]] = regions.containing(user_span(d.get("sp"))) is not None
        gparams = set()
        if not gated_body:
            a = PA.bodies.get(b.key)
            if a is not None and a.arg_count != b.arg_count:
                an = set(a.param_names().values())
                gparams = {l for l, nm in b.param_names().items() if nm not in an}

        # parameters of expanded helpers (inline.py) that exist only with the feature
        for d in b.raw["debug"]:
            hp = d.get("inlined_from")
            pl = d.get("pl")
            if hp and "inl_arg" in d and pl is not None and not pl["p"]:
                hb = getattr(PB, "helper_bodies", {}).get(b.crate + "::" + hp)
                ha = getattr(PA, "helper_bodies", {}).get(b.crate + "::" + hp)
                if hb is not None and ha is not None and d["name"] in set(hb.param_names().values()) \
                        and d["name"] not in set(ha.param_names().values()):
                    gparams.add(pl["l"])

        # temporaries that only carry an argument into an expanded helper: the helper's statements are checked in place
        arg_carriers = set()
        for _bb, _j, st in b.all_statements():
            if st.get("inlined_arg") and st["rv"]["k"] == "use" and st["rv"]["op"].get("k") in ("copy", "move") and not st["rv"]["op"]["pl"]["p"]:
                arg_carriers.add(st["rv"]["op"]["pl"]["l"])

        def target_ok(pl, bb=0, j=0):
            l = pl["l"]
            fs = place_fields(pl)
            if any(f in gfields for f in fs):
                return True
            if l in gparams:
                return True
            if l in declared_in:
                return declared_in[l] and not any(p["k"] == "deref" for p in pl["p"])
            if 1 <= l <= b.arg_count:
                return False
            # compiler temporary: fine unless it is a pointer that is written through
            if any(p["k"] == "deref" for p in pl["p"]):
                O = X.Origins(b, PB)
                base = O.local(l, bb, j)
                txt = X.render(base)
                return any(f in txt for f in gfields) or any(("." + f) in txt for f in gfields)
            return True

        for bb, j, s in b.all_statements():
            if s["k"] != "assign":
                continue
            reg = regions.containing(user_span(s.get("sp")))
            uses_gated = any(f in gfields for f in place_fields(s["pl"]))
            rv = s["rv"]
            if "pl" in rv:
                uses_gated = uses_gated or any(f in gfields for f in place_fields(rv["pl"]))
            for k in ("op", "l", "r", "a"):
                o = rv.get(k)
                if isinstance(o, dict) and o.get("k") in ("copy", "move"):
                    uses_gated = uses_gated or any(f in gfields for f in place_fields(o["pl"]))
            if rv["k"] == "agg" and rv.get("ak") == "adt" and ("asn1rs::" + rv["adt"]) in gadts:
                uses_gated = True
            if uses_gated and not gated_body and not b.derived:
                n4 += 1
                if reg is None and regions.contained_in(user_span(s.get("sp"))):
                    pass    # closure expression that captures a gated field because gated code inside it uses the field
                elif reg is None:
                    ctx.fail(r4, "%s#gated-name-in-ungated-code" % b.path,
                             "a feature-only field/type is used outside every gated region", span_loc(s["sp"]),
                             {"function": b.path, "statement": str(s)[:300]})
            helper_stmt = False
            if gated_body and b.def_kind in ("Fn", "AssocFn") and not b.derived and not exempt:
                # a function that exists only with the feature: whatever it is handed must stay as it is - its parameters
                # are ungated places unless they are the gated fields
                helper_stmt = True
            elif reg is None or gated_body or exempt:
                continue
            elif reg["kind"] in ITEM_KINDS:
                if not b.blocks[bb].get("inl"):
                    continue
                helper_stmt = True      # statement of a feature-only helper expanded into this function (inline.py)
            n3 += 1
            probs = []
            if not target_ok(s["pl"], bb, j):
                probs.append("assignment to ungated place %s" % _pl(b, s["pl"]))
            if rv["k"] in ("ref", "rawptr") and (rv.get("mut") or rv["k"] == "rawptr") and not (
                    not s["pl"]["p"] and s["pl"]["l"] in arg_carriers):
                if not target_ok(rv["pl"], bb, j):
                    probs.append("mutable borrow of ungated place %s" % _pl(b, rv["pl"]))
            if probs:
                ctx.fail(r3, "%s#%s" % (b.path, probs[0]), "gated code changes state the ungated decoder uses: " + "; ".join(probs) + (
                    " (inside a function that exists only with the feature)" if helper_stmt else ""),
                         span_loc(s["sp"]), {"function": b.path, "region": (reg or {}).get("span"), "text": ((reg or {}).get("text") or "")[:120]})
        for cs in b.calls():
            reg = regions.containing(user_span(cs.term.get("sp")))
            callee = cs.callee or ""
            ck = "asn1rs::" + callee
            if ck in gfns and not gated_body and not b.derived:
                n4 += 1
                if reg is None:
                    ctx.fail(r4, "%s#call:%s" % (b.path, X.short(callee)), "feature-only function %s is called outside every gated region" % X.short(callee),
                             cs.loc(), {"function": b.path})
    ctx.ok(r3, "census", {"statements_in_regions": n3}, nontrivial=False)
    ctx.ok(r4, "census", {"uses_of_gated_names": n4, "gated_fields": sorted(gfields), "gated_functions": len(gfns), "gated_types": sorted(gadts)})
    ctx.floor(r3, n3, "C19.R3.statements")
    ctx.floor(r4, n4, "C19.R4.uses")
    # interior mutability
    for ty in ("protocol::per::unaligned::buffer::Bits", "protocol::per::unaligned::buffer::BitBuffer", "rw::uper::Scope",
               "rw::uper::UperReader"):
        a = PB.adts.get("asn1rs::" + ty)
        if a is None:
            ctx.fail(r3, "anchor-lost:" + ty, "state type %s not found" % ty)
            continue
        bad = [f["name"] for v in a["variants"] for f in v["fields"]
               if re.search(r"\b(Cell|RefCell|Mutex|RwLock|Atomic\w+|UnsafeCell|OnceCell)\b", f["ty"])]
        if bad:
            ctx.fail(r3, "interior-mutability:" + ty, "state type %s has interior-mutable fields %s: shared references in gated code could "
                                                     "change decoder state" % (ty, bad), a["span"]["s"])
        else:
            ctx.ok(r3, "interior-mutability:" + ty, {"fields": [f["name"] + ": " + f["ty"] for v in a["variants"] for f in v["fields"]][:8]})


def _pl(b, pl):
    from ..mir import place_str
    nm = b.names.get(pl["l"])
    s = place_str(pl)
    return "%s (%s)" % (s, nm) if nm else s


def _identity_rebinding(PB, r, name):
    """`#[cfg] let x = f(x);` where, in the feature build with helpers expanded, the new x is a copy of the old x"""
    for b in PB.lib_bodies("asn1rs"):
        if b.file != r["file"] or not (b.name == r["fn"] or (b.root or "").split("::")[-1] == r["fn"]):
            continue
        inside_l, outside_l = [], []
        for d in b.raw["debug"]:
            pl = d.get("pl")
            if d.get("name") != name or pl is None or pl["p"] or d.get("inlined_from"):
                continue
            sp = user_span(d.get("sp"))
            (inside_l if sp and inside(r["span"], sp) else outside_l).append(pl["l"])
        if not inside_l or not outside_l:
            continue
        O = X.Origins(b, PB)
        ok = True
        for l in inside_l:
            defs = b.defs.get(l, ())
            if not defs:
                ok = False
            for d in defs:
                if d[2] == "assign":
                    got = X.strip(O.rvalue(d[3], d[0], d[1], 0))
                elif d[2] == "call":
                    got = X.strip(O.call_ex(d[3], 0))
                else:
                    ok = False
                    continue
                j = d[1] if d[1] >= 0 else len(b.blocks[d[0]]["stmts"])
                if not any(X.strip(O.local(o, d[0], j)) == got for o in outside_l):
                    ok = False
        if ok:
            return True
    return False


def r5(ctx, regions):
    rule = "C19.R5"
    ctx.rule(rule, "binding neutrality: a gated `let` must not rebind a name that ungated code reads, except `let x = x.map_err(|mut e| "
                   "{ e.<gated field> = ..; e })` whose closure returns its own parameter and assigns only the gated field")
    PB = ctx.program("B")
    PA = ctx.program("A")
    gfields, _, _ = gated_names(PA, PB)
    n = 0
    for r in regions.all:
        if r["kind"] != "stmt-let" or not r["lets"]:
            continue
        n += 1
        key = "%s::%s#let %s" % (r["file"], r["fn"], ",".join(r["lets"]))
        text = r["text"].replace(" ", "")
        detail = {"file": r["file"], "function": r["fn"], "binds": r["lets"], "text": r["text"][:200]}
        name = r["lets"][0]
        # a gated let matters only when it shadows a name that also exists without the feature
        shadows = set()
        for a in PA.lib_bodies("asn1rs"):
            if a.file == r["file"] and (a.name == r["fn"] or (a.root or "").split("::")[-1] == r["fn"]
                                        or r["fn"] in (a.root or "")):
                shadows |= set(a.names.values()) & set(r["lets"])
        if not shadows:
            detail["shadows"] = []
            ctx.ok(rule, key, detail, nontrivial=False)
            continue
        detail["shadows"] = sorted(shadows)
        m = re.search(r"let%s=%s\.map_err\(" % (re.escape(name), re.escape(name)), text)
        if not m and len(r["lets"]) == 1 and _identity_rebinding(PB, r, name):
            detail["obligations"] = "the gated binding receives the value of the binding it shadows (value origins of the feature build, " \
                                    "helpers expanded): ungated code reads the same value with and without the feature"
            ctx.ok(rule, key, detail)
            continue
        if not m or len(r["lets"]) != 1 and set(r["lets"]) - {name, "e"}:
            ctx.fail(rule, key, "gated `let %s` binds a name that ungated code can read and is not the reviewed map_err form" % name,
                     "%s:%d" % (r["file"], r["span"][0]), detail)
            continue
        # obligations on the closure (MIR of config B)
        closures = [b for b in PB.lib_bodies("asn1rs") if b.def_kind == "Closure" and b.file == r["file"]
                    and inside(r["span"], user_span(b.raw["span"]) or (r["file"], 0, 0, 0, 0))]
        probs = []
        if len(closures) != 1:
            probs.append("expected exactly one closure in the gated let, found %d" % len(closures))
        for c in closures:
            O = X.Origins(c, PB)
            for bb, j, s in c.all_statements():
                if s["k"] != "assign":
                    continue
                pl = s["pl"]
                if pl["l"] == 0:
                    ex = O.rvalue(s["rv"], bb, j, 0)
                    root = X.strip(ex)
                    if not (root[0] in ("param", "mut") or (root[0] == "phi")):
                        probs.append("closure returns `%s`, not its parameter" % X.render(ex)[:80])
                    elif root[0] == "mut" and X.strip(root[1])[0] != "param":
                        probs.append("closure returns `%s`, not its parameter" % X.render(ex)[:80])
                elif any(p["k"] == "deref" for p in pl["p"]) or (1 <= pl["l"] <= c.arg_count and pl["p"]):
                    if not any(f in gfields for f in place_fields(pl)):
                        # writes through captured references
                        probs.append("closure assigns %s" % _pl(c, pl))
        if probs:
            ctx.fail(rule, key, "; ".join(probs), "%s:%d" % (r["file"], r["span"][0]), detail)
        else:
            detail["obligations"] = "closure returns its parameter; writes only through gated field(s) %s; Result::map_err leaves Ok untouched (std)" % sorted(gfields)
            ctx.ok(rule, key, detail)
    ctx.floor(rule, n, "C19.R5.lets")


def r6(ctx, regions):
    rule = "C19.R6"
    ctx.rule(rule, "ungated skeleton: per function of crate asn1rs the multiset of call sites and Assert sites outside all gated "
                   "regions is identical in the default and in the feature build")
    PA, PB = ctx.program("A"), ctx.program("B")
    n = 0

    def skeleton(b, strip_regions):
        out = {}
        for cs in b.calls():
            sp = user_span(cs.term.get("sp"))
            if strip_regions and regions.containing(sp) is not None:
                continue
            k = ("call", cs.decl or "indirect", cs.term.get("sp", {}).get("s", ""))
            out[k] = out.get(k, 0) + 1
        for bb, t in b.asserts():
            sp = user_span(t.get("sp"))
            if strip_regions and regions.containing(sp) is not None:
                continue
            k = ("assert", t["msg"]["k"] + (t["msg"].get("op") or ""), t["sp"]["s"])
            out[k] = out.get(k, 0) + 1
        for bb, t in b.switches():
            sp = user_span(t.get("sp"))
            if strip_regions and regions.containing(sp) is not None:
                continue
            k = ("switch", len(t["targets"]), t["sp"]["s"])
            out[k] = out.get(k, 0) + 1
        return out

    for key, a in PA.bodies.items():
        if not key.startswith("asn1rs::") or "@" in key.split("::")[-1] or "::promoted[" in key:
            continue
        if a.derived:
            continue
        b = PB.bodies.get(key)
        if b is None:
            ctx.fail(rule, key + "#missing-in-feature-build", "function exists only without the feature", "%s:%d" % (a.file, a.line))
            continue
        n += 1
        sa, sb = skeleton(a, False), skeleton(b, True)
        if sa != sb:
            diff = sorted((k for k in set(sa) | set(sb) if sa.get(k) != sb.get(k)), key=str)[:4]
            k0 = diff[0]
            ctx.fail(rule, "%s#skeleton" % a.path, "ungated call/assert/branch sites differ between the two builds: %s" % (
                [("%s %s at %s" % (k[0], k[1], ":".join(k[2].split(":")[:2])), sa.get(k, 0), sb.get(k, 0)) for k in diff]),
                ":".join(str(k0[2]).split(":")[:2]), {"function": a.path, "default_only_or_feature_only": [str(d) for d in diff]})
        elif a.file.endswith("uper.rs") or a.file.endswith("err.rs"):
            ctx.ok(rule, a.path, {"sites": sum(sa.values())}, nontrivial=bool(sa) and any(r["fn"] == a.name for r in regions.all))
    ctx.ok(rule, "census", {"functions_compared": n}, nontrivial=False)
    ctx.floor(rule, n, "C19.R6.functions")


def r7(ctx, regions):
    rule = "C19.R7"
    ctx.rule(rule, "control neutrality in the MIR of the feature build (what the syntax rule C19.R2 cannot see inside macro arguments "
                   "such as `format!(\"{}\", &s[..64])`): in crate asn1rs no call of Index::index / IndexMut::index_mut, unwrap / expect, "
                   "and no bounds-check or arithmetic-overflow assertion, lies in a body that exists only with the feature or has its "
                   "span in a gated statement - gated code that can panic makes the feature build fail where the default build decodes")
    PA, PB = ctx.program("A"), ctx.program("B")
    n = 0
    for b in PB.lib_bodies("asn1rs"):
        if not (b.file.endswith("rw/uper.rs") or b.file.endswith("per/err.rs")) or b.derived or "::promoted[" in b.path:
            continue
        gated_body = b.key not in PA.bodies
        exempt = EXEMPT_FNS.get((b.file, b.name)) or EXEMPT_FNS.get((b.file, (b.root or "").split("::")[-1]))
        if exempt:
            continue
        sites = []
        for cs in b.calls():
            tr = (cs.trait or "").split("::")[-1]
            if (cs.name in ("index", "index_mut") and tr in ("Index", "IndexMut")) or \
                    (cs.name in ("unwrap", "expect", "unwrap_err", "expect_err") and cs.fn and ("Option" in (cs.fn.get("self_ty") or cs.callee or "")
                                                                                                  or "Result" in (cs.fn.get("self_ty") or cs.callee or ""))):
                sites.append((cs.term.get("sp"), "%s" % X.short(cs.callee or cs.name), cs.loc()))
        for bb, t in b.asserts():
            if t["msg"].get("k") in ("BoundsCheck", "Overflow", "DivisionByZero", "RemainderByZero"):
                sites.append((t.get("sp"), "assert %s" % t["msg"].get("k"), span_loc(t["sp"])))
        for sp, what, loc in sites:
            us = user_span(sp)
            reg = regions.containing(us) if us else None
            in_gated = gated_body or (reg is not None and reg["kind"] not in ITEM_KINDS) or \
                (reg is not None and reg["kind"] in ITEM_KINDS and not gated_body)
            if not in_gated:
                continue
            n += 1
            ctx.fail(rule, "%s#%s" % (b.path, what), "gated code can panic: %s at %s lies in code that exists only with the feature" % (what, loc),
                     loc, {"function": b.path, "feature_only_body": gated_body})
    ctx.ok(rule, "census", {"panic_capable_sites_in_gated_code": n}, nontrivial=False)


def run(ctx):
    regions = Regions(ctx.src())
    ctx.analysed["gated_regions"] = len(regions.all)
    ctx.assumptions = ["allocation in gated code (format!, Vec::push, clone) does not fail",
                       "Debug/Clone/ToString of descriptor constants and results have no access to reader state",
                       "the property speaks about Error::kind(): derived PartialEq on Error also compares descriptions in the feature build",
                       "std: Result::map_err leaves Ok values untouched", "rustc nightly MIR construction is trusted"]
    r1(ctx, regions)
    r2(ctx, regions)
    r3_r4(ctx, regions)
    r5(ctx, regions)
    r6(ctx, regions)
    r7(ctx, regions)

"""C10 - PER primitive codecs (DESIGN.md section 5, C10)."""
from .. import expr as X
from .. import facts as F
from .. import rules as R

PW = "PackedWrite for T>::"
PR = "PackedRead for T>::"


def primitive_pairs(ctx, rule):
    P = ctx.program()
    writers = {b.name: b for b in P.lib_bodies("asn1rs")
               if PW in b.path and b.def_kind == "AssocFn" and "::promoted[" not in b.path}
    readers = {b.name: b for b in P.lib_bodies("asn1rs")
               if PR in b.path and b.def_kind == "AssocFn" and "::promoted[" not in b.path}
    ctx.anchor(rule, "impl PackedWrite for T", writers)
    ctx.anchor(rule, "impl PackedRead for T", readers)
    pairs = []
    for wn, wb in sorted(writers.items()):
        rn = "read_" + wn[len("write_"):]
        if rn in readers:
            pairs.append((wn[len("write_"):], wb, readers[rn]))
        else:
            ctx.fail(rule, "pair-missing:" + wn, "PackedWrite::%s has no PackedRead twin %s" % (wn, rn), wb.file)
    for rn in sorted(readers):
        if "write_" + rn[len("read_"):] not in writers:
            ctx.fail(rule, "pair-missing:" + rn, "PackedRead::%s has no PackedWrite twin" % rn, readers[rn].file)
    return pairs


def shared_params(wb, rb):
    w = set(wb.param_names().values())
    r = set(rb.param_names().values())
    return (w & r) - {"self"}


def skeleton(ctx, body, shared):
    P = ctx.program()
    O = X.Origins(body, P)
    out = {}
    for cs in body.calls():
        d = R.codec_call_desc(P, cs, O.call_args(cs), shared)
        if d is not None:
            out.setdefault(d, []).append(cs)
    return out


def fmt(d):
    return "%s(%s)" % (d[0], ", ".join("%s=%s" % kv for kv in d[1]))


def r1(ctx):
    rule = "C10.R1"
    ctx.rule(rule, "T3-a/T2 sibling agreement of the 13 PackedWrite/PackedRead primitive pairs: equal boundary facts "
                   "over shared bound parameters and equal codec-call skeletons (method, constraint-argument descriptors)")
    pairs = primitive_pairs(ctx, rule)
    ctx.floor(rule, len(pairs), "C10.R1.pairs")
    for name, wb, rb in pairs:
        shared = shared_params(wb, rb)
        R.compare_sibling_boundaries(ctx, rule, name, wb, rb, shared)
        sw, sr = skeleton(ctx, wb, shared), skeleton(ctx, rb, shared)
        detail = {"writer": sorted(fmt(d) for d in sw), "reader": sorted(fmt(d) for d in sr)}
        bad = False
        for d in sorted(set(sw) ^ set(sr)):
            side = "writer" if d in sw else "reader"
            cs = (sw.get(d) or sr.get(d))[0]
            ctx.fail(rule, "%s#skeleton:%s" % (name, fmt(d)),
                     "codec call %s occurs only in the %s of primitive `%s`" % (fmt(d), side, name), cs.loc(), detail)
            bad = True
        if not bad:
            ctx.ok(rule, name + "#skeleton", detail, nontrivial=bool(sw))


def run(ctx):
    r1(ctx)

"""C10 - PER primitive codecs (DESIGN.md section 5, C10)."""
from .. import expr as X
from .. import facts as F
from .. import rules as R

PW = "PackedWrite for T>::"
PR = "PackedRead for T>::"


def primitive_pairs(ctx, rule):
    P = ctx.program()
    writers = {b.name: b for b in P.lib_bodies("asn1rs")
               if PW in b.path and b.def_kind == "AssocFn" and "::promoted[" not in b.path}
    readers = {b.name: b for b in P.lib_bodies("asn1rs")
               if PR in b.path and b.def_kind == "AssocFn" and "::promoted[" not in b.path}
    ctx.anchor(rule, "impl PackedWrite for T", writers)
    ctx.anchor(rule, "impl PackedRead for T", readers)
    pairs = []
    for wn, wb in sorted(writers.items()):
        rn = "read_" + wn[len("write_"):]
        if rn in readers:
            pairs.append((wn[len("write_"):], wb, readers[rn]))
        else:
            ctx.fail(rule, "pair-missing:" + wn, "PackedWrite::%s has no PackedRead twin %s" % (wn, rn), wb.file)
    for rn in sorted(readers):
        if "write_" + rn[len("read_"):] not in writers:
            ctx.fail(rule, "pair-missing:" + rn, "PackedRead::%s has no PackedWrite twin" % rn, readers[rn].file)
    return pairs


def shared_params(wb, rb):
    w = set(wb.param_names().values())
    r = set(rb.param_names().values())
    return (w & r) - {"self"}


def skeleton(ctx, body, shared):
    P = ctx.program()
    O = X.Origins(body, P)
    out = {}
    for cs in body.calls():
        d = R.codec_call_desc(P, cs, O.call_args(cs), shared)
        if d is not None:
            out.setdefault(d, []).append(cs)
    return out


def fmt(d):
    return "%s(%s)" % (d[0], ", ".join("%s=%s" % kv for kv in d[1]))


def r1(ctx, rule="C10.R1"):
    ctx.rule(rule, "T3-a/T2 sibling agreement of the 13 PackedWrite/PackedRead primitive pairs: equal boundary facts "
                   "over shared bound parameters and equal codec-call skeletons (method, constraint-argument descriptors)")
    pairs = primitive_pairs(ctx, rule)
    ctx.floor(rule, len(pairs), rule + ".pairs")
    for name, wb, rb in pairs:
        shared = shared_params(wb, rb)
        R.compare_sibling_boundaries(ctx, rule, name, wb, rb, shared)
        sw, sr = skeleton(ctx, wb, shared), skeleton(ctx, rb, shared)
        detail = {"writer": sorted(fmt(d) for d in sw), "reader": sorted(fmt(d) for d in sr)}
        bad = False
        for d in sorted(set(sw) ^ set(sr)):
            side = "writer" if d in sw else "reader"
            cs = (sw.get(d) or sr.get(d))[0]
            ctx.fail(rule, "%s#skeleton:%s" % (name, fmt(d)),
                     "codec call %s occurs only in the %s of primitive `%s`" % (fmt(d), side, name), cs.loc(), detail)
            bad = True
        if not bad:
            ctx.ok(rule, name + "#skeleton", detail, nontrivial=bool(sw))


def r2(ctx):
    import json
    import os
    from ..core import VERIF
    from .c01 import ld_sites
    rule = "C10.R2"
    ctx.rule(rule, "T4 length-determinant discipline in the primitives: the fragment size returned by write_length_determinant is "
                   "used (or the length is provably below 16K), and every size read with read_length_determinant is compared with "
                   "the 16K boundary or validated by the callee it is handed to; a continuation loop of the writer is left only by comparing the fragment just announced with 16K (X.691 11.9.3.8.3)")
    with open(os.path.join(VERIF, "tables", "discharged_sites.json")) as fh:
        disc = json.load(fh).get("LD", {})
    nw, nr = ld_sites(ctx, rule, ("per/unaligned/mod.rs",), disc)
    ctx.floor(rule, nw, "C10.R2.writer_sites")
    ctx.floor(rule, nr, "C10.R2.reader_sites")


SCALARS = ("u8", "u16", "u32", "u64", "usize", "i8", "i16", "i32", "i64", "isize", "bool",
           "std::option::Option<u64>", "std::option::Option<i64>")
R3_KINDS = ("assert.Overflow.Sub", "assert.OverflowNeg", "assert.Overflow.Shl", "assert.Overflow.Shr", "assert.BoundsCheck",
            "call.index", "call.unwrap")


def r3(ctx):
    import json
    import os
    from .. import taint as TT
    from ..core import VERIF
    rule = "C10.R3"
    ctx.rule(rule, "T1 with the scalar parameters of the public primitives as sources: subtraction, negation, shift, index and "
                   "unwrap sites inside the 26 primitives whose operand derives from a bound / value argument are guarded by a "
                   "dominating comparison (error, not panic, for inadmissible arguments)")
    P = ctx.program()
    prims = [b for b in P.lib_bodies("asn1rs") if (PW in b.path or PR in b.path) and b.def_kind == "AssocFn"
             and "::promoted[" not in b.path]
    ctx.floor(rule, len(prims), "C10.R3.primitives")
    sources = {}
    for b in prims:
        locs = [l for l in range(2, b.arg_count + 1) if b.locals[l]["ty"] in SCALARS]
        if locs:
            sources[b.key] = set(locs)
    T = TT.Taint(P, prims, param_sources=sources).run()
    with open(os.path.join(VERIF, "tables", "discharged_sites.json")) as fh:
        table = json.load(fh).get("C10.R3", {})
    gc = {}
    n = 0
    prim_keys = {b.key for b in prims}
    for s in T.sinks():
        if s.body.key not in prim_keys and (s.body.root is None or ("asn1rs::" + s.body.root) not in prim_keys):
            continue
        if s.kind not in R3_KINDS:
            continue
        # only operands that depend directly on a scalar parameter of this primitive (not on values read back
        # through a callee, which the context-insensitive summaries also mark)
        own = {"param:%d" % l for l in sources.get(s.body.key, ())}
        if not any(t and (TT.leaves(e) & own) for e, t in zip(s.tops, s.tainted)):
            continue
        d = TT.discharge(T, s, gc)
        detail = {"function": s.body.path, "sink": s.kind, "operands": [X.render(e)[:120] for e in s.ops], "tainted": s.tainted,
                  "location": s.loc}
        if d is not None:
            if d[0] != "untainted":
                n += 1
                detail["discharged_by"] = d[0] + ": " + d[1][:160]
                ctx.ok(rule, s.key, detail)
            continue
        n += 1
        ent = TT.table_entry(table, s, T)
        if ent is not None:
            detail["discharged_by"] = "D6: " + ent
            ctx.ok(rule, s.key, detail)
        else:
            ctx.fail(rule, s.key, "argument-derived value reaches %s without a dominating test (%s): an inadmissible argument panics "
                                  "instead of returning an error" % (s.kind, "; ".join(X.render(e)[:80] for e, t in zip(s.tops, s.tainted) if t)),
                     s.loc, detail, alt_keys=[s.okey])
    ctx.floor(rule, n, "C10.R3.sites")


def selectors(ctx, rule, pin):
    """constant selector bits of the alternative forms of a primitive: writer = reader (and = X.691 when `pin`)"""
    import json
    import os
    from ..core import VERIF
    ctx.rule(rule, "T3 selector bits: in a PackedWrite primitive whose write_bit calls each precede a payload call with a value "
                   "known there (a constant, or the condition of the branch the payload call is in), the bits "
                   "written in front of each payload call are the bits the PackedRead twin has tested (read_bit branches) when it "
                   "makes the same payload call" + ("; both equal the bit patterns of X.691 11.9.3.6-8 and 11.6 (tables/x691_selectors.json)" if pin else ""))
    P = ctx.program()
    with open(os.path.join(VERIF, "tables", "x691_selectors.json")) as fh:
        table = json.load(fh)
    n = 0
    seen = set()
    for name, wb, rb in primitive_pairs(ctx, rule):
        Ow = X.Origins(wb, P)
        wbits = [c for c in wb.calls() if c.name == "write_bit" and c.args]
        if not wbits:
            continue
        # every selector write must be in front of some payload call (a bit written on one side of a branch that joins
        # again - `if extensible { write_bit(out_of_range) }` - is the extension bit, which C01/C03/C05 treat)
        payloads = [c for c in wb.calls() if c.name not in ("write_bit", "read_bit") and R.codec_call_desc(P, c, Ow.call_args(c), ()) is not None]
        if any(not any(c.bb != p.bb and wb.dominates(c.bb, p.bb) for p in payloads) for c in wbits):
            continue
        shared = shared_params(wb, rb)
        sides = {}
        for side, b in (("writer", wb), ("reader", rb)):
            O = Ow if b is wb else X.Origins(b, P)
            tab = {}
            for cs in b.calls():
                if cs.name in ("write_bit", "read_bit"):
                    continue
                d = R.codec_call_desc(P, cs, O.call_args(cs), shared)
                if d is None:
                    continue
                tab.setdefault(fmt(d), set()).add(R.selector_prefix(P, b, O, cs, side))
            sides[side] = tab
        if any("?" in x for v in sides["writer"].values() for x in v):
            continue
        seen.add(name)
        for d in sorted(set(sides["writer"]) | set(sides["reader"])):
            w, r = sides["writer"].get(d), sides["reader"].get(d)
            if w is None or r is None:
                continue        # skeleton differences are C10.R1's
            n += 1
            detail = {"primitive": name, "payload": d, "writer_bits": sorted(w), "reader_bits": sorted(r)}
            key = "%s#%s" % (name, d)
            want = table.get(name, {}).get(d) if pin else None
            if pin:
                detail["x691"] = want
            if w != r:
                ctx.fail(rule, key, "primitive `%s`: the writer puts the bits %s in front of %s, the reader makes that call after reading %s"
                         % (name, sorted(w), d, sorted(r)), "%s:%d" % (wb.file, wb.line), detail)
            elif pin and want is not None and w != {want}:
                ctx.fail(rule, key, "primitive `%s`: %s is preceded by the bits %s, X.691 requires `%s`" % (name, d, sorted(w), want),
                         "%s:%d" % (wb.file, wb.line), detail)
            elif pin and want is None and w != {""}:
                ctx.fail(rule, key, "primitive `%s`: %s is preceded by selector bits %s that tables/x691_selectors.json does not list" % (name, d, sorted(w)),
                         "%s:%d" % (wb.file, wb.line), detail)
            else:
                ctx.ok(rule, key, detail, nontrivial=(w != {""}))
        if pin:
            for d in sorted(k for k in table.get(name, {}) if not k.startswith("_")):
                if d not in sides["writer"]:
                    ctx.fail(rule, "%s#anchor-lost:%s" % (name, d), "the writer of `%s` no longer makes the payload call %s" % (name, d),
                             "%s:%d" % (wb.file, wb.line))
    if pin:
        for name in sorted(k for k in table if not k.startswith("_")):
            if name not in seen:
                ctx.fail(rule, "anchor-lost:" + name, "primitive `%s` is not a pair with constant selector bits any more" % name)
    ctx.floor(rule, n, rule + ".payloads")


def _operand_locals(o):
    if isinstance(o, dict):
        if o.get("k") in ("copy", "move", "ref", "discr", "len") and isinstance(o.get("pl"), dict):
            yield o["pl"]["l"]
            for e in o["pl"]["p"]:
                if e.get("k") == "index" and "l" in e:
                    yield e["l"]
        else:
            for v in o.values():
                yield from _operand_locals(v)
    elif isinstance(o, list):
        for v in o:
            yield from _operand_locals(v)


def loop_variant(body, loop, operand):
    """does the value of `operand`, read inside the loop (a set of blocks), change from one iteration to the next?  True when its
    backward slice inside the loop reaches a loop-carried local (defined both outside and inside the loop), the result of a
    read from the input, or the result of a call on something that is mutably borrowed inside the loop"""
    mut_borrowed = set()
    for bb in loop:
        for st in body.blocks[bb]["stmts"]:
            if st["k"] == "assign" and st["rv"]["k"] == "ref" and st["rv"].get("mut"):
                mut_borrowed.add(st["rv"]["pl"]["l"])
    seen = set()

    def points_at_mut(l, depth=0):
        # `_5 = &buffer` / `_5 = &mut buffer`: the local the reference was taken from
        if l in mut_borrowed:
            return True
        if depth > 4:
            return False
        for d in body.defs.get(l, ()):
            if d[2] == "assign" and d[3]["k"] == "ref" and points_at_mut(d[3]["pl"]["l"], depth + 1):
                return True
            if d[2] == "assign" and d[3]["k"] == "use" and d[3]["op"].get("k") in ("copy", "move") and \
                    points_at_mut(d[3]["op"]["pl"]["l"], depth + 1):
                return True
        return False

    def var(l):
        if l in seen:
            return False
        seen.add(l)
        ds = [d for d in body.defs.get(l, ()) if d[2] in ("assign", "call")]
        inside = [d for d in ds if d[0] in loop]
        outside = [d for d in ds if d[0] not in loop]
        if inside and outside:
            return True
        for d in inside:
            if d[2] == "call":
                cs = d[3]
                if (cs.trait or "").split("::")[-1] in ("BitRead", "PackedRead"):
                    return True
                for a in cs.args:
                    for x in _operand_locals(a):
                        if var(x) or points_at_mut(x):
                            return True
            else:
                for x in _operand_locals(d[3]):
                    if var(x):
                        return True
        return False
    return any(var(l) for l in _operand_locals(operand))


def r7(ctx):
    rule = "C10.R7"
    ctx.rule(rule, "continuation fragments are appended, X.691 11.9.3.8: inside the loop of read_octetstring / read_bitstring that reads the "
                   "length of the next fragment, the place the fragment is read to - the start of the slice handed to read_bits, or "
                   "the offset handed to read_bits_with_offset_len - changes from one iteration to the next (it is a loop-carried "
                   "position or the current length of the buffer); a start that is fixed before the loop makes every fragment after "
                   "the first continuation land on the same octets and the reader consume the wrong number of bits")
    P = ctx.program()
    n = 0
    for m in ("read_octetstring", "read_bitstring"):
        bs = [b for b in P.lib_bodies("asn1rs") if PR in b.path and b.name == m and b.def_kind == "AssocFn" and "::promoted[" not in b.path]
        if len(bs) != 1:
            ctx.fail(rule, "anchor-lost:" + m, "matched %d bodies" % len(bs))
            continue
        b = bs[0]
        loops = b.sccs()
        conts = [cs for cs in b.calls() if cs.name == "read_length_determinant" and any(cs.bb in l for l in loops)]
        if not conts:
            ctx.fail(rule, m + "#anchor-lost:fragment-loop", "%s has no loop that reads the length of a continuation fragment" % m,
                     "%s:%d" % (b.file, b.line))
            continue
        for cs0 in conts:
            loop = next(l for l in loops if cs0.bb in l)
            reads = [cs for cs in b.calls() if cs.bb in loop and (cs.trait or "").split("::")[-1] == "BitRead" and cs.name.startswith("read_bits")]
            if not reads:
                ctx.fail(rule, m + "#anchor-lost:fragment-read", "the fragment loop of %s reads no bits" % m, cs0.loc())
                continue
            for cs in reads:
                n += 1
                where = None
                if cs.name in ("read_bits_with_offset_len", "read_bits_with_offset") and len(cs.args) >= 3:
                    where = ("offset argument", cs.args[2])
                else:
                    # the destination slice: `&mut buffer[start..]` = IndexMut::index_mut(&mut buffer, RangeFrom { start })
                    l = next(iter(_operand_locals(cs.args[1])), None)
                    for _ in range(6):
                        ds = [d for d in b.defs.get(l, ()) if d[0] in loop] if l is not None else []
                        if len(ds) != 1:
                            break
                        d = ds[0]
                        if d[2] == "call" and d[3].name in ("index_mut", "index", "get_mut", "split_at_mut") and len(d[3].args) >= 2:
                            where = ("start of the destination slice", d[3].args[1])
                            break
                        if d[2] == "assign" and d[3]["k"] in ("ref", "use", "cast"):
                            l = next(iter(_operand_locals(d[3])), None)
                            continue
                        break
                key = "%s#%s" % (m, cs.name)
                detail = {"function": b.path, "fragment_length_read_at": cs0.loc(), "read_at": cs.loc(), "decided_on": where[0] if where else None}
                if where is None:
                    ctx.fail(rule, key + "#undecided", "the destination of the fragment read at %s is not a slice of the buffer taken inside "
                                                       "the loop: where the fragment lands cannot be decided" % cs.loc(), cs.loc(), detail)
                elif not loop_variant(b, loop, where[1]):
                    ctx.fail(rule, key, "the %s of the fragment read is the same in every iteration: the second and later continuation "
                                        "fragments overwrite the first one instead of being appended" % where[0], cs.loc(), detail)
                else:
                    ctx.ok(rule, key, detail)
    ctx.floor(rule, n, "C10.R7.reads")


def r10(ctx):
    rule = "C10.R10"
    ctx.rule(rule, "every fragment of a BIT STRING is taken relative to the caller's source offset: each source position "
                   "PackedWrite::write_bitstring hands to write_bits_with_offset_len derives from its `offset` parameter (the first "
                   "fragment from `offset`, follow-up fragments from `offset + written`); a follow-up position made of the written "
                   "count alone repeats / loses bits whenever the source does not start at bit 0")
    P = ctx.program()
    bs = [b for b in P.lib_bodies("asn1rs") if PW in b.path and b.name == "write_bitstring" and b.def_kind == "AssocFn" and "::promoted[" not in b.path]
    if len(bs) != 1:
        ctx.fail(rule, "anchor-lost:write_bitstring", "matched %d bodies" % len(bs))
        return
    b = bs[0]
    O = X.Origins(b, P)
    idx = [i for i, nm in b.param_names().items() if nm == "offset"]
    if not idx:
        ctx.fail(rule, "anchor-lost:offset", "write_bitstring has no parameter `offset`", "%s:%d" % (b.file, b.line))
        return
    n = 0
    for cs in b.calls():
        if cs.name != "write_bits_with_offset_len" or len(cs.args) < 3:
            continue
        n += 1
        a = O.call_args(cs)[2]
        uses = any(e[0] == "param" and e[1] == idx[0] for e in X.walk(a))
        d = {"function": b.path, "call": cs.loc(), "source_position": F.rd(R.positional(a))[:160]}
        key = "write_bitstring#source-position#%d" % n
        if uses:
            ctx.ok(rule, key, d)
        else:
            ctx.fail(rule, "write_bitstring#source-position", "the source position `%s` of the fragment written at %s does not derive from "
                                                              "`offset`" % (d["source_position"][:80], cs.loc()), cs.loc(), d)
    ctx.floor(rule, n, "C10.R10.calls")


def run(ctx):
    r1(ctx)
    selectors(ctx, "C10.R6", pin=False)
    r2(ctx)
    r3(ctx)
    from .c02 import r3 as sign_sensitivity
    sign_sensitivity(ctx, rule="C10.R5")
    r7(ctx)
    r10(ctx)
    # the facts X.691 requires of each PackedWrite / PackedRead primitive (thresholds, field widths, the reader's offset check)
    # are facts about the primitives of this property as well (shared with C02.R1 / R2)
    import json
    import os
    from .. import rules as R_
    from ..core import VERIF as V_
    ctx.rule("C10.R8", "(C02.R1 as a rule of C10) T3-b standards table: every X.691 threshold / constant / check of tables/x691.json is "
                       "present, exactly, in the PackedWrite / PackedRead primitive it is anchored in")
    ctx.rule("C10.R9", "(C02.R2 as a rule of C10) T3-c near miss: no fact of the same shape lies within +-2 of a table value without being equal")
    with open(os.path.join(V_, "tables", "x691.json")) as fh:
        table = json.load(fh)
    n = R_.check_table(ctx, "C10.R8", "C10.R9", table)
    ctx.floor("C10.R8", n, "C10.R8.entries")

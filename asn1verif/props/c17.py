"""C17 - protobuf round trip: counter discipline, wire-type and width agreement, back-end neutrality (DESIGN.md 5/C17).
The whole configuration (feature `protobuf`) is never compiled by the pinned baseline."""
import re

from .. import expr as X
from .. import facts as F
from .. import rules as R
from ..mir import span_loc

W = "<rw::proto_write::ProtobufWriter<'_> as descriptor::Writer>::"
Rd = "<rw::proto_read::ProtobufReader<'a> as descriptor::Reader>::"
SCALAR_KINDS = ("number", "utf8string", "ia5string", "numeric_string", "printable_string", "visible_string", "octet_string",
                "bit_string", "boolean")


def kind_bodies(ctx, rule):
    P = ctx.program()
    ws = {b.name[6:]: b for b in P.lib_bodies("asn1rs") if b.path.startswith(W) and b.def_kind == "AssocFn"
          and "::promoted[" not in b.path and b.name.startswith("write_")}
    rs = {b.name[5:]: b for b in P.lib_bodies("asn1rs") if b.path.startswith(Rd) and b.def_kind == "AssocFn"
          and "::promoted[" not in b.path and b.name.startswith("read_")}
    ctx.anchor(rule, "impl Writer for ProtobufWriter (feature protobuf)", ws)
    ctx.anchor(rule, "impl Reader for ProtobufReader (feature protobuf)", rs)
    return ws, rs


def tagged_formats(P):
    """ProtoWrite::write_tagged_X -> Format written by its write_tag (following one delegation)"""
    out = {}
    bodies = {b.name: b for b in P.lib_bodies("asn1rs") if b.path.startswith("protocol::protobuf::ProtoWrite::write_tagged_")}
    for name, b in bodies.items():
        O = X.Origins(b, P)
        fm = None
        for cs in b.calls():
            if cs.name == "write_tag":
                a = O.call_args(cs)
                fm = X.render(a[2]).replace("Format::", "").replace("{}", "")
        out[name] = fm
    for name, b in bodies.items():
        if out[name] is None:
            for cs in b.calls():
                if cs.name in out and out[cs.name]:
                    out[name] = out[cs.name]
    return out


def writer_format(P, b, tf):
    O = X.Origins(b, P)
    fs = set()
    for body in [b] + P.closures_of(b):
        Ob = O if body is b else X.Origins(body, P)
        for cs in body.calls():
            if cs.name.startswith("write_tagged_") and (cs.trait or "").endswith("ProtoWrite"):
                fs.add(tf.get(cs.name))
            if cs.name == "write_tag" and (cs.trait or "").endswith("ProtoWrite"):
                a = Ob.call_args(cs)
                fs.add(X.render(a[2]).replace("Format::", "").replace("{}", ""))
    return fs


def reader_format(P, b):
    O = X.Origins(b, P)
    fs = set()
    for body in [b] + P.closures_of(b):
        Ob = O if body is b else X.Origins(body, P)
        for cs in body.calls():
            if cs.name in ("next_range_format_reader", "next_tag_range_filter_format"):
                a = Ob.call_args(cs)
                f = X.render(a[1]).replace("Format::", "").replace("{}", "")
                if f in ("VarInt", "LengthDelimited", "Fixed32", "Fixed64"):
                    fs.add(f)
    return fs


def r2(ctx):
    rule = "C17.R2"
    ctx.rule(rule, "T2 wire type: for every kind the Format written with the field tag (through write_tagged_* / write_tag) equals the "
                   "Format the reader filters the field with")
    P = ctx.program()
    ws, rs = kind_bodies(ctx, rule)
    tf = tagged_formats(P)
    ctx.anchor(rule, "ProtoWrite::write_tagged_* default methods", tf)
    n = 0
    for k in SCALAR_KINDS + ("enumerated", "sequence", "set"):
        wb, rb = ws.get(k), rs.get(k)
        if wb is None or rb is None:
            ctx.fail(rule, "anchor-lost:" + k, "kind %s not found on both sides" % k)
            continue
        # sequence/set delegate to one inherent helper each
        def expand(b):
            out = [b]
            for cs in b.calls():
                t = P.resolve_callee(b.crate, cs)
                if t is not None and (t.impl_self_ty or "").split("<")[0].split("::")[-1] in ("ProtobufWriter", "ProtobufReader") \
                        and not t.impl_trait:
                    out.append(t)
            return out
        fw = set().union(*[writer_format(P, x, tf) for x in expand(wb)])
        fr = set().union(*[reader_format(P, x) for x in expand(rb)])
        n += 1
        detail = {"kind": k, "writer_formats": sorted(map(str, fw)), "reader_filters": sorted(map(str, fr))}
        if not fw or not fr:
            ctx.fail(rule, k + "#anchor-lost", "no tagged write / format filter found for kind %s" % k, "%s:%d" % (wb.file, wb.line), detail)
        elif fw != fr:
            ctx.fail(rule, k, "kind `%s` is written with wire type %s but read with filter %s" % (k, sorted(map(str, fw)), sorted(map(str, fr))),
                     "%s:%d" % (rb.file, rb.line), detail)
        else:
            ctx.ok(rule, k, detail)
    ctx.floor(rule, n, "C17.R2.kinds")


def decision_paths(P, b, prims):
    """primitive call name -> frozenset of (comparison key, outcome) that dominate it"""
    O = X.Origins(b, P)
    cmps = [c for c in F.comparisons(b, O) if c.switch_bb is not None]
    out = {}
    for body in [b]:
        for cs in body.calls():
            nm = R.norm_method(cs.name).replace("tagged_", "")
            if nm not in prims or not (cs.trait or "").split("::")[-1] in ("ProtoWrite", "ProtoRead"):
                continue
            path = set()
            for c in cmps:
                if not b.dominates(c.switch_bb, cs.bb) or c.switch_bb == cs.bb:
                    continue
                t = b.blocks[c.switch_bb]["term"]
                # outcome: is the call on the `true` (otherwise) side?
                on_true = cs.bb in b.reach_from(t["otherwise"]) and not (cs.bb in b.reach_from(t["targets"][0]))
                on_false = cs.bb in b.reach_from(t["targets"][0]) and not (cs.bb in b.reach_from(t["otherwise"]))
                truth = None
                if on_true or on_false:
                    val = on_true
                    # normalise by operator: key boundary is for `<`-like (true below) when op in Lt/Le, else true above
                    below = c.nop in ("Lt", "Le")     # operator with the constant on the right-hand side
                    truth = "below" if (val == below) else "at-or-above"
                path.add((R.cmp_key_positional(c), truth))
            out.setdefault(nm, set()).add(frozenset(path))
    return out


def reaching_conditions(P, b, prims):
    """primitive family -> the bound-test outcomes under which it is called, as a boolean function (DNF over comparison
    facts, decisions stored in flags resolved per path)"""
    O = X.Origins(b, P)
    out = {}
    for cs in b.calls():
        nm = R.norm_method(cs.name).replace("tagged_", "")
        if nm not in prims or not (cs.trait or "").split("::")[-1] in ("ProtoWrite", "ProtoRead"):
            continue
        d = R.reach_dnf(b, O, cs.bb)
        if d is None:
            out[nm] = None
            continue
        if out.get(nm, set()) is not None:
            out.setdefault(nm, set()).update(d)
    return out


def r3(ctx):
    rule = "C17.R3"
    ctx.rule(rule, "T3-a width cascade: ProtobufWriter::write_number and ProtobufReader::read_number test the same boundaries on C::MIN / "
                   "C::MAX (0, 2^32, -2^31, 2^31) and reach each primitive family (uint32, uint64, sint32, sint64) under the same outcomes")
    P = ctx.program()
    ws, rs = kind_bodies(ctx, rule)
    wb, rb = ws.get("number"), rs.get("number")
    if wb is None or rb is None:
        return
    R.compare_sibling_boundaries(ctx, rule, "number", wb, rb, set())
    want = {"unwrap_or(C::MIN, 0)||b|0", "unwrap_or(C::MAX, 9223372036854775807)||b|4294967296",
            "unwrap_or(C::MIN, -9223372036854775808)||b|-2147483648", "unwrap_or(C::MAX, 9223372036854775807)||b|2147483648"}
    for side, b in (("writer", wb), ("reader", rb)):
        ff = R.FnFacts(P, b, include_closures=False)
        missing = sorted(want - set(ff.cmps))
        if missing:
            ctx.fail(rule, "number#%s-boundaries" % side, "the %s's width cascade lacks the boundary facts %s (found %s)" % (
                side, missing, sorted(ff.cmps)), "%s:%d" % (b.file, b.line))
        else:
            ctx.ok(rule, "number#%s-boundaries" % side, {"facts": sorted(ff.cmps)})
    prims = ("uint32", "uint64", "sint32", "sint64")
    dw, dr = reaching_conditions(P, wb, prims), reaching_conditions(P, rb, prims)
    for p in prims:
        a, b2 = dw.get(p), dr.get(p)
        detail = {"primitive": p, "writer_paths": sorted(map(sorted, a or [])), "reader_paths": sorted(map(sorted, b2 or []))}
        if a is None or b2 is None:
            ctx.fail(rule, "number#" + p, "primitive %s is used only on one side (or its reaching conditions could not be enumerated)" % p,
                     "%s:%d" % (wb.file, wb.line), detail)
            continue
        same, witness = R.dnf_equal(a, b2)
        if not same:
            detail["distinguishing_outcomes"] = witness
            ctx.fail(rule, "number#" + p, "writer and reader reach %s under different bound tests" % p, "%s:%d" % (rb.file, rb.line), detail)
        else:
            ctx.ok(rule, "number#" + p, detail)


def r4(ctx):
    rule = "C17.R4"
    ctx.rule(rule, "narrowing needs a value guard: an `as u32` / `as i32` cast of the written value is dominated by a test that bounds the "
                   "value or excludes C::EXTENSIBLE")
    P = ctx.program()
    ws, _ = kind_bodies(ctx, rule)
    b = ws.get("number")
    if b is None:
        return
    O = X.Origins(b, P)
    cmps = [c for c in F.comparisons(b, O) if c.switch_bb is not None]
    tests = [(bb, F.rd(O.switch_cond(bb))) for bb, t in b.switches()]
    n = 0
    for bb, j, s in b.all_statements():
        if s["k"] == "assign" and s["rv"]["k"] == "cast" and s["rv"]["ck"] == "IntToInt" and s["rv"]["ty"] in ("u32", "i32"):
            src = X.render(O.operand(s["rv"]["op"], bb, j))
            if "to_i64" not in src:
                continue
            n += 1
            guarded = False
            for c in cmps:
                if b.dominates(c.switch_bb, bb) and ("to_i64" in c.lhs + c.rhs):
                    guarded = True
            for tb, txt in tests:
                if b.dominates(tb, bb) and "EXTENSIBLE" in txt:
                    guarded = True
            key = "write_number#cast-as-%s" % s["rv"]["ty"]
            detail = {"cast": "%s as %s" % (src[:60], s["rv"]["ty"]), "at": span_loc(s["sp"])}
            if guarded:
                ctx.ok(rule, key, detail)
            else:
                ctx.fail(rule, key, "the value is narrowed `as %s` under tests that look only at the root bounds C::MIN / C::MAX: an "
                                    "extensible INTEGER may hold a value outside them, which is silently truncated" % s["rv"]["ty"],
                         span_loc(s["sp"]), detail)
    ctx.floor(rule, n, "C17.R4.casts")


ADVANCE_READ = ("next_range_format_reader", "increment_tag_counter")


def ok_assign_blocks(b):
    out = set()
    for d in b.defs.get(0, ()):
        if d[2] == "assign":
            rv = d[3]
            if rv["k"] == "agg" and rv.get("ak") == "adt" and rv.get("variant") == "Err":
                continue
            out.add(d[0])
        elif d[2] == "call" and d[3].name != "from_residual":
            out.add(d[0])
    return out


def count_paths(b, events, delegations):
    """(min, max) number of events on acyclic paths from entry to a return that pass a success assignment of the return place"""
    oks = ok_assign_blocks(b)
    rets = set(b.return_blocks())
    import sys
    sys.setrecursionlimit(20000)
    memo = {}

    def go(bb, passed, seen):
        key = (bb, passed)
        if key in memo:
            return memo[key]
        if bb in seen:
            return None
        passed = passed or bb in oks
        here = events.get(bb, 0) + delegations.get(bb, 0)
        if bb in rets:
            return (here, here) if passed else None
        lo, hi = 10 ** 6, -1
        for s in b.succ[bb]:
            r = go(s, passed, seen | {bb})
            if r is None:
                continue
            lo, hi = min(lo, r[0] + here), max(hi, r[1] + here)
        res = (lo, hi) if hi >= 0 else None
        memo[key] = res
        return res

    return go(0, False, frozenset())


def r1(ctx):
    rule = "C17.R1"
    ctx.rule(rule, "T8-b one advance per field: on every path to Ok, each scalar-kind method of ProtobufWriter assigns the field counter "
                   "exactly once (to counter + 1) and each scalar-kind method of ProtobufReader takes exactly one advancing range; "
                   "write_opt / read_opt either delegate once or advance once; write_null / read_null both do nothing")
    P = ctx.program()
    ws, rs = kind_bodies(ctx, rule)
    n = 0
    for k in SCALAR_KINDS:
        wb, rb = ws.get(k), rs.get(k)
        if wb is None or rb is None:
            ctx.fail(rule, "anchor-lost:" + k, "kind %s missing" % k)
            continue
        # writer events: assignments to state.tag_counter
        O = X.Origins(wb, P)
        ev = {}
        vals = []
        for bb, j, s in wb.all_statements():
            if s["k"] == "assign" and [p["n"] for p in s["pl"]["p"] if p["k"] == "field"][-1:] == ["tag_counter"]:
                ev[bb] = ev.get(bb, 0) + 1
                vals.append(F.rd(R.positional(O.rvalue(s["rv"], bb, j, 0))))
        mm = count_paths(wb, ev, {})
        n += 1
        detail = {"kind": k, "writer_assignments": vals, "writer_min_max_per_ok_path": mm}
        if mm != (1, 1):
            ctx.fail(rule, k + "#writer", "ProtobufWriter::write_%s advances the field counter %s times on some Ok path (expected exactly once)" % (k, mm),
                     "%s:%d" % (wb.file, wb.line), detail)
        elif not all(v == "($1.state.tag_counter Add 1)" for v in vals):
            ctx.fail(rule, k + "#writer-value", "ProtobufWriter::write_%s sets the counter to %s instead of counter + 1" % (k, vals),
                     "%s:%d" % (wb.file, wb.line), detail)
        else:
            ctx.ok(rule, k + "#writer", detail)
        ev = {}
        for cs in rb.calls():
            if cs.name in ADVANCE_READ or (cs.name.startswith("next_tag_range") and "true" in (cs.fn or {}).get("args", [])):
                ev[cs.bb] = ev.get(cs.bb, 0) + 1
        mm = count_paths(rb, ev, {})
        d2 = {"kind": k, "reader_min_max_per_ok_path": mm}
        if mm != (1, 1):
            ctx.fail(rule, k + "#reader", "ProtobufReader::read_%s takes %s advancing ranges on some Ok path (expected exactly once)" % (k, mm),
                     "%s:%d" % (rb.file, rb.line), d2)
        else:
            ctx.ok(rule, k + "#reader", d2)
    # opt
    for side, b, adv in (("writer", ws.get("opt"), None), ("reader", rs.get("opt"), None)):
        if b is None:
            ctx.fail(rule, "anchor-lost:opt-" + side, "opt missing")
            continue
        ev, de = {}, {}
        for bb, j, s in b.all_statements():
            if s["k"] == "assign" and [p["n"] for p in s["pl"]["p"] if p["k"] == "field"][-1:] == ["tag_counter"]:
                ev[bb] = ev.get(bb, 0) + 1
        for cs in b.calls():
            if cs.name in ADVANCE_READ:
                ev[cs.bb] = ev.get(cs.bb, 0) + 1
            if cs.name in ("write_value", "read_value"):
                de[cs.bb] = de.get(cs.bb, 0) + 1
        mm = count_paths(b, ev, de)
        n += 1
        if mm != (1, 1):
            ctx.fail(rule, "opt#" + side, "the %s's opt method advances / delegates %s times on some Ok path (an absent value must still "
                                          "consume its field number)" % (side, mm), "%s:%d" % (b.file, b.line), {"min_max": mm})
        else:
            ctx.ok(rule, "opt#" + side, {"min_max": mm})
    # null: both sides no event
    for side, b in (("writer", ws.get("null")), ("reader", rs.get("null"))):
        if b is None:
            continue
        has = any(s["k"] == "assign" and "tag_counter" in [p.get("n") for p in s["pl"]["p"]] for _, _, s in b.all_statements()) or \
            any(cs.name in ADVANCE_READ or cs.name.startswith("next_tag_range") or cs.name.startswith("write_tagged") for cs in b.calls())
        ctx.sample({"rule": rule, "null_" + side + "_touches_counter": has})
        if side == "writer":
            wn = has
        else:
            if wn != has:
                ctx.fail(rule, "null", "write_null and read_null disagree on whether NULL consumes a field number", "%s:%d" % (b.file, b.line))
            else:
                ctx.ok(rule, "null", {"consumes_field_number": has})
    ctx.floor(rule, n, "C17.R1.methods")


ALLOWED_MATCHERS = ("SliceOrVec::<'_>::into_inner_vec", "as std::io::Write>::write", "as std::io::Write>::flush",
                    "as std::io::Write>::write_all", "ProtobufWriter::<'a>::into_bytes_vec", "ProtobufWriter::<'a>::as_bytes",
                    "ProtobufWriter::<'a>::len_written")


def r5(ctx):
    rule = "C17.R5"
    ctx.rule(rule, "back-end neutrality (who-may-match): the variants of SliceOrVec (growable / fixed slice) are inspected only in its "
                   "io::Write impl, into_inner_vec and the accessors of ProtobufWriter; every Writer method reaches the buffer through "
                   "io::Write, so both back ends receive the same call sequence")
    P = ctx.program()
    n = 0
    for b in P.lib_bodies("asn1rs"):
        if "::promoted[" in b.path or not b.file.endswith("rw/proto_write.rs") or b.derived:
            continue
        hit = False
        for bb, j, s in b.all_statements():
            if s["k"] == "assign" and s["rv"]["k"] == "discr" and "SliceOrVec" in s["rv"].get("of", ""):
                hit = span_loc(s["sp"])
        if not hit:
            continue
        n += 1
        root = b.root or b.path
        if any(root.endswith(a) or a in root for a in ALLOWED_MATCHERS):
            ctx.ok(rule, root, {"function": root, "match_at": hit})
        else:
            ctx.fail(rule, root, "%s matches on the buffer back end: the growable and the fixed-slice writer can now emit different bytes" % X.short(root),
                     hit, {"function": root})
    ctx.floor(rule, n, "C17.R5.matchers")


def wide_reads(ex, narrow=False, out=None):
    """calls of 64-bit ProtoRead decoders inside an origin, with whether the value is narrowed to 32 bit directly (before any
    arithmetic is applied to it)"""
    out = out if out is not None else []
    if not isinstance(ex, tuple) or not ex:
        return out
    k = ex[0]
    if k == "call" and "ProtoRead::read_" in ex[1] and any(w in (ex[5] if len(ex) > 5 else "") for w in ("u64", "i64")):
        # only the raw varint may be narrowed; another decoder (read_sint64, ...) has already done 64-bit arithmetic
        out.append((X.last_seg(ex[1]), narrow and X.last_seg(ex[1]) == "read_varint"))
        return out
    if k == "cast":
        return wide_reads(ex[2], ex[1] in ("u32", "i32"), out)
    if k in ("try", "ref", "deref", "mut"):
        return wide_reads(ex[1], narrow, out)
    for x in ex[1:]:
        if isinstance(x, tuple):
            if x and isinstance(x[0], str):
                wide_reads(x, False, out)
            else:
                for y in x:
                    if isinstance(y, tuple):
                        if y and isinstance(y[0], str):
                            wide_reads(y, False, out)
                        else:
                            for z in y:
                                if isinstance(z, tuple):
                                    wide_reads(z, False, out)
    return out


def r6(ctx):
    rule = "C17.R6"
    ctx.rule(rule, "32-bit decoders narrow first: read_sint32 / read_uint32 / read_enum_variant / read_tag cut the 64-bit varint to 32 "
                   "bits before any arithmetic (the writers widen i32/u32 with `as u64`, which sign-extends zig-zag values with bit 31 "
                   "set, so decoding at 64 bits and truncating afterwards yields a different number)")
    P = ctx.program()
    n = 0
    for nm in ("read_sint32", "read_uint32", "read_enum_variant"):
        bs = [b for b in P.find("asn1rs", "ProtoRead::" + nm) if b.def_kind == "AssocFn"]
        if len(bs) != 1:
            ctx.fail(rule, "anchor-lost:" + nm, "matched %d bodies" % len(bs))
            continue
        b = bs[0]
        O = X.Origins(b, P)
        found = []
        for d in b.defs.get(0, ()):
            if d[2] == "assign":
                found.extend(wide_reads(O.rvalue(d[3], d[0], d[1], 0)))
            elif d[2] == "call":
                found.append((d[3].name, False)) if "ProtoRead" in (d[3].callee or "") else None
        n += 1
        detail = {"function": b.path, "wide_reads": found}
        bad = [f for f in found if not f[1]]
        if not found:
            ctx.fail(rule, nm + "#anchor-lost", "%s no longer reads a varint" % nm, "%s:%d" % (b.file, b.line), detail)
        elif bad:
            ctx.fail(rule, nm, "%s applies arithmetic to / returns the 64-bit result of %s and narrows afterwards: values whose 32-bit "
                               "zig-zag form has bit 31 set (|v| >= 2^30) decode to a different number" % (nm, bad[0][0]),
                     "%s:%d" % (b.file, b.line), detail)
        else:
            ctx.ok(rule, nm, detail)
    ctx.floor(rule, n, "C17.R6.decoders")


def r7(ctx):
    rule = "C17.R7"
    ctx.rule(rule, "the oracle of the property recurses: ProtobufEq for Option<T> compares two present values with T's protobuf_eq "
                   "(not with ==), a present and an absent one through T::default(), and ProtobufEq for Vec<T> compares elements "
                   "with protobuf_eq - otherwise proto3 default equivalence stops at the first wrapper and a round trip that only "
                   "turns an empty list inside a present message into an absent one is reported as a change (or the reverse)")
    P = ctx.program()
    found = {}
    for b in P.lib_bodies("asn1rs"):
        if b.name == "protobuf_eq" and b.def_kind == "AssocFn" and "peq" in b.path:
            ist = (b.impl_self_ty or "")
            if ist.startswith("std::option::Option<"):
                found["Option"] = b
            elif ist.startswith("std::vec::Vec<"):
                found["Vec"] = b
    for k in ("Option", "Vec"):
        if k not in found:
            ctx.fail(rule, "anchor-lost:ProtobufEq for " + k, "impl not found")
    if "Option" in found:
        b = found["Option"]
        O = X.Origins(b, P)
        arms = {}
        for a in R.match_tables(P, b, O):
            if len(a.path) == 2:
                calls = []
                for bb in sorted(a.blocks):
                    t = b.blocks[bb]["term"]
                    if t and t["k"] == "call" and t["func"].get("fn"):
                        calls.append("%s::%s" % ((t["func"]["fn"].get("trait") or "").split("::")[-1], t["func"]["fn"]["name"]))
                arms[(a.path[0][1], a.path[1][1])] = sorted(set(calls))
        want = {("Some", "Some"): ["ProtobufEq::protobuf_eq"], ("Some", "None"): ["Default::default", "PartialEq::eq"],
                ("None", "Some"): ["Default::default", "PartialEq::eq"], ("None", "None"): []}
        for key, w in sorted(want.items()):
            got = arms.get(key)
            detail = {"self": key[0], "other": key[1], "calls": got, "expected": w}
            if got is None:
                ctx.fail(rule, "Option#%s/%s" % key, "no arm for (%s, %s)" % key, "%s:%d" % (b.file, b.line), detail)
            elif [c for c in got if c.split("::")[0] in ("ProtobufEq", "PartialEq", "Default")] != w:
                ctx.fail(rule, "Option#%s/%s" % key, "ProtobufEq for Option compares (%s, %s) with %s instead of %s" % (key[0], key[1], got, w),
                         "%s:%d" % (b.file, b.line), detail)
            else:
                ctx.ok(rule, "Option#%s/%s" % key, detail)
    if "Vec" in found:
        b = found["Vec"]
        calls = sorted({"%s::%s" % ((cs.trait or "").split("::")[-1], cs.name) for cs in b.calls()})
        detail = {"calls": calls}
        if "ProtobufEq::protobuf_eq" not in calls or "PartialEq::eq" in calls or "PartialEq::ne" in calls:
            ctx.fail(rule, "Vec#elements", "ProtobufEq for Vec does not compare its elements with protobuf_eq (calls: %s)" % calls,
                     "%s:%d" % (b.file, b.line), detail)
        else:
            ctx.ok(rule, "Vec#elements", detail)


def r8(ctx, rule="C17.R8"):
    ctx.rule(rule, "the root flag is consumed: a ProtobufWriter method that looks at `is_root` and then hands the writer to nested "
                   "content (the closure of a SEQUENCE/SET, Constraint::write_content of a CHOICE) has cleared the flag (mem::take / "
                   "mem::replace / `is_root = false`) on a block dominating that hand-over, or is on the false side of a test of the "
                   "flag - otherwise the nested message is written as if it "
                   "were the root: without its tag and length, and it reads back as another field")
    P = ctx.program()
    n = 0
    for b in P.lib_bodies("asn1rs"):
        if "proto_write" not in b.file or b.def_kind != "AssocFn" or "ProtobufWriter" not in b.path:
            continue
        O = X.Origins(b, P)
        nested = [cs for cs in b.calls() if cs.name in ("write_content", "write_seq", "write_set")
                  or (cs.trait or "").split("::")[-1] in ("Fn", "FnOnce", "FnMut")]
        takes = [cs for cs in b.calls() if cs.name in ("take", "replace") and "is_root" in F.rd(O.call_args(cs)[0])]
        reads = [bb for bb, j, st in b.all_statements() if st["k"] == "assign" and st["rv"]["k"] == "use"
                 and st["rv"]["op"].get("k") in ("copy", "move") and any(p.get("n") == "is_root" for p in st["rv"]["op"]["pl"]["p"])]
        if not nested or not (takes or reads):
            continue
        n += 1
        # the flag is also consumed by `self.is_root = false` in front of the hand-over, and it is known to be clear on the
        # false side of a test of the flag
        clears = [bb for bb, j, st in b.all_statements() if st["k"] == "assign" and st["pl"]["p"] and st["pl"]["p"][-1].get("n") == "is_root"
                  and st["rv"]["k"] == "use" and st["rv"]["op"].get("k") == "const" and st["rv"]["op"].get("val") == "0"]

        def known_clear(c):
            if any(t.target is not None and (t.target == c.bb or b.dominates(t.target, c.bb)) for t in takes):
                return True
            if any(cb == c.bb or b.dominates(cb, c.bb) for cb in clears):
                return True
            for s_bb, ex, val in R.path_conditions(b, O, c.bb):
                e = X.strip(ex)
                if e[0] == "field" and e[2] == "is_root" and not val:
                    return True
            return False
        late = [c for c in nested if not known_clear(c)]
        detail = {"function": b.path, "nested_hand_overs": [c.loc() for c in nested], "flag_cleared_at": [t.loc() for t in takes],
                  "plain_reads_of_is_root": len(reads)}
        if late:
            ctx.fail(rule, b.name, "%s decides on is_root but hands the writer to nested content at %s while the flag is still set"
                     % (b.name, late[0].loc()), late[0].loc(), detail)
        else:
            ctx.ok(rule, b.name, detail)
    ctx.floor(rule, n, rule + ".containers")


def r9(ctx):
    import math
    rule = "C17.R9"
    ctx.rule(rule, "the varint reader takes every length the writer emits: write_varint emits 7 payload bits per octet of a 64-bit value "
                   "(at most ceil(64 / 7) = 10 octets); the loop of read_varint, where it is bounded by a constant - a shift compared "
                   "with K and advanced by S, a counter compared with N, `for _ in 0..N` - admits at least that many octets (9 octets "
                   "cut off bit 63: u64 values from 2^63 and zig-zag encoded i64 extremes no longer decode)")
    P = ctx.program()
    rs = [b for b in P.lib_bodies("asn1rs") if b.name == "read_varint" and b.file.endswith("protobuf/mod.rs") and b.def_kind == "AssocFn" and b.blocks]
    ws = [b for b in P.lib_bodies("asn1rs") if b.name == "write_varint" and b.file.endswith("protobuf/mod.rs") and b.def_kind == "AssocFn" and b.blocks]
    rs = [b for b in rs if len(b.blocks) > 2]
    ws = [b for b in ws if len(b.blocks) > 2]
    if len(rs) != 1 or len(ws) != 1:
        ctx.fail(rule, "anchor-lost:varint", "read_varint / write_varint matched %d / %d bodies" % (len(rs), len(ws)))
        return
    r, w = rs[0], ws[0]
    Ow = X.Origins(w, P)
    # the writer: payload bits per octet = the shift applied to the value in its loop; width of the value = its parameter type
    shifts = set()
    for bb, j, st in w.all_statements():
        rv = st.get("rv") or {}
        if st["k"] == "assign" and rv.get("k") == "bin" and X.norm_op(rv["op"]) == "Shr":
            o = rv.get("r") or rv.get("b")
            if isinstance(o, dict) and o.get("k") == "const" and "val" in o:
                shifts.add(int(o["val"]))
    vty = w.locals[2]["ty"] if w.arg_count >= 2 else ""
    bits = {"u64": 64, "u32": 32, "u128": 128}.get(vty)
    if len(shifts) != 1 or not bits:
        ctx.fail(rule, "writer#anchor-lost", "write_varint: shift amounts %s, value type %s" % (sorted(shifts), vty), "%s:%d" % (w.file, w.line))
        return
    per = shifts.pop()
    need = math.ceil(bits / per)
    Or = X.Origins(r, P)
    loops = r.sccs()
    bounds = []
    for c in F.comparisons(r, Or):
        if c.switch_bb is None or c.kind != "b" or c.rhs != "" or c.lex is None or not any(c.switch_bb in l for l in loops):
            continue
        step = None
        for e in X.walk(c.lex):
            if e[0] == "bin" and X.norm_op(e[1]) == "Add":
                k = F.strip_casts(e[3])
                if k[0] == "const" and k[1] > 0:
                    step = k[1]
        if step is None or "read_u8" in c.lhs or "BitAnd" in c.lhs:
            continue
        bounds.append((math.ceil(c.boundary / step), "`%s` advanced by %d" % (c.raw[-40:], step), c.loc))
    for cs in r.calls():
        if cs.name == "next" and any(cs.bb in l for l in loops):
            a = X.render(Or.call_args(cs)[0])
            m = re.search(r"Range::Range\{start: (\d+), end: (\d+)\}", a)
            if m:
                bounds.append((int(m.group(2)) - int(m.group(1)), "`for _ in %s..%s`" % (m.group(1), m.group(2)), cs.loc()))
    detail = {"writer": w.path, "payload_bits_per_octet": per, "value_bits": bits, "octets_the_writer_can_emit": need,
              "reader": r.path, "reader_loop_bounds": [(n, t) for n, t, _ in bounds]}
    if not bounds:
        ctx.ok(rule, "read_varint#octets", dict(detail, note="no constant bound on the reader's loop"), nontrivial=False)
    short = [b for b in bounds if b[0] < need]
    for n, t, loc in short[:1]:
        ctx.fail(rule, "read_varint#octets", "read_varint stops after %d octets (%s) but write_varint emits up to %d for a %d-bit value: the "
                                             "most significant bits are cut off or the value is refused" % (n, t, need, bits), loc, detail)
    if bounds and not short:
        ctx.ok(rule, "read_varint#octets", detail)
    ctx.floor(rule, len(bounds), "C17.R9.bounds")


def r10(ctx, rule="C17.R10"):
    ctx.rule(rule, "a nested message is always a field: in ProtobufWriter::write_set_or_sequence and write_choice the tag and the length "
                   "of the enclosed content are written on every successful path - the write_tag call does not depend on a test of the "
                   "content's length (`if !content.is_empty()`): an element of a SEQUENCE OF whose components are all absent, or an "
                   "empty SEQUENCE selected in a CHOICE, would vanish from the wire and the reader returns fewer elements / fails")
    P = ctx.program()
    n = 0
    bodies = [b for b in P.lib_bodies("asn1rs") if b.file.endswith("rw/proto_write.rs") and "ProtobufWriter" in b.path and "::promoted[" not in b.path]
    if not any(b.name in ("write_set_or_sequence", "write_choice") for b in bodies):
        ctx.fail(rule, "anchor-lost:write_set_or_sequence", "ProtobufWriter::write_set_or_sequence / write_choice not found")
        return
    for body in bodies:
        O = None
        for cs in body.calls():
            if cs.name not in ("write_tag", "write_tagged_bytes"):
                continue
            O = O or X.Origins(body, P)
            # only the tag of enclosed (length-delimited) content
            if cs.name == "write_tag" and not any("LengthDelimited" in X.render(a) for a in O.call_args(cs)):
                continue
            n += 1
            fn = (body.root or body.path).split("::")[-1]
            bad = None
            for s_bb, ex, val in R.path_conditions(body, O, cs.bb):
                for e in X.walk(ex):
                    if e[0] == "call" and X.last_seg(e[1] or "") in ("is_empty", "len"):
                        bad = X.render(X.strip(ex))[:80]
            d = {"function": body.path, "write_tag_at": cs.loc()}
            if bad:
                ctx.fail(rule, fn + "#tag-depends-on-length", "the tag of the enclosed content is written only under `%s`: content of "
                                                              "length 0 leaves no field on the wire" % bad, cs.loc(), d)
            else:
                ctx.ok(rule, fn + "#tag", d)
    ctx.floor(rule, n, rule + ".tags")


def run(ctx):
    r1(ctx)
    r2(ctx)
    r3(ctx)
    r4(ctx)
    r5(ctx)
    r6(ctx)
    r7(ctx)
    r8(ctx)
    r9(ctx)
    r10(ctx)
    # reader and primitive agree on the shortest BIT STRING content (8 octets of bit length; shared with C04)
    from .c04 import r6 as bit_string_length_guard
    bit_string_length_guard(ctx, rule="C17.R11")

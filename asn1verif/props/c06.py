"""C06 - the encoder rejects constraint-violating values (DESIGN.md section 5, C06)."""
import json
import os

from .. import expr as X
from .. import facts as F
from .. import rules as R
from ..core import VERIF
from ..mir import span_loc

EMIT_TRAITS = ("BitWrite", "PackedWrite")


def contains_cmp(ex, cmps):
    """does the origin expression contain one of the comparison operations (same operands)?"""
    keys = set()
    for e in X.walk(ex):
        if e[0] == "bin" and X.norm_op(e[1]) in X.CMP_OPS:
            c = F.normalise_cmp(X.norm_op(e[1]), e[2], e[3])
            if c is not None:
                keys.add(R.cmp_key_positional(c))
    return bool(keys & cmps)


def r1(ctx, table):
    rule = "C06.R1"
    ctx.rule(rule, "T5 must-check-before-success (primitives): the value is compared with each bound, an error of the documented "
                   "kind is built under that decision, and every emitting call other than the extension bit (whose argument is the "
                   "comparison result) is dominated by a switch on the comparison; no `Ok` return is reachable on a path around that decision")
    P = ctx.program()
    n = 0
    for e in table["primitives"]:
        bs = [b for b in P.find("asn1rs", e["fn"]) if b.def_kind in ("Fn", "AssocFn")]
        if len(bs) != 1:
            ctx.fail(rule, "anchor-lost:" + e["fn"], "function …%s matched %d bodies" % (e["fn"], len(bs)))
            continue
        b = bs[0]
        n += 1
        ff = R.FnFacts(P, b, include_closures=False)
        O = X.Origins(b, P)
        want = set(e["checks"])
        detail = {"function": b.path, "required_checks": e["checks"], "why": e["why"], "cmps": sorted(ff.cmps)}
        missing = sorted(want - set(ff.cmps))
        for m in missing:
            ctx.fail(rule, "%s#check-missing:%s" % (e["id"], m),
                     "%s no longer compares the value with this bound (%s): a value outside the constraint can be encoded" % (
                         X.short(b.path), m), "%s:%d" % (b.file, b.line), detail)
        if missing:
            continue
        if not R.fact_present(ff, e["error"]):
            ctx.fail(rule, "%s#error-missing" % e["id"], "%s never builds %s: an out-of-range value is not rejected" % (
                X.short(b.path), e["error"][4:]), "%s:%d" % (b.file, b.line), detail)
            continue
        # decision switches: switches whose condition contains one of the required comparisons
        decisions = [bb for bb, t in b.switches() if contains_cmp(O.switch_cond(bb), want)]
        detail["decision_switches"] = [span_loc(b.blocks[bb]["term"]["sp"]) for bb in decisions]
        # the error is built under a decision
        err_locs = []
        for bb, j, st in b.all_statements():
            if st["k"] == "assign" and st["rv"]["k"] == "agg" and st["rv"].get("ak") == "adt" and \
                    "%s::%s" % (st["rv"]["adt"].split("::")[-1], st["rv"]["variant"]) == e["error"][4:]:
                err_locs.append(bb)
        bad = []
        if not any(any(b.dominates(d, eb) for d in decisions) for eb in err_locs):
            bad.append("the %s error is not built under the range decision" % e["error"][4:])
        emits = []
        for cs in b.calls():
            if cs.fn and (cs.trait or "").split("::")[-1] in EMIT_TRAITS:
                args = O.call_args(cs)
                if any(contains_cmp(a, want) for a in args):
                    continue     # the extension bit: its argument *is* the comparison result
                emits.append(cs)
        for cs in emits:
            if not any(d != cs.bb and b.dominates(d, cs.bb) for d in decisions):
                bad.append("%s at %s is emitted before the range decision" % (X.short(cs.callee), cs.loc()))
        for eb in err_locs:
            after = b.reach_from(eb)
            leak = [cs for cs in emits if cs.bb in after]
            if leak:
                bad.append("after %s is built the function goes on to emit (%s at %s) instead of returning the error" % (
                    e["error"][4:], X.short(leak[0].callee), leak[0].loc()))
        # must-pass-through: no success return is reachable around the decision (a branch that emits nothing and returns
        # Ok - e.g. the zero-width encoding of a single-value range - must still have tested the value)
        free = b.reach_from(0, avoid=decisions)
        for bb in sorted(free):
            for st in b.blocks[bb]["stmts"]:
                if st["k"] == "assign" and st["pl"]["l"] == 0 and not st["pl"]["p"] and st["rv"]["k"] == "agg" \
                        and st["rv"].get("variant") == "Ok":
                    bad.append("`Ok` at %s is returned on a path that never compares the value with the bounds" % span_loc(st["sp"]))
            t = b.blocks[bb]["term"]
            if t and t["k"] == "call" and t["dest"]["l"] == 0 and not t["dest"]["p"] and bb not in decisions:
                bad.append("the result of the call at %s is returned on a path that never compares the value with the bounds"
                           % span_loc(t["sp"]))
        detail["emitting_calls"] = len(emits)
        if bad:
            ctx.fail(rule, e["id"] + "#order", "; ".join(bad[:3]), "%s:%d" % (b.file, b.line), detail)
        else:
            ctx.ok(rule, e["id"], detail)
    ctx.floor(rule, n, "C06.R1.primitives")


def r6(ctx, table):
    rule = "C06.R6"
    ctx.rule(rule, "T5 path-resolved refusal: along every path of a checking primitive that reaches a success return or an emitting "
                   "call other than the extension bit, the outcomes of the bound comparisons (resolved through stored flags and "
                   "tuple scrutinees) say the value is inside the bounds, or the `extensible` parameter was tested true; a branch "
                   "taken before the out-of-range decision (an early `Ok` for SIZE(0), a guard arm placed first) is reported")
    P = ctx.program()
    n = 0
    for e in table["primitives"]:
        bs = [b for b in P.find("asn1rs", e["fn"]) if b.def_kind in ("Fn", "AssocFn")]
        if len(bs) != 1:
            ctx.fail(rule, "anchor-lost:" + e["fn"], "function …%s matched %d bodies" % (e["fn"], len(bs)))
            continue
        b = bs[0]
        O = X.Origins(b, P)
        want = set(e["checks"])
        viol = dict(zip(e["checks"], e["violates"]))
        ext = ("param:" + e["extensible"]) if e.get("extensible") else None
        sinks = []
        for bb, j, st in b.all_statements():
            if bb in b.reachable and st["k"] == "assign" and st["pl"]["l"] == 0 and not st["pl"]["p"] and \
                    st["rv"]["k"] == "agg" and st["rv"].get("variant") == "Ok":
                sinks.append((bb, "`Ok` at %s" % span_loc(st["sp"])))
        for cs in b.calls():
            if cs.bb not in b.reachable or not cs.fn:
                continue
            if (cs.trait or "").split("::")[-1] in EMIT_TRAITS:
                if any(contains_cmp(a, want) for a in O.call_args(cs)):
                    continue     # the extension bit: its argument *is* the comparison result
                sinks.append((cs.bb, "%s at %s" % (X.short(cs.callee), cs.loc())))
        bad, undecided, npaths = [], [], 0
        for bb, what in sinks:
            paths = R.reach_dnf(b, O, bb, param_atoms=True)
            if paths is None:
                undecided.append(what)
                continue
            for p in paths:
                npaths += 1
                lits = dict(p)
                out = sorted(k for k, v in viol.items() if lits.get(k) == v)
                if out and not (ext and lits.get(ext) == "true"):
                    bad.append("%s is reached with the value outside the bounds (%s)%s" % (
                        what, ", ".join("%s is %s" % (k, viol[k]) for k in out),
                        " without `extensible` having been tested true" if ext else ""))
        n += 1
        detail = {"function": b.path, "sinks": [w for _, w in sinks], "paths": npaths, "violating_outcomes": viol, "extensible_parameter": e.get("extensible")}
        if not sinks:
            ctx.fail(rule, e["id"] + "#anchor-lost", "%s has no success return and no emitting call" % X.short(b.path), "%s:%d" % (b.file, b.line), detail)
        elif bad:
            ctx.fail(rule, e["id"] + "#accepts-out-of-range", "; ".join(sorted(set(bad))[:3]), "%s:%d" % (b.file, b.line), detail)
        elif undecided:
            ctx.fail(rule, e["id"] + "#undecided", "more than 4096 paths lead to %s: the refusal cannot be decided path by path" % undecided[0],
                     "%s:%d" % (b.file, b.line), detail)
        else:
            ctx.ok(rule, e["id"], detail)
    ctx.floor(rule, n, "C06.R6.primitives")


def r7(ctx):
    rule = "C06.R7"
    ctx.rule(rule, "the unconstrained form is not a way around the range check: every path of UperWriter::write_number that leads to "
                   "write_unconstrained_whole_number has C::EXTENSIBLE tested true, or both C::MIN and C::MAX matched as None (no "
                   "constraint at all) - a value outside a non-extensible range must reach write_constrained_whole_number, which "
                   "refuses it (associated constants are atoms of the path condition)")
    P = ctx.program()
    bs = [b for b in P.find("asn1rs", "UperWriter as descriptor::Writer>::write_number") if b.def_kind == "AssocFn"]
    if len(bs) != 1:
        ctx.fail(rule, "anchor-lost:write_number", "matched %d bodies" % len(bs))
        return
    b = bs[0]
    O = X.Origins(b, P)
    sinks = []
    for cs in b.calls():
        if cs.bb not in b.reachable:
            continue
        if cs.name == "write_unconstrained_whole_number":
            sinks.append(cs)
            continue
        for a in O.call_args(cs):
            a = X.strip(a)
            if a[0] == "agg" and a[1] == "closure":
                cb = P.bodies.get("%s::%s" % (b.crate, a[2]))
                if cb is not None and any(c.name == "write_unconstrained_whole_number" for c in cb.calls()):
                    sinks.append(cs)
    if not sinks:
        ctx.fail(rule, "write_number#anchor-lost:unconstrained", "write_number no longer uses write_unconstrained_whole_number", "%s:%d" % (b.file, b.line))
        return
    n = 0
    for cs in sinks:
        paths = R.reach_dnf(b, O, cs.bb, param_atoms=True, program=P)
        d = {"function": b.path, "unconstrained_form_at": cs.loc(), "paths": len(paths or ())}
        if paths is None:
            ctx.fail(rule, "write_number#undecided", "too many paths", cs.loc(), d)
            continue
        bad = []
        for p in paths:
            n += 1
            l = dict(p)
            if l.get("assoc:EXTENSIBLE") == "true":
                continue
            if l.get("assoc:MIN#variant") == "in:0" and l.get("assoc:MAX#variant") == "in:0":
                continue
            bad.append(sorted("%s is %s" % kv for kv in p))
        if bad:
            d["offending_path"] = bad[0]
            ctx.fail(rule, "write_number#unconstrained-without-extension", "the unconstrained form is reached on a path on which neither "
                     "C::EXTENSIBLE holds nor both bounds are absent (%s): a value outside a non-extensible range is encoded instead of "
                     "refused" % "; ".join(bad[0])[:200], cs.loc(), d)
        else:
            ctx.ok(rule, "write_number#unconstrained", d)
    ctx.floor(rule, n, "C06.R7.paths")


def r2(ctx, table):
    rule = "C06.R2"
    ctx.rule(rule, "T5 (kinds): every Writer method of UperWriter that has constraint constants hands C::MIN / C::MAX / C::EXTENSIBLE "
                   "(and the charset) to a checking primitive or compares them explicitly")
    t = {"entries": [dict(k, clause="C06 kinds") for k in table["kinds"]]}
    n = R.check_table(ctx, rule, rule + ".near", t)
    ctx.floor(rule, n, "C06.R2.kinds")


def r3(ctx):
    rule = "C06.R3"
    ctx.rule(rule, "error vocabulary census: each documented rejection kind is constructed on at least one encode path")
    P = ctx.program()
    counts = {}
    for b in P.lib_bodies("asn1rs"):
        if "::promoted[" in b.path or "::tests::" in b.path:
            continue
        if not (b.file.endswith("per/unaligned/mod.rs") or b.file.endswith("rw/uper.rs") or b.file.endswith("per/err.rs")):
            continue
        for bb, j, st in b.all_statements():
            if st["k"] == "assign" and st["rv"]["k"] == "agg" and st["rv"].get("ak") == "adt" and st["rv"]["adt"].endswith("ErrorKind"):
                counts.setdefault(st["rv"]["variant"], []).append("%s (%s)" % (X.short(b.path), span_loc(st["sp"])))
    for kind in ("ValueNotInRange", "SizeNotInRange", "InvalidString", "InvalidChoiceIndex"):
        sites = counts.get(kind, [])
        if sites:
            ctx.ok(rule, kind, {"sites": sites})
        else:
            ctx.fail(rule, kind, "ErrorKind::%s is no longer constructed anywhere in the UPER encoder" % kind, "src/protocol/per/err.rs")
    ctx.floor(rule, len(counts.get("SizeNotInRange", [])), "C06.R3.SizeNotInRange")
    ctx.floor(rule, len(counts.get("ValueNotInRange", [])), "C06.R3.ValueNotInRange")


def r4(ctx):
    from .. import intervals as I
    rule = "C06.R4"
    ctx.rule(rule, "T7 alphabet table: for every Charset variant the set of characters Charset::is_valid accepts - obtained by interval "
                   "partitioning of its comparisons, no value is executed - equals the alphabet of X.680 clause 41 "
                   "(tables/x680_charsets.json); is_valid is what ensure_string_valid, and through it every restricted-string "
                   "writer, rejects by")
    P = ctx.program()
    with open(os.path.join(VERIF, "tables", "x680_charsets.json")) as fh:
        table = json.load(fh)
    try:
        b = P.one("asn1rs_model", "Charset::is_valid")
    except KeyError as e:
        ctx.fail(rule, "anchor-lost:Charset::is_valid", str(e))
        return
    pn = b.param_names()
    cidx = [i for i, n in pn.items() if i != 1]
    if len(cidx) != 1:
        ctx.fail(rule, "anchor-lost:char-parameter", "Charset::is_valid has parameters %s" % pn, "%s:%d" % (b.file, b.line))
        return
    O = X.Origins(b, P)
    n = 0
    arms = {a.path[0][1]: a for a in R.match_tables(P, b, O) if len(a.path) == 1}
    for v, want in sorted(table.items()):
        if v.startswith("_"):
            continue
        a = arms.get(v)
        if a is None:
            ctx.fail(rule, "Charset::" + v, "is_valid has no arm for Charset::%s" % v, "%s:%d" % (b.file, b.line))
            continue
        got, imprecise = I.accepted(P, b, a.target, cidx[0])
        n += 1
        want = [tuple(x) for x in want]
        detail = {"variant": v, "accepted": got, "x680": want, "imprecise": imprecise}
        if imprecise:
            ctx.fail(rule, "Charset::%s#not-a-decision-table" % v, "the arm of Charset::%s is no longer a pure comparison table over the "
                                                                  "character: its alphabet cannot be read off" % v, "%s:%d" % (b.file, b.line), detail)
        elif got != want:
            extra = I.minus(got, want)
            missing = I.minus(want, got)
            ctx.fail(rule, "Charset::" + v, "Charset::%s accepts %s%s: %s" % (
                v, ("also code points %s" % extra) if extra else "", (" not code points %s" % missing) if missing else "",
                "a character outside the type's alphabet is encoded (and decodes as another one)" if extra else
                "a permitted character is rejected"), "%s:%d" % (b.file, b.line), detail)
        else:
            ctx.ok(rule, "Charset::" + v, detail)
    for v in sorted(set(arms) - set(table)):
        ctx.fail(rule, "Charset::%s#no-table" % v, "Charset::%s has no alphabet in tables/x680_charsets.json" % v, "%s:%d" % (b.file, b.line))
    ctx.floor(rule, n, "C06.R4.alphabets")


def run(ctx):
    with open(os.path.join(VERIF, "tables", "c06.json")) as fh:
        table = json.load(fh)
    r1(ctx, table)
    r2(ctx, table)
    r3(ctx)
    r4(ctx)
    from .c02 import r5 as rebuilders_keep_the_marker
    rebuilders_keep_the_marker(ctx, rule="C06.R5")
    r6(ctx, table)
    r7(ctx)

"""C01 - UPER round trip: structural preconditions of symmetry (DESIGN.md section 5, C01)."""
import re

from .. import expr as X
from .. import facts as F
from .. import rules as R
from ..mir import span_loc

# declared asymmetries (DESIGN.md T2): keyed by kind, one reason each
ASYMMETRY = {
    "sequence_of": {"reader": {"with_buffer()", "nest:with_buffer>scope_stashed()"},
                    "writer": {"nest:scope_stashed>scope_stashed()"},
                    "reason": "read_sequence_of enters with_buffer where write_sequence_of only stashes the scope: identity, because a "
                              "list is never entered under an open-type scope - extension additions are always wrapped by "
                              "write_opt/write_default, which stash the scope before the list is written (a non-Option field "
                              "behind extensible_after is rejected by the attribute macro: the generated read_seq does not "
                              "type-check)"},
}

# configuration B (descriptive-deserialize-errors) only
ASYMMETRY_B = {
    "enumerated": {"reader": {"decision:value-C::VARIANT_COUNT|0()"},
                   "reason": "`if index >= C::VARIANT_COUNT { scope_description.push(warning) }` exists only in the diagnostic build and "
                             "only pushes a description; C19.R1/R4 decide that gated code has no effect on decoding"},
}

FRAMING = {"with_buffer", "scope_stashed", "scope_pushed", "read_whole_sub_slice"}
CURSOR_OPS = {"pos", "set_pos", "remaining", "len", "set_len", "with_read_position_at", "is_empty"}


def uper_pairs(ctx, rule):
    P = ctx.program()
    ws = {b.name: b for b in P.lib_bodies("asn1rs") if b.path.startswith("<rw::uper::UperWriter as descriptor::Writer>::")
          and b.def_kind == "AssocFn" and "::promoted[" not in b.path}
    rs = {b.name: b for b in P.lib_bodies("asn1rs") if b.path.startswith("<rw::uper::UperReader<B> as descriptor::Reader>::")
          and b.def_kind == "AssocFn" and "::promoted[" not in b.path}
    ctx.anchor(rule, "impl Writer for UperWriter", ws)
    ctx.anchor(rule, "impl Reader for UperReader", rs)
    pairs = []
    for wn, wb in sorted(ws.items()):
        if not wn.startswith("write_"):
            continue
        rn = "read_" + wn[6:]
        if rn in rs:
            pairs.append((wn[6:], wb, rs[rn]))
        else:
            ctx.fail(rule, "pair-missing:" + wn, "UperWriter::%s has no UperReader twin" % wn, wb.file)
    return pairs


def element(P, body, cs, args, subst, shared):
    """skeleton element of one call, or ('inline', callee body, subst) for same-type helpers"""
    if cs.fn is None:
        return None
    d = R.codec_call_desc(P, cs, args, shared, subst)
    if d is not None:
        if d[0] in CURSOR_OPS:
            return None
        return d
    name = cs.name
    tr = (cs.trait or "").split("::")[-1]
    selfty = (cs.fn.get("impl_self_ty") or "").split("<")[0].split("::")[-1]
    if tr in ("WritableType", "ReadableType") and name in ("write_value", "read_value"):
        return ("value", ())
    if tr in ("Writable", "Readable") and name in ("write", "read"):
        return ("value", ())
    if tr in ("Writer", "Reader"):
        return ("kind:" + R.norm_method(name), ())
    if tr == "Constraint" and name in ("write_content", "read_content"):
        return ("content", ())
    if tr == "Constraint" and name in ("to_choice_index", "from_choice_index"):
        return None     # value-level conversion, not part of the wire skeleton
    if tr == "Constraint" and name in ("write_seq", "read_seq", "write_set", "read_set"):
        return ("fields", ())
    if selfty in ("UperWriter", "UperReader"):
        if name in FRAMING:
            return (name, ())
        if name in ("write_bit_field_entry", "read_bit_field_entry"):
            a = args[1] if len(args) > 1 else None
            if subst and a is not None:
                a = R.substitute(a, subst)
            return ("bit_field_entry", (("is_opt", R.desc(a, shared) if a is not None else "?"),))
        if name in ("with_capacity", "byte_content", "bit_len", "from", "into_bits", "default"):
            return ("nested_writer", ()) if name == "with_capacity" else None
        return ("inline",)
    if selfty == "Error" and name == "ensure_string_valid":
        return None
    return None


def skeleton(ctx, body, depth=1, subst=None, seen=None):
    """set of skeleton elements of `body`, its closures, and same-type helpers inlined to `depth`"""
    P = ctx.program()
    out = {}
    seen = seen or set()
    bodies = [body] + P.closures_of(body)
    for b in bodies:
        O = X.Origins(b, P)
        for cs in b.calls():
            args = O.call_args(cs)
            if b is not body:
                # what a closure captured is a value of the creating function
                args = tuple(R.in_root_terms(P, b, a) if R.has_upvar(a) else a for a in args)
            el = element(P, b, cs, args, subst if b is body else None, R.ALL)
            for a in args:
                # `T::read_value` / `T::write_value` handed over as a function item (scope_stashed(T::read_value))
                if a[0] == "fnitem" and a[1].split("::")[-1] in ("read_value", "write_value"):
                    out.setdefault(("value", ()), []).append(cs)
            if el is None:
                continue
            if el == ("inline",):
                t = P.resolve_callee(b.crate, cs)
                if t is None or depth <= 0 or t.key in seen:
                    out.setdefault(("helper:" + cs.name, ()), []).append(cs)
                    continue
                pn = t.param_names()
                sub = {}
                for i, a in enumerate(args):
                    nm = pn.get(i + 1)
                    if nm:
                        sub[nm] = a if not (subst and b is body) else R.substitute(a, subst)
                inner = skeleton(ctx, t, depth - 1, sub, seen | {t.key})
                for k, v in inner.items():
                    out.setdefault(k, []).extend(v)
                continue
            out.setdefault(el, []).append(cs)
    return out


NEST = ("with_buffer", "scope_stashed", "scope_pushed")


def nesting(ctx, body, limit=4):
    """nesting chains of the framing combinators: with_buffer(|w| w.scope_stashed(|w| T::write_value(..))) gives
    ('with_buffer', 'scope_stashed').  Which combinator wraps which decides whether the open-type test of with_buffer sees
    the enclosing scope or the stashed (empty) one, so writer and reader must nest them alike."""
    P = ctx.program()
    out = {}

    def walk(b, prefix, depth):
        O = X.Origins(b, P)
        for cs in b.calls():
            selfty = ((cs.fn or {}).get("impl_self_ty") or "").split("<")[0].split("::")[-1]
            if cs.name in ("write_bit_field_entry", "read_bit_field_entry") and selfty in ("UperWriter", "UperReader"):
                # the entry of the component in the enclosing SEQUENCE's presence bookkeeping: made before the scope is stashed /
                # pushed (inside `scope_stashed` the enclosing scope is gone and the call does nothing)
                out.setdefault(("nest:bit_field_entry@" + (">".join(prefix) or "top"), ()), []).append(cs)
                continue
            if cs.name not in NEST or selfty not in ("UperWriter", "UperReader"):
                continue
            chain = prefix + (cs.name,)
            inner = None
            for a in O.call_args(cs):
                if a[0] == "agg" and a[1] == "closure":
                    inner = P.bodies.get("%s::%s" % (b.crate, a[2]))
            sub = False
            if inner is not None and depth < limit:
                sub = walk(inner, chain, depth + 1)
            if not sub and len(chain) > 1:
                out.setdefault(("nest:" + ">".join(chain), ()), []).append(cs)
        return any(k[0].startswith("nest:" + ">".join(prefix)) for k in out) if prefix else bool(out)

    walk(body, (), 0)
    return out


def decisions(ctx, body):
    """form-selecting comparisons of a value with an associated constant of the constraint (`index >= C::STD_VARIANT_COUNT`):
    writer and reader must split at the same boundary, or one side wraps an extension alternative as an open type that the
    other reads inline"""
    P = ctx.program()
    out = {}

    def assoc_only(e):
        # counts and indices are transmitted literally, so both sides split on them; a decision on MIN / MAX is the writer's
        # out-of-root test, which the reader does not repeat (it reads the extension bit)
        at = list(R.atoms(e))
        return bool(at) and all(k == "assoc" and n.split("::")[-1] not in ("MIN", "MAX", "MIN_T", "MAX_T") for k, n in at)
    for b in [body] + P.closures_of(body):
        O = X.Origins(b, P)
        for c in F.comparisons(b, O):
            if c.validating or c.lex is None or c.rex is None or c.switch_bb is None:
                continue
            la, ra = assoc_only(c.lex), assoc_only(c.rex)
            if la == ra:
                continue
            # normalise to `value - assoc`
            if ra:
                key = (c.rhs, c.kind, c.boundary)
            else:
                key = (c.lhs, c.kind, (-c.boundary + 1) if c.kind == "b" else -c.boundary)
            out.setdefault(("decision:value-%s%s%s" % (key[0], "|" if key[1] == "b" else "==", key[2]), ()), []).append(_Loc(c.loc))
    return out


class _Loc:
    def __init__(self, loc):
        self._loc = loc

    def loc(self):
        return self._loc


def normalise(sk, side):
    """declared equivalences between writer and reader skeletons (DESIGN.md T2)"""
    keys = set(sk)
    # PackedRead::read_boolean / PackedWrite::write_boolean are one bit (X.691 12; pair checked by C10.R1)
    keys = {(("bit", ()) if k == ("boolean", ()) else k) for k in keys}
    names = {k[0] for k in keys}
    none_ld = ("length_determinant", (("lower_bound", "Option::None{}"), ("upper_bound", "Option::None{}")))
    none_os = ("octetstring", (("lower_bound_size", "Option::None{}"), ("upper_bound_size", "Option::None{}"), ("extensible", "0")))
    if side == "r" and "read_whole_sub_slice" in names and none_ld in keys:
        keys.discard(none_ld)
        keys = {k for k in keys if k[0] != "read_whole_sub_slice"}
        keys.add(("open_type", ()))
    if side == "w" and "nested_writer" in names and none_os in keys:
        keys.discard(none_os)
        keys = {k for k in keys if k[0] != "nested_writer"}
        keys.add(("open_type", ()))
    return keys


def spread_merged_calls(kw, kr):
    """`f(if c {a} else {b}, ..)` on one side and `if c {f(a, ..)} else {f(b, ..)}` on the other are the same codec behaviour:
    when a call descriptor carries merged (`phi{..}`) arguments, the calls of that name are compared on both sides by the set
    of alternatives each parameter can take instead of call by call"""
    names = {k[0] for k in kw | kr if any("phi{" in d for _, d in k[1])}
    if not names:
        return kw, kr

    def fold(keys):
        out = set()
        acc = {}
        for k in keys:
            if k[0] in names:
                a = acc.setdefault(k[0], {})
                for p, d in k[1]:
                    a.setdefault(p, set()).update(R._alts(d))
            else:
                out.add(k)
        for nm, a in acc.items():
            out.add((nm, tuple(sorted((p, "{" + " | ".join(sorted(v)) + "}") for p, v in a.items()))))
        return out
    return fold(kw), fold(kr)


def fmt(d):
    return "%s(%s)" % (d[0], ", ".join("%s=%s" % kv for kv in d[1]))


def r2(ctx, rule="C01.R2", kinds=None, only_prefix=None):
    ctx.rule(rule, ("(C01.R2 restricted to the kinds %s) " % ", ".join(kinds) if kinds else "") +
             ("(C01.R2 restricted to the place of the bit-field entry relative to the framing combinators) " if only_prefix else "") +
             "T2 UPER codec-skeleton symmetry: for every kind, UperWriter::write_K and UperReader::read_K (closures included, "
                   "same-type helpers inlined to depth 1) perform the same set of codec / framing calls with the same "
                   "constraint-argument descriptors, and nest the framing combinators with_buffer / scope_stashed / scope_pushed in "
                   "the same order")
    pairs = uper_pairs(ctx, rule)
    if kinds:
        pairs = [p for p in pairs if p[0] in kinds]
    ctx.floor(rule, len(pairs), rule + ".pairs")
    for name, wb, rb in pairs:
        depth = 1 if ctx.tier == "quick" else 3
        sw = skeleton(ctx, wb, depth)
        sr = skeleton(ctx, rb, depth)
        sw.update(nesting(ctx, wb))
        sr.update(nesting(ctx, rb))
        sw.update(decisions(ctx, wb))
        sr.update(decisions(ctx, rb))
        kw, kr = normalise(sw, "w"), normalise(sr, "r")
        kw, kr = spread_merged_calls(kw, kr)
        detail = {"writer": sorted(fmt(d) for d in kw), "reader": sorted(fmt(d) for d in kr)}
        bad = False
        asym = ASYMMETRY.get(name, {})
        asym_b = ASYMMETRY_B.get(name, {}) if ctx.default_config == "B" else {}
        for d in sorted(kw ^ kr):
            side = "writer" if d in kw else "reader"
            if only_prefix and not d[0].startswith(only_prefix):
                continue
            if fmt(d) in asym.get(side, ()):
                detail["declared_asymmetry"] = asym["reason"]
                continue
            if fmt(d) in asym_b.get(side, ()):
                detail["declared_asymmetry"] = asym_b["reason"]
                continue
            src = sw if d in kw else sr
            cs = (src.get(d) or [None])[0]
            ctx.fail(rule, "%s#%s" % (name, fmt(d)), "UPER %s of kind `%s` performs %s, its twin does not" % (side, name, fmt(d)),
                     cs.loc() if cs else "%s:%d" % (wb.file, wb.line), detail)
            bad = True
        if not bad:
            ctx.ok(rule, name, detail, nontrivial=bool(kw))




# ---------------------------------------------------------------------------------------------- R1
def r1(ctx):
    rule = "C01.R1"
    ctx.rule(rule, "descriptor pairing: every descriptor type that implements WritableType and ReadableType hands the value to "
                   "Writer::write_K / Reader::read_K of the same kind K with the same generic arguments and the same associated Type")
    P = ctx.program()
    impls_w, impls_r = {}, {}
    for im in P.impls:
        if im["crate"] != "asn1rs":
            continue
        tr = (im.get("trait") or "").split("::")[-1]
        if tr == "WritableType":
            impls_w[im["self_ty"]] = im
        elif tr == "ReadableType":
            impls_r[im["self_ty"]] = im
    n = 0
    for ty in sorted(set(impls_w) | set(impls_r)):
        if ty not in impls_w or ty not in impls_r:
            continue    # one-sided (the blanket `impl<T: Readable> ReadableType for T`): nothing to pair
        n += 1
        iw, ir = impls_w[ty], impls_r[ty]
        tw = [i.get("ty") for i in iw["items"] if i["name"] == "Type"]
        tr_ = [i.get("ty") for i in ir["items"] if i["name"] == "Type"]

        def norm_ty(t):
            return re.sub(r"descriptor::(Writable|Readable)Type", "descriptor::XType", t or "")

        def kind_call(im, fn, trait):
            bpath = [i["path"] for i in im["items"] if i["name"] == fn]
            if not bpath:
                return None, None
            b = P.bodies.get("asn1rs::" + bpath[0])
            if b is None:
                return None, None
            out = []
            for body in [b] + P.closures_of(b):
                for cs in body.calls():
                    t = (cs.trait or "").split("::")[-1]
                    if t == trait or (t in ("Writable", "Readable") and cs.name in ("write", "read")):
                        out.append(cs)
            return b, out

        bw, cw = kind_call(iw, "write_value", "Writer")
        br, cr = kind_call(ir, "read_value", "Reader")
        detail = {"type": ty, "writer_Type": tw, "reader_Type": tr_}
        probs = []
        if [norm_ty(t) for t in tw] != [norm_ty(t) for t in tr_]:
            probs.append("associated Type differs: %s vs %s" % (tw, tr_))
        if not cw or not cr or len(cw) != 1 or len(cr) != 1:
            probs.append("write_value / read_value do not reach exactly one Writer / Reader kind method (%s / %s)" % (
                [c.name for c in cw or []], [c.name for c in cr or []]))
        else:
            def kind(nm):
                return "" if nm in ("write", "read") else R.norm_method(nm)

            def generics(cs):
                # constraint / element type arguments; the reader/writer type parameter, closures and function items
                # (the field walker handed to read_sequence / write_sequence) are not constraint arguments
                return sorted({norm_ty(a) for a in cs.fn["args"][1:]
                               if a not in ("W", "R") and not a.startswith("{closure") and not a.startswith("for<")
                               and not a.startswith("fn(")})

            kw, kr = kind(cw[0].name), kind(cr[0].name)
            gw, gr = generics(cw[0]), generics(cr[0])
            detail.update({"writer_call": cw[0].name, "reader_call": cr[0].name, "writer_generics": gw, "reader_generics": gr})
            if kw != kr:
                probs.append("kind differs: %s vs %s" % (cw[0].name, cr[0].name))
            if gw != gr:
                probs.append("generic arguments differ: %s vs %s" % (gw, gr))
        if probs:
            ctx.fail(rule, ty, "; ".join(probs), iw["span"]["s"].rsplit(":", 3)[0], detail)
        else:
            ctx.ok(rule, ty, detail)
    ctx.floor(rule, n, "C01.R1.descriptors")


# ---------------------------------------------------------------------------------------------- R3
ORDER_CHANGERS = ("rev", "sort", "sort_by", "sort_by_key", "sort_unstable", "sort_unstable_by", "filter", "filter_map", "skip",
                  "skip_while", "step_by", "take", "take_while", "chain", "reverse", "rotate_left", "rotate_right", "swap",
                  "retain", "dedup", "rsplit", "rchunks")


def r3(ctx):
    rule = "C01.R3"
    ctx.rule(rule, "one field order: the generator hands the same field slice to the read_seq emitter, the write_seq emitter and "
                   "the constant emitter, and the two emitters walk it with a plain forward iteration")
    P = ctx.program()
    try:
        b = P.one("asn1rs_model", "AsnDefWriter::write_sequence_or_set_constraint")
    except KeyError as e:
        ctx.fail(rule, "anchor-lost:write_sequence_or_set_constraint", str(e))
        return
    O = X.Origins(b, P)
    want = {"write_sequence_or_set_constraint_read_fn": 3, "write_sequence_or_set_constraint_write_fn": 3,
            "write_sequence_constraint_insert_consts": 2}
    got = {}
    for cs in b.calls():
        if cs.name in want:
            args = O.call_args(cs)
            got[cs.name] = (F.rd(args[want[cs.name]]), cs)
    detail = {"function": b.path, "fields_argument": {k: v[0][:160] for k, v in got.items()}}
    if set(got) != set(want):
        ctx.fail(rule, "anchor-lost:emitters", "emitter calls not found: %s" % sorted(set(want) - set(got)), "%s:%d" % (b.file, b.line), detail)
        return
    vals = {v[0] for v in got.values()}
    if len(vals) != 1:
        ctx.fail(rule, "same-slice", "the read emitter, write emitter and constant emitter do not receive the same field slice",
                 got["write_sequence_or_set_constraint_write_fn"][1].loc(), detail)
    else:
        ctx.ok(rule, "same-slice", detail)
    for fn in ("write_sequence_or_set_constraint_read_fn", "write_sequence_or_set_constraint_write_fn"):
        try:
            e = P.one("asn1rs_model", "AsnDefWriter::" + fn)
        except KeyError as ex:
            ctx.fail(rule, "anchor-lost:" + fn, str(ex))
            continue
        calls = [cs for body in [e] + P.closures_of(e) for cs in body.calls()]
        bad = [cs for cs in calls if cs.name in ORDER_CHANGERS]
        iters = [cs for cs in calls if cs.name in ("into_iter", "iter")]
        d = {"function": e.path, "iteration": [X.short(c.callee) for c in iters][:4]}
        if bad:
            ctx.fail(rule, fn + "#order", "%s walks the fields through %s: read and write order can differ" % (fn, bad[0].name), bad[0].loc(), d)
        elif not iters:
            ctx.fail(rule, fn + "#anchor-lost:iteration", "no iteration over the field slice found in " + fn, "%s:%d" % (e.file, e.line), d)
        else:
            ctx.ok(rule, fn + "#order", d)
    # CHOICE: the three emitters enumerate the same variant list
    try:
        c = P.one("asn1rs_model", "AsnDefWriter::write_choice_constraint")
        calls = [cs for body in [c] + P.closures_of(c) for cs in body.calls()]
        en = [cs for cs in calls if cs.name == "enumerate"]
        bad = [cs for cs in calls if cs.name in ORDER_CHANGERS and cs.name not in ("take", "skip", "chain")]
        d = {"function": c.path, "enumerate_calls": len(en)}
        if bad:
            ctx.fail(rule, "choice#order", "write_choice_constraint reorders variants through %s" % bad[0].name, bad[0].loc(), d)
        elif len(en) < 2:
            ctx.fail(rule, "choice#enumerate", "expected the two index-producing CHOICE emitters (to_choice_index, read_content) to use "
                                              "variants().enumerate(); found %d enumerate calls" % len(en), "%s:%d" % (c.file, c.line), d)
        else:
            ctx.ok(rule, "choice#order", d)
    except KeyError as ex:
        ctx.fail(rule, "anchor-lost:write_choice_constraint", str(ex))


# ---------------------------------------------------------------------------------------------- R4
def r4(ctx):
    rule = "C01.R4"
    ctx.rule(rule, "T8-a scope restoration: scope_pushed / scope_stashed of UperWriter and UperReader write the saved scope back on "
                   "every path from the save to a return (including the error path)")
    P = ctx.program()
    n = 0
    for ty in ("UperWriter", "UperReader::<B>"):
        for fn in ("scope_pushed", "scope_stashed"):
            try:
                b = P.one("asn1rs", "rw::uper::%s::%s" % (ty, fn))
            except KeyError as e:
                ctx.fail(rule, "anchor-lost:%s::%s" % (ty, fn), str(e))
                continue
            n += 1
            O = X.Origins(b, P)
            saves = [cs for cs in b.calls() if cs.name in ("replace", "take") and cs.args and "scope" in X.render(O.call_args(cs)[0])]
            if not saves:
                ctx.fail(rule, "%s::%s#anchor-lost:save" % (ty, fn), "no mem::replace / take of self.scope found", "%s:%d" % (b.file, b.line))
                continue
            save = min(saves, key=lambda c: c.bb)
            saved_leaf = "%s@%s" % (X.short(save.callee), save.loc())
            restoring = set()
            for bb, j, s in b.all_statements():
                if s["k"] == "assign" and [p["n"] for p in s["pl"]["p"] if p["k"] == "field"][-1:] == ["scope"]:
                    ex = O.rvalue(s["rv"], bb, j, 0)
                    if saved_leaf in " ".join("%s@%s" % (X.short(e[1]), e[4]) for e in X.walk(ex) if e[0] == "call"):
                        restoring.add(bb)
            for cs in b.calls():
                if cs is not save and cs.name == "replace" and "scope" in X.render(O.call_args(cs)[0]):
                    a1 = O.call_args(cs)[1]
                    if saved_leaf in " ".join("%s@%s" % (X.short(e[1]), e[4]) for e in X.walk(a1) if e[0] == "call"):
                        restoring.add(cs.bb)
            start = save.target
            leak = [r for r in b.return_blocks() if r in b.reach_from(start, avoid=restoring)] if start is not None else []
            detail = {"function": b.path, "save": save.loc(), "restoring_blocks": len(restoring)}
            if leak or not restoring:
                ctx.fail(rule, "%s::%s" % (ty, fn), "a path from the save of self.scope reaches a return without restoring it: a nested "
                                                   "value would leak its presence bitmap into the enclosing one", save.loc(), detail)
            else:
                ctx.ok(rule, "%s::%s" % (ty, fn), detail)
    ctx.floor(rule, n, "C01.R4.functions")


# ---------------------------------------------------------------------------------------------- R5 (shared with C10.R2)
def reads_of(body):
    """local -> number of reads (operands, discriminants, refs, call arguments, switch / assert conditions)"""
    used = {}

    def note(op):
        if isinstance(op, dict) and op.get("k") in ("copy", "move"):
            used[op["pl"]["l"]] = used.get(op["pl"]["l"], 0) + 1

    for bb, j, s in body.all_statements():
        if s["k"] == "assign":
            rv = s["rv"]
            for k in ("op", "l", "r", "a"):
                note(rv.get(k))
            if "pl" in rv:
                used[rv["pl"]["l"]] = used.get(rv["pl"]["l"], 0) + 1
            for o in rv.get("ops", []):
                note(o)
    for i in body.reachable:
        t = body.blocks[i]["term"]
        if not t:
            continue
        if t["k"] == "call":
            for a in t["args"]:
                note(a)
        elif t["k"] == "switch":
            note(t["op"])
        elif t["k"] == "assert":
            note(t["cond"])
    return used


def value_used(body, l, depth=0, seen=None):
    """is the value held in local `l` consumed by anything other than error plumbing and dead copies?"""
    seen = seen if seen is not None else set()
    if l in seen or depth > 8:
        return False
    seen.add(l)
    if l == 0:
        return True
    for i in body.reachable:
        t = body.blocks[i]["term"]
        if not t:
            continue
        if t["k"] == "call":
            for a in t["args"]:
                if a.get("k") in ("copy", "move") and a["pl"]["l"] == l:
                    nm = (t["func"].get("fn") or {}).get("name")
                    if nm == "branch":
                        if value_used(body, t["dest"]["l"], depth + 1, seen):
                            return True
                    elif nm == "from_residual":
                        continue
                    else:
                        return True
        elif t["k"] == "switch" and t["op"].get("k") in ("copy", "move") and t["op"]["pl"]["l"] == l:
            return True
        elif t["k"] == "assert" and t["cond"].get("k") in ("copy", "move") and t["cond"]["pl"]["l"] == l:
            return True
    for bb, j, s in body.all_statements():
        if s["k"] != "assign":
            continue
        rv = s["rv"]
        k = rv["k"]
        if k == "use" and rv["op"].get("k") in ("copy", "move") and rv["op"]["pl"]["l"] == l:
            src = rv["op"]["pl"]
            dc = [p["n"] for p in src["p"] if p["k"] == "downcast"]
            if dc and dc[0] in ("Break", "Err"):
                continue       # error plumbing of `?`
            if s["pl"]["p"]:
                return True    # stored into an aggregate / through a pointer
            if value_used(body, s["pl"]["l"], depth + 1, seen):
                return True
            continue
        if k == "discr" and rv["pl"]["l"] == l:
            continue           # Ok/Err (Continue/Break) test only
        if k in ("ref", "rawptr", "copyderef") and rv["pl"]["l"] == l:
            if value_used(body, s["pl"]["l"], depth + 1, seen) or s["pl"]["p"]:
                return True
            continue
        for kk in ("op", "l", "r", "a"):
            o = rv.get(kk)
            if isinstance(o, dict) and o.get("k") in ("copy", "move") and o["pl"]["l"] == l:
                return True
        for o in rv.get("ops", []):
            if o.get("k") in ("copy", "move") and o["pl"]["l"] == l:
                if s["pl"]["p"] or value_used(body, s["pl"]["l"], depth + 1, seen):
                    return True
    return False


def payload_used(body, cs):
    if cs.dest["p"]:
        return True
    return value_used(body, cs.dest["l"])


def ld_sites(ctx, rule, files, discharged):
    """T4 length-determinant discipline over the bodies defined in `files`"""
    P = ctx.program()
    cnt = [0, 0]
    for b in P.lib_bodies("asn1rs"):
        if "::promoted[" in b.path or "::tests::" in b.path or not any(b.file.endswith(f) for f in files):
            continue
        O = None
        counters = {}
        for cs in b.calls():
            if cs.fn is None or cs.name not in ("write_length_determinant", "read_length_determinant"):
                continue
            if cs.name == "read_length_determinant" and (cs.fn.get("impl_self_ty") or "").split("<")[0].endswith("UperReader") is False \
                    and not (cs.trait or "").endswith("PackedRead"):
                continue
            if O is None:
                O = X.Origins(b, P)
            args = O.call_args(cs)
            lb, ub = F.rd(args[1]), F.rd(args[2])
            # one call whose two bounds were chosen together on two paths (`f(if c {None} else {min}, if c {None} else {max})`)
            # stands for the two calls it merges: evaluate it once per alternative so that site keys (and the findings
            # recorded under them) do not depend on whether the branches share the call
            la, ua = R._alts(lb), R._alts(ub)
            variants = list(zip(la, ua)) if len(la) == len(ua) and len(la) > 1 else [(lb, ub)]
            for lb, ub in variants:
                for _ in ld_one(ctx, rule, b, cs, O, lb, ub, counters, discharged, cnt):
                    pass
    return cnt[0], cnt[1]


def ld_one(ctx, rule, b, cs, O, lb, ub, counters, discharged, cnt):
    P = ctx.program()
    if True:
        if True:
            root = b.root or b.path
            base = "%s#%s(%s, %s)" % (root, cs.name, lb[:40], ub[:40])
            k = counters[base] = counters.get(base, -1) + 1
            key = "%s#%d" % (base, k)
            m = re.match(r"Option::Some\{0: (\d+)\}", ub)
            detail = {"function": b.path, "call": cs.loc(), "bounds": [lb, ub]}
            if m and int(m.group(1)) < 65536:
                ctx.ok(rule, key, dict(detail, reason="constant upper bound below 64K: never fragments"), nontrivial=False)
                return
            if cs.name == "write_length_determinant":
                cnt[0] += 1
                in_loop = cs.target is not None and cs.bb in b.reach_from(cs.target)
                if payload_used(b, cs) and in_loop:
                    # continuation fragments: X.691 11.9.3.8.3 - the encoding ends with a fragment shorter than 16K (possibly
                    # empty), so the loop may only be left after comparing the fragment just announced with 16K
                    leaf = "%s@%s" % (X.short(cs.callee), cs.loc())
                    tested = None
                    for c in F.comparisons(b, O):
                        if c.kind == "b" and c.boundary == 16384 and c.switch_bb is not None and c.switch_bb in b.reach_from(cs.target):
                            if any(e[0] == "call" and "%s@%s" % (X.short(e[1]), e[4]) == leaf
                                   for sd in (c.lex, c.rex) if sd is not None for e in X.walk(sd)):
                                tested = c
                    if tested is None:
                        ctx.fail(rule, key + "#loop-exit", "the continuation loop is not left by comparing the fragment size returned by "
                                                           "write_length_determinant with 16K: a length that is an exact multiple of 16K "
                                                           "loses its terminating (empty) fragment, or the loop does not end with a short "
                                                           "fragment (X.691 11.9.3.8.3)", cs.loc(), detail)
                    else:
                        ctx.ok(rule, key, dict(detail, result="returned fragment size is used and decides the loop exit", exit_test=tested.raw[:120]))
                elif payload_used(b, cs):
                    ctx.ok(rule, key, dict(detail, result="returned fragment size is used"))
                elif key in discharged:
                    ctx.ok(rule, key, dict(detail, reviewed=discharged[key]))
                else:
                    ctx.fail(rule, key, "the fragment size returned by write_length_determinant is dropped: for >= 16384 items only the "
                                        "first fragment is announced and no further length is written", cs.loc(), detail)
            else:
                cnt[1] += 1
                leaf = "%s@%s" % (X.short(cs.callee), cs.loc())
                tested = None
                if b.name == "read_length_determinant" and not cs.dest["p"]:
                    # pass-through wrapper: its callers are the sites
                    ret = [d for d in b.defs.get(0, ()) if d[2] == "assign"]
                    if any(X.render(O.rvalue(d[3], d[0], d[1], 0)).find("read_length_determinant(") >= 0 for d in ret):
                        ctx.ok(rule, key, dict(detail, reason="wrapper returns the value unchanged; its call sites are checked"), nontrivial=False)
                        cnt[1] -= 1
                        return
                for body2 in [b]:
                    for c in F.comparisons(body2, O):
                        if c.kind != "b" or not (2 <= c.boundary <= 16384):
                            continue
                        for side in (c.lex, c.rex):
                            if side is None:
                                continue
                            if any(e[0] == "call" and "%s@%s" % (X.short(e[1]), e[4]) == leaf for e in X.walk(side)):
                                tested = c
                # handed to a callee that validates it (depth 1), or guarded Option (checked_sub)
                if tested is None:
                    for c2 in b.calls():
                        if c2 is cs:
                            continue
                        a2 = O.call_args(c2)
                        for i, a in enumerate(a2):
                            if any(e[0] == "call" and "%s@%s" % (X.short(e[1]), e[4]) == leaf for e in X.walk(a)):
                                if c2.name in ("checked_sub", "checked_add", "checked_mul"):
                                    tested = "bounded by %s" % c2.name
                                t = P.resolve_callee(b.crate, c2)
                                if t is not None:
                                    Ot = X.Origins(t, P)
                                    for c in F.comparisons(t, Ot):
                                        if c.validating and any(e[0] == "param" and e[1] == i + 1 for sd in (c.lex, c.rex) if sd is not None for e in X.walk(sd)):
                                            tested = "validated in %s (%s)" % (X.short(t.path), c.raw)
                if tested is not None:
                    ctx.ok(rule, key, dict(detail, tested=str(tested)[:160]))
                elif key in discharged:
                    ctx.ok(rule, key, dict(detail, reviewed=discharged[key]))
                else:
                    ctx.fail(rule, key, "the value of read_length_determinant is used as a count / size without ever being compared with "
                                        "the 16K fragment boundary: a fragmented encoding (>= 16384 items) is read as a single fragment",
                             cs.loc(), detail)
    return
    yield


def r5(ctx):
    import json
    import os
    from ..core import VERIF
    rule = "C01.R5"
    ctx.rule(rule, "T4 length-determinant discipline in rw/uper.rs: the fragment size returned by write_length_determinant is used, and "
                   "every size read with read_length_determinant in a form that can fragment is compared with the 16K boundary; a "
                   "continuation loop of the writer is left only by comparing the fragment just announced with 16K")
    with open(os.path.join(VERIF, "tables", "discharged_sites.json")) as fh:
        disc = json.load(fh).get("LD", {})
    nw, nr = ld_sites(ctx, rule, ("rw/uper.rs",), disc)
    ctx.floor(rule, nw, "C01.R5.writer_sites")
    ctx.floor(rule, nr, "C01.R5.reader_sites")


def run(ctx):
    r1(ctx)
    r2(ctx)
    r3(ctx)
    r4(ctx)
    r5(ctx)
    # writer and reader consume the presence bitmap under the same conditions (shared with C03)
    from .c03 import r9 as presence_slots
    presence_slots(ctx, rule="C01.R6")
    # the Scope values the two sides build agree field by field and the presence range starts after the extension bit (shared with C03)
    from .c03 import r1 as scope_symmetry
    scope_symmetry(ctx, rule="C01.R7")
    from .c03 import r10 as root_components_counted
    root_components_counted(ctx, rule="C01.R8")
    # the length of an unconstrained INTEGER is a function of the value, not of its magnitude - per branch (shared with C02)
    from .c02 import r3 as minimal_twos_complement
    minimal_twos_complement(ctx, rule="C01.R9")
    # writer and reader of every PER primitive split at the same boundaries (shared with C10)
    from .c10 import r1 as primitive_boundaries
    primitive_boundaries(ctx, rule="C01.R10")

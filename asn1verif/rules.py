"""Rule templates shared between properties (DESIGN.md section 3)."""
import re

from . import expr as X
from . import facts as F
from .mir import span_loc

CODEC_TRAITS = ("BitRead", "BitWrite", "PackedRead", "PackedWrite", "ScopedBitRead", "BasicRead", "BasicWrite",
                "ProtoRead", "ProtoWrite")


# ------------------------------------------------------------------ atoms
def atoms(ex):
    """leaf kinds of an origin expression"""
    out = []
    for e in X.walk(ex):
        k = e[0]
        if k == "param":
            out.append(("param", e[2]))
        elif k == "assoc":
            out.append(("assoc", e[2]))
        elif k in ("call", "callind", "try"):
            if k == "call" and pure_call(e):
                continue
            out.append(("call", X.short(e[1]) if k == "call" else "?"))
        elif k in ("loop", "mutated", "uninit", "unknown", "env", "upvar", "promoted", "constx", "proj?", "mut"):
            out.append((k, ""))
    return out


PURE = ("Option::unwrap_or", "From::from", "Into::into", "Ord::min", "Ord::max", "clone", "Clone::clone",
        "PartialEq::eq", "PartialEq::ne", "Option::is_some", "Option::is_none", "leading_zeros")


def pure_call(e):
    s = X.short(e[1])
    return s in PURE or s.split("::")[-1] in ("leading_zeros", "saturating_sub", "min", "max", "from", "into",
                                              "unwrap_or", "is_some", "is_none", "size_of", "len", "count",
                                              "wrapping_sub", "wrapping_add", "saturating_add", "leading_ones",
                                              "trailing_zeros", "abs_diff")


def only_shared(ex, shared):
    """True if every leaf of `ex` is a constant, an associated constant or a parameter in `shared`"""
    for kind, name in atoms(ex):
        if kind == "param":
            if name not in shared:
                return False
        elif kind == "assoc":
            continue
        else:
            return False
    return True


def desc(ex, shared):
    """descriptor of a constraint argument: canonical text when it depends only on shared
    parameters / constants, '·' (opaque) otherwise"""
    if only_shared(ex, shared):
        return F.rd(ex)
    return "·"


# ------------------------------------------------------------------ T3 sibling boundaries
def shared_comparisons(body, O, shared):
    out = {}
    for c in F.comparisons(body, O):
        if c.validating:
            continue
        if c.lex is not None and not only_shared(c.lex, shared):
            continue
        if c.rex is not None and not only_shared(c.rex, shared):
            continue
        out.setdefault(c.key(), []).append(c)
    return out


def shared_eq_calls(body, O, shared):
    out = {}
    for cs in body.calls():
        if cs.name in ("eq", "ne") and cs.trait and cs.trait.endswith("PartialEq"):
            args = O.call_args(cs)
            if len(args) == 2 and all(only_shared(a, shared) for a in args):
                pair = tuple(sorted((F.rd(args[0]), F.rd(args[1]))))
                out.setdefault(pair, []).append(cs)
    return out


def shared_tests(body, O, shared):
    """switch discriminants that depend only on shared parameters (is_some tests, bool flags)"""
    out = {}
    for bb, t in body.switches():
        ex = O.switch_cond(bb)
        ex = F.strip_casts(ex)
        while ex[0] == "un" and ex[1] == "Not":
            ex = F.strip_casts(ex[2])
        if ex[0] == "phi":
            continue
        if ex[0] == "bin":
            continue
        if ex[0] == "call":
            # `x.is_some()` / `x.is_none()` on a shared parameter is the discriminant test of x
            if X.last_seg(ex[1] or "") in ("is_some", "is_none", "is_ok", "is_err") and len(ex[3]) == 1:
                a = ex[3][0]
                while a[0] in ("ref", "deref", "mut"):
                    a = a[1]
                ex = ("discr", a)
            else:
                continue
        # only tests of the shared values themselves: a test of a value *built* from them (`let r = match (lo, hi) {..}; if let
        # Some(..) = r`) repeats decisions that were already taken
        base = ex
        while base[0] in ("discr", "field", "downcast", "ref", "deref", "mut"):
            base = base[1]
        if base[0] in ("phi", "agg", "call", "bin", "un", "unwrap_or"):
            continue
        if only_shared(ex, shared) and atoms(ex):
            out.setdefault(F.rd(ex), []).append(span_loc(t["sp"]))
    return out


def compare_sibling_boundaries(ctx, rule, name, wbody, rbody, shared, extra_ok=()):
    """T3-a: form-selecting comparisons over shared parameters must agree between siblings"""
    Ow, Or = X.Origins(wbody, ctx.program()), X.Origins(rbody, ctx.program())
    cw, cr = shared_comparisons(wbody, Ow, shared), shared_comparisons(rbody, Or, shared)
    ew, er = shared_eq_calls(wbody, Ow, shared), shared_eq_calls(rbody, Or, shared)
    tw, tr = shared_tests(wbody, Ow, shared), shared_tests(rbody, Or, shared)
    detail = {
        "writer": wbody.path, "reader": rbody.path, "shared_parameters": sorted(shared),
        "boundaries": sorted("%s%s %s %s" % (k[0], (" - " + k[1]) if k[1] else "", "|" if k[2] == "b" else "==", k[3])
                             for k in set(cw) | set(cr)),
        "equalities": sorted(" == ".join(p) for p in set(ew) | set(er)),
        "tests": sorted(set(tw) | set(tr)),
    }
    bad = False
    for k in sorted(set(cw) ^ set(cr), key=str):
        if k in extra_ok:
            continue
        side, other = ("writer", "reader") if k in cw else ("reader", "writer")
        c = (cw.get(k) or cr.get(k))[0]
        ctx.fail(rule, "%s#cmp:%s%s%s%s" % (name, k[0], "-" + k[1] if k[1] else "", "|" if k[2] == "b" else "==", k[3]),
                 "comparison `%s` (boundary %s on %s%s) exists only in the %s; the %s has no test with this boundary"
                 % (c.raw, k[3], k[0], (" - " + k[1]) if k[1] else "", side, other), c.loc, detail)
        bad = True
    for p in sorted(set(ew) ^ set(er)):
        side = "writer" if p in ew else "reader"
        cs = (ew.get(p) or er.get(p))[0]
        ctx.fail(rule, "%s#eq:%s==%s" % (name, p[0], p[1]),
                 "equality test %s == %s exists only in the %s" % (p[0], p[1], side), cs.loc(), detail)
        bad = True
    for t in sorted(set(tw) ^ set(tr)):
        side = "writer" if t in tw else "reader"
        loc = (tw.get(t) or tr.get(t))[0]
        ctx.fail(rule, "%s#test:%s" % (name, t), "`%s` is tested only in the %s" % (t, side), loc, detail)
        bad = True
    if not bad:
        ctx.ok(rule, name, detail, nontrivial=bool(cw or ew or tw))
    return detail


# ------------------------------------------------------------------ T2 codec skeletons
VALUE_PARAMS = {"value", "src", "dst", "index", "boolean", "bit", "len", "offset", "self", "f", "slice",
                "enumerated", "choice", "_value", "bit_len_value"}


def norm_method(name):
    for p in ("write_tagged_", "write_", "read_"):
        if name.startswith(p):
            return name[len(p):]
    return name


def norm_param(name):
    for p in ("src_", "dst_"):
        if name.startswith(p):
            return name[len(p):]
    return name


def trait_params(program, trait_suffix, method):
    for tpath, t in program.traits.items():
        if tpath.endswith(trait_suffix):
            for it in t["items"]:
                if it["name"] == method and "params" in it:
                    return it["params"]
    return None


BIT_XFER = {"bits", "bits_with_offset", "bits_with_len", "bits_with_offset_len"}


_TWIN_CACHE = {}


def constraint_params(program, trait, method):
    """normalised names of the parameters a codec method shares with its read/write twin"""
    key = (trait, method)
    if key in _TWIN_CACHE:
        return _TWIN_CACHE[key]
    tshort = trait.split("::")[-1]
    twin_trait = {"BitRead": "BitWrite", "BitWrite": "BitRead", "PackedRead": "PackedWrite",
                  "PackedWrite": "PackedRead", "BasicRead": "BasicWrite", "BasicWrite": "BasicRead",
                  "ProtoRead": "ProtoWrite", "ProtoWrite": "ProtoRead"}.get(tshort)
    mine = trait_params(program, trait, method) or []
    res = None
    if twin_trait:
        twin_m = ("read_" + method[6:]) if method.startswith("write_") else ("write_" + method[5:])
        for tpath in program.traits:
            if tpath.split("::")[-1] == twin_trait:
                theirs = trait_params(program, tpath, twin_m)
                if theirs is not None:
                    res = {norm_param(p) for p in mine} & {norm_param(p) for p in theirs}
                    res -= {"self", "src", "dst"}
    _TWIN_CACHE[key] = res
    return res


def codec_call_desc(program, cs, args, shared, subst=None):
    """(normalised method, ((param, descriptor)…)) for a call to a codec trait method, else None"""
    if cs.fn is None or not cs.trait:
        return None
    tshort = cs.trait.split("::")[-1]
    if tshort not in CODEC_TRAITS:
        return None
    m = norm_method(cs.name)
    params = trait_params(program, cs.trait, cs.name) or []
    cparams = constraint_params(program, cs.trait, cs.name)
    items = []
    for pname, a in zip(params, args):
        pn = norm_param(pname)
        if cparams is not None:
            if pn not in cparams:
                continue
        elif pn in VALUE_PARAMS or pname in VALUE_PARAMS:
            continue
        if subst:
            a = substitute(a, subst)
        items.append((pn, desc(a, shared)))
    if m in BIT_XFER:
        # raw bit transfers: only a constant, non-zero bit offset is part of the skeleton
        off = [d for p, d in items if p == "bit_offset" and d not in ("·", "0")]
        return ("bits", tuple(("bit_offset", d) for d in off))
    return (m, tuple(items))


def substitute(ex, subst):
    """replace ('param', i, name) leaves by expressions of `subst` (name -> expr)"""
    k = ex[0]
    if k == "param":
        return subst.get(ex[2], ex)
    if k in ("field", "deref", "ref", "downcast", "discr", "mut", "try"):
        return (k, substitute(ex[1], subst)) + tuple(ex[2:])
    if k == "bin":
        return ("bin", ex[1], substitute(ex[2], subst), substitute(ex[3], subst)) + tuple(ex[4:])
    if k == "un":
        return ("un", ex[1], substitute(ex[2], subst))
    if k == "cast":
        return ("cast", ex[1], substitute(ex[2], subst)) + tuple(ex[3:])
    if k == "call":
        return ("call", ex[1], ex[2], tuple(substitute(a, subst) for a in ex[3])) + tuple(ex[4:])
    if k == "agg":
        return ("agg", ex[1], ex[2], ex[3], tuple((n, substitute(e, subst)) for n, e in ex[4]))
    if k == "phi":
        return X.mk_phi(tuple(substitute(a, subst) for a in ex[1]))
    if k == "unwrap_or":
        return ("unwrap_or", substitute(ex[1], subst), substitute(ex[2], subst))
    if k == "index":
        return ("index", substitute(ex[1], subst), substitute(ex[2], subst))
    return ex


def closure_captures(P, parent, closure):
    """index of a captured variable -> its origin in the creating function"""
    O = X.Origins(parent, P)
    for bb, j, st in parent.all_statements():
        if st["k"] == "assign" and st["rv"]["k"] == "agg" and st["rv"].get("ak") == "closure" and \
                (st["rv"]["def"] == closure.path or closure.path.endswith(st["rv"]["def"])):
            return {i: O.operand(o, bb, j) for i, o in enumerate(st["rv"]["ops"])}
    return {}


OPTION_ARG_COMBINATORS = ("map", "and_then", "map_or", "map_or_else", "filter", "is_some_and", "inspect", "for_each", "take_while",
                          "skip_while", "any", "all", "find", "position", "filter_map", "flat_map")


def closure_bindings(P, closure, depth=0):
    """what a closure body's captured variables and its first argument stand for, in terms of the function that (transitively)
    created it: ({capture index: expr}, {parameter local: expr}).  `opt.map(|x| ..)` binds x to the payload of `opt`."""
    if "::{closure#" not in closure.path or depth > 4:
        return {}, {}
    cache = P.__dict__.setdefault("_closure_bindings", {})
    if closure.key in cache:
        return cache[closure.key]
    res = _closure_bindings(P, closure, depth)
    cache[closure.key] = res
    return res


def _closure_bindings(P, closure, depth):
    ppath = closure.parent or closure.path.rsplit("::{closure#", 1)[0]
    parent = P.bodies.get("%s::%s" % (closure.crate, ppath))
    if parent is None:
        return {}, {}
    O = X.Origins(parent, P)
    caps, params = {}, {}
    for bb, j, st in parent.all_statements():
        if st["k"] == "assign" and st["rv"]["k"] == "agg" and st["rv"].get("ak") == "closure" and st["rv"]["def"] == closure.path:
            caps = {i: O.operand(o, bb, j) for i, o in enumerate(st["rv"]["ops"])}
    for cs in parent.calls():
        args = O.call_args(cs)
        for i, a in enumerate(args):
            if i > 0 and a[0] == "agg" and a[1] == "closure" and a[2] == closure.path and cs.name in OPTION_ARG_COMBINATORS:
                recv = args[0]
                ty = (cs.term.get("argtys") or [""])[0]
                if "Option<" in ty.split("::")[-1] or "option::Option" in ty:
                    params[2] = X.some_payload(recv)
    if "::{closure#" in parent.path:
        pc, pp = closure_bindings(P, parent, depth + 1)

        def up(e):
            marked = substitute_params_by_index(e, {i: ("bound", x) for i, x in pp.items()})
            out = resolve_upvars(marked, pc)

            def unmark(z):
                if not isinstance(z, tuple) or not z:
                    return z
                if z[0] == "bound":
                    return z[1]
                return tuple(unmark(x) if isinstance(x, tuple) else x for x in z)
            return unmark(out)
        caps = {i: up(e) for i, e in caps.items()}
        params = {i: up(e) for i, e in params.items()}
    return caps, params


def substitute_params_by_index(ex, binding):
    if not isinstance(ex, tuple) or not ex:
        return ex
    if ex[0] == "param" and ex[1] in binding:
        return binding[ex[1]]
    return tuple(substitute_params_by_index(x, binding) if isinstance(x, tuple) else x for x in ex)


def in_root_terms(P, closure, ex):
    """an origin expression of a closure body rewritten over the values of the function that created the closure"""
    caps, params = closure_bindings(P, closure)
    # the closure's own parameters first (they are in the closure's terms), then its captures (which bring in the creator's)
    marked = substitute_params_by_index(ex, {i: ("bound", e) for i, e in params.items()})
    out = resolve_upvars(marked, caps)

    def unmark(e):
        if not isinstance(e, tuple) or not e:
            return e
        if e[0] == "bound":
            return e[1]
        return tuple(unmark(x) if isinstance(x, tuple) else x for x in e)
    return unmark(out)


def has_upvar(ex):
    return any(e[0] == "upvar" for e in X.walk(ex))


def resolve_upvars(ex, caps):
    """replaces ('upvar', i, name) leaves by the captured origins"""
    if not isinstance(ex, tuple) or not ex:
        return ex
    if ex[0] == "upvar":
        c = caps.get(ex[1])
        if c is not None:
            while c[0] in ("ref", "deref"):
                c = c[1]
            return c
        return ex
    return tuple(resolve_upvars(x, caps) if isinstance(x, tuple) else x for x in ex)


# ------------------------------------------------------------------ fact sets of a function (for tables)
def positional(ex):
    """renames parameters to `$<MIR local index>` so that table entries survive parameter renames"""
    k = ex[0]
    if k == "param":
        return ("param", ex[1], "$%d" % ex[1])
    if k in ("field", "deref", "ref", "downcast", "discr", "mut", "try"):
        return (k, positional(ex[1])) + tuple(ex[2:])
    if k == "bin":
        return ("bin", ex[1], positional(ex[2]), positional(ex[3])) + tuple(ex[4:])
    if k == "un":
        return ("un", ex[1], positional(ex[2]))
    if k == "cast":
        return ("cast", ex[1], positional(ex[2])) + tuple(ex[3:])
    if k == "call":
        return ("call", ex[1], ex[2], tuple(positional(a) for a in ex[3])) + tuple(ex[4:])
    if k == "agg":
        return ("agg", ex[1], ex[2], ex[3], tuple((n, positional(e)) for n, e in ex[4]))
    if k == "phi":
        return X.mk_phi(tuple(positional(a) for a in ex[1]))
    if k == "unwrap_or":
        return ("unwrap_or", positional(ex[1]), positional(ex[2]))
    if k == "index":
        return ("index", positional(ex[1]), positional(ex[2]))
    return ex


class FnFacts:
    """comparison boundaries, codec calls and literal arithmetic of one function including its closures"""

    def __init__(self, program, body, include_closures=True, follow_helpers=True):
        self.body = body
        self.cmps = {}      # "lhs|rhs|kind|boundary" -> [Cmp]
        self.calls = {}     # "method(p=d, …)" -> [CallSite]
        self.allcalls = {}  # "short callee(args)" -> [CallSite]
        self.constops = {}  # "Op const" -> [loc]
        self.aggs = {}      # "Adt::Variant" -> [loc]
        bodies = [body] + (program.closures_of(body) if include_closures else [])
        self.bodies = bodies
        for b in bodies:
            O = X.Origins(b, program)
            for c in F.comparisons(b, O):
                lhs = F.rd(positional(c.lex)) if c.lex is not None else ""
                rhs = F.rd(positional(c.rex)) if c.rex is not None else ""
                # orientation may differ from the name based one: recompute canonical order
                if rhs and rhs < lhs:
                    lhs, rhs = rhs, lhs
                    bnd = (-c.boundary + 1) if c.kind == "b" else -c.boundary
                else:
                    bnd = c.boundary
                if (c.rhs and c.rhs < c.lhs):
                    pass
                # c.boundary is relative to (c.lhs, c.rhs) ordering by *named* rendering; redo from scratch
                k = cmp_key_positional(c)
                self.cmps.setdefault(k, []).append(c)
            for cs in b.calls():
                args0 = O.call_args(cs)
                variants = [args0]
                if b is not body and any(has_upvar(a) for a in args0):
                    # what a closure captured is a value of the creating function: the call is recorded in the closure's
                    # terms (`^name`) and in the creator's
                    variants.append([in_root_terms(program, b, a) if has_upvar(a) else a for a in args0])
                for args in variants:
                    pargs = [positional(a) for a in args]
                    d = codec_call_desc(program, cs, pargs, ALL)
                    if d is not None:
                        k = "%s(%s)" % (d[0], ", ".join("%s=%s" % kv for kv in d[1]))
                        if cs not in self.calls.get(k, ()):
                            self.calls.setdefault(k, []).append(cs)
                    if cs.fn is not None:
                        nm = X.short(cs.callee)
                        if nm in ("cmp::min", "cmp::max"):
                            nm = "Ord::" + nm[5:]        # the free functions are Ord::min / Ord::max
                        k = "%s(%s)" % (nm, ", ".join(F.rd(a) for a in pargs))
                        if cs not in self.allcalls.get(k, ()):
                            self.allcalls.setdefault(k, []).append(cs)
            for (op, c, pos), locs in F.const_ops(b, O).items():
                self.constops.setdefault("%s %d" % (op, c), []).extend(locs)
            for bb, j, st in b.all_statements():
                if st["k"] == "assign" and st["rv"]["k"] == "agg" and st["rv"].get("ak") == "adt":
                    rv = st["rv"]
                    self.aggs.setdefault("%s::%s" % (rv["adt"].split("::")[-1], rv["variant"]), []).append(span_loc(st["sp"]))
            if follow_helpers:
                self._merge_helpers(program, b, O)

    def _merge_helpers(self, program, b, O):
        """facts of private free helper functions of the same file that `b` calls (one level), over b's own values: what an
        `extract function` refactoring moved out of `b` still counts as done by `b`"""
        for cs in b.calls():
            if cs.fn is None or not cs.is_local or cs.trait or cs.fn.get("kind") not in ("Fn", "AssocFn"):
                continue
            t = program.resolve_callee(b.crate, cs)
            if t is None or t.key == self.body.key or t.file != b.file or t.def_kind not in ("Fn", "AssocFn"):
                continue
            if (t.impl_trait or ""):
                continue
            pargs = [positional(a) for a in O.call_args(cs)]
            pn = t.param_names()
            sub = {pn[i + 1]: a for i, a in enumerate(pargs) if pn.get(i + 1)}
            Ot = X.Origins(t, program)
            for c2 in t.calls():
                if c2.fn is None:
                    continue
                a2 = [substitute(x, sub) for x in Ot.call_args(c2)]
                d = codec_call_desc(program, c2, a2, ALL)
                if d is not None:
                    self.calls.setdefault("%s(%s)" % (d[0], ", ".join("%s=%s" % kv for kv in d[1])), []).append(c2)
                nm = X.short(c2.callee)
                if nm in ("cmp::min", "cmp::max"):
                    nm = "Ord::" + nm[5:]
                self.allcalls.setdefault("%s(%s)" % (nm, ", ".join(F.rd(x) for x in a2)), []).append(c2)
            for (op, c, pos), locs in F.const_ops(t, Ot).items():
                self.constops.setdefault("%s %d" % (op, c), []).extend(locs)
            for c in F.comparisons(t, Ot):
                if c.lex is None:
                    continue
                c2 = F.normalise_cmp("Lt", substitute(c.lex, sub), substitute(c.rex, sub) if c.rex is not None else ("const", 0, "usize", None))
                if c2 is None:
                    continue
                same = c.rex is None or ((F.rd(c2.lex) <= F.rd(c2.rex)) == (c.lhs <= c.rhs))
                c2.kind = c.kind
                c2.boundary = c.boundary if same else ((-c.boundary + 1) if c.kind == "b" else -c.boundary)
                if c.rex is None:
                    c2.rex, c2.rhs = None, ""
                c2.validating, c2.switch_bb, c2.loc, c2.raw, c2.op, c2.dest, c2.nop = c.validating, None, c.loc, c.raw, c.op, None, c.nop
                self.cmps.setdefault(cmp_key_positional(c2), []).append(c2)


class _All:
    def __contains__(self, x):
        return True


ALL = _All()


def cmp_key_positional(c):
    """key of a Cmp with positional parameter names: 'lhs|rhs|kind|boundary'"""
    return cmp_key_oriented(c)[0]


def cmp_key_oriented(c):
    """(key, swapped): the key orders its two operands by their rendering; `swapped` says the operands of the comparison
    were exchanged for the key (and the boundary mirrored), so that an outcome 'below' of the comparison as written is
    'at-or-above' of the key as printed"""
    la = F.rd(positional(c.lex)) if c.lex is not None else ""
    lb = F.rd(positional(c.rex)) if c.rex is not None else ""
    bnd = c.boundary
    swapped = bool(getattr(c, "flipped", False))
    if lb and lb < la:
        la, lb = lb, la
        bnd = (-bnd + 1) if c.kind == "b" else -bnd
        swapped = (not swapped) if c.kind == "b" else swapped
    return "%s|%s|%s|%d" % (la, lb, c.kind, bnd), swapped


# ------------------------------------------------------------------ T3-b / T3-c standards tables
def _arg_match(ff, spec):
    callee, n = spec.split("#")
    for k in ff.allcalls:
        if k.startswith(callee + "(") or ("::" + callee + "(") in k:
            inner = k[k.index("(") + 1:-1]
            if n in [a.strip() for a in inner.split(",")]:
                return True
    return False


def _split_args(inner):
    out, depth, cur = [], 0, ""
    for ch in inner:
        if ch in "({[":
            depth += 1
        elif ch in ")}]":
            depth -= 1
        if ch == "," and depth == 0:
            out.append(cur.strip())
            cur = ""
        else:
            cur += ch
    if cur.strip():
        out.append(cur.strip())
    return out


def _alts(desc):
    """alternatives of one argument descriptor: `phi{A | B}` -> [A, B]"""
    d = desc.strip()
    if d.startswith("phi{") and d.endswith("}"):
        return [x.strip() for x in _split_args(d[4:-1].replace(" | ", ","))]
    return [d]


def _call_alternatives_match(ff, spec):
    """a codec call whose arguments are chosen together on two paths and merged (`f(if c {a} else {b})`) shows one call with
    `phi{a | b}` arguments; the table fact `f(p=a, q=c)` is present when every named argument is one of the alternatives"""
    if "(" not in spec:
        return False
    name, inner = spec.split("(", 1)
    want = dict(kv.split("=", 1) for kv in _split_args(inner[:-1]) if "=" in kv)
    for k in ff.calls:
        if not k.startswith(name + "(") or "phi{" not in k:
            continue
        have = dict(kv.split("=", 1) for kv in _split_args(k[len(name) + 1:-1]) if "=" in kv)
        if set(have) == set(want) and all(want[p] in _alts(have[p]) for p in want):
            return True
    return False


def fact_present(ff, fact):
    kind, spec = fact.split(":", 1)
    if kind == "cmp":
        specs = [spec]
        # a zero test of an unsigned value is recorded as the boundary fact `x < 1` (facts.normalise_cmp): a table written
        # as `x == 0` means the same thing
        if spec.endswith("||eq|0"):
            specs.append(spec[:-len("eq|0")] + "b|1")
        for sp in specs:
            if sp.startswith("*|"):
                if any(k.endswith(sp[1:]) for k in ff.cmps):
                    return True
            elif sp in ff.cmps:
                return True
        return False
    if kind == "call":
        if spec in ff.calls:
            return True
        return _call_alternatives_match(ff, spec)
    if kind == "cop":
        return spec in ff.constops
    if kind == "arg":
        return _arg_match(ff, spec)
    if kind == "any":
        rx = re.compile(spec)
        return any(rx.search(k) for k in ff.allcalls)
    if kind == "agg":
        return spec in ff.aggs
    raise ValueError("bad table fact " + fact)


def near_variants(fact):
    """the same fact with its last integer literal moved by +-1, +-2 (off-by-one detection)"""
    kind, spec = fact.split(":", 1)
    if kind in ("any", "agg"):
        return []
    ms = list(re.finditer(r"(?<![A-Za-z_$\d])-?\d+", spec))
    if kind == "cmp":
        ms = ms[-1:]   # the boundary
    out = []
    for m in ms:
        n = int(m.group(0))
        if kind != "cmp" and abs(n) < 3 and kind != "arg":
            # tiny literals (bit offsets 1/2/4, +-1): neighbours are other legitimate values
            continue
        for d in (-2, -1, 1, 2):
            out.append("%s:%s%d%s" % (kind, spec[:m.start()], n + d, spec[m.end():]))
    return out


def check_table(ctx, rule, near_rule, table, crate="asn1rs"):
    P = ctx.program()
    allow = {(a["fn"], a["fact"]) for a in table.get("allow_near", [])}
    n = 0
    cache = {}
    for e in table["entries"]:
        bodies = P.find(crate, e["fn"])
        bodies = [b for b in bodies if b.def_kind in ("Fn", "AssocFn")]
        if len(bodies) != 1:
            ctx.fail(rule, "anchor-lost:" + e["fn"], "table entry %s: function …%s matched %d bodies" % (e["id"], e["fn"], len(bodies)))
            continue
        b = bodies[0]
        ff = cache.get(b.key)
        if ff is None:
            ff = cache[b.key] = FnFacts(P, b)
        missing = [f for f in e.get("all", []) if not fact_present(ff, f)]
        anyf = e.get("any")
        if anyf and not any(fact_present(ff, f) for f in anyf):
            missing.append(" or ".join(anyf))
        detail = {"entry": e["id"], "clause": "X.691 " + e["clause"] if not e["clause"].startswith("X.") else e["clause"],
                  "function": b.path, "why": e["why"], "required": e.get("all", []) + ([{"any": anyf}] if anyf else []),
                  "cmps": sorted(ff.cmps)[:12], "calls": sorted(ff.calls)[:12], "constops": sorted(ff.constops)[:12]}
        if missing:
            for m in missing:
                ctx.fail(rule, "%s#missing:%s" % (e["id"], m),
                         "%s (%s) requires fact `%s` in %s; it is not present in the current tree" % (
                             e["clause"], e["why"], m, X.short(b.path)), "%s:%d" % (b.file, b.line), detail)
        else:
            ctx.ok(rule, e["id"], detail)
        n += 1
        # near misses
        nm_found = False
        for f in e.get("all", []) + (anyf or []):
            for v in near_variants(f):
                if fact_present(ff, v) and not fact_present_exact_in_entry(e, v):
                    kind, spec = v.split(":", 1)
                    if (e["fn"], spec) in allow:
                        continue
                    loc = "?"
                    if kind == "cmp" and spec in ff.cmps:
                        loc = ff.cmps[spec][0].loc
                    elif kind == "call" and spec in ff.calls:
                        loc = ff.calls[spec][0].loc()
                    elif kind == "cop" and spec in ff.constops:
                        loc = ff.constops[spec][0]
                    ctx.fail(near_rule, "%s#near:%s" % (e["id"], v),
                             "fact `%s` in %s is within +-2 of the %s value `%s` without being equal to it" % (
                                 v, X.short(b.path), e["clause"], f), loc, detail)
                    nm_found = True
        if not nm_found:
            ctx.ok(near_rule, e["id"] + "#near", {"entry": e["id"], "variants_checked": sum(len(near_variants(f)) for f in e.get("all", []))},
                   nontrivial=False)
    return n


def fact_present_exact_in_entry(e, v):
    return v in e.get("all", []) or v in (e.get("any") or [])


# ------------------------------------------------------------------ match tables (T7)
def adt_of(P, crate, ty):
    """ADT facts for a (possibly reference / generic) type string"""
    from .taint import base_type
    bt = base_type(ty)
    for cand in (crate + "::" + bt, bt):
        if cand in P.adts:
            return P.adts[cand]
    last = bt.split("::")[-1]
    cands = [k for k in P.adts if k.split("::")[-1] == last and k.split("::")[0] == bt.split("::")[0]]
    if len(cands) == 1:
        return P.adts[cands[0]]
    # std enums used in matches
    if bt.endswith("option::Option"):
        return {"variants": [{"name": "None", "discr": "0", "fields": []}, {"name": "Some", "discr": "1", "fields": []}]}
    if bt.endswith("result::Result"):
        return {"variants": [{"name": "Ok", "discr": "0", "fields": []}, {"name": "Err", "discr": "1", "fields": []}]}
    return None


class Arm:
    __slots__ = ("path", "target", "switch_bb", "blocks")


def match_tables(P, body, O=None):
    """all `match` arms on enum discriminants in a body: list of Arm(path=((scrutinee, variant), …), target block, region)"""
    O = O or X.Origins(body, P)
    switches = []
    for bb, t in body.switches():
        n = len(body.blocks[bb]["stmts"])
        ex = O.operand(t["op"], bb, n)
        e = ex
        while e[0] in ("cast",):
            e = e[2]
        if e[0] != "discr":
            continue
        # type of the scrutinee: from the discriminant statement
        of = None
        for j, s in enumerate(body.blocks[bb]["stmts"]):
            if s["k"] == "assign" and s["rv"]["k"] == "discr":
                of = s["rv"].get("of")
        if of is None:
            for d in body.defs.get(t["op"]["pl"]["l"], ()) if t["op"]["k"] in ("copy", "move") else ():
                if d[2] == "assign" and d[3]["k"] == "discr":
                    of = d[3].get("of")
        adt = adt_of(P, body.crate, of or "")
        if adt is None:
            continue
        by_discr = {v["discr"]: v["name"] for v in adt["variants"]}
        arms = {}
        for val, tgt in zip(t["vals"], t["targets"]):
            arms.setdefault(tgt, []).append(by_discr.get(val, "#" + val))
        listed = {by_discr.get(v) for v in t["vals"]}
        rest = [v["name"] for v in adt["variants"] if v["name"] not in listed]
        ot = t["otherwise"]
        term_o = body.blocks[ot]["term"]
        if rest and not (term_o and term_o["k"] == "unreachable"):
            arms.setdefault(ot, []).extend(rest)
        switches.append((bb, F.rd(positional(e[1])), arms))
    # dominance regions
    out = []
    for bb, scrut, arms in switches:
        for tgt, variants in arms.items():
            region = {b for b in body.reachable if body.dominates(tgt, b)} if len(body.pred[tgt]) == 1 or all(
                p == bb for p in body.pred[tgt]) else {tgt}
            for v in variants:
                a = Arm()
                a.path = ((scrut, v),)
                a.target = tgt
                a.switch_bb = bb
                a.blocks = region
                out.append(a)
    # nesting: prefix arms whose switch lies in another arm's region
    changed = True
    guard = 0
    while changed and guard < 6:
        changed = False
        guard += 1
        for a in out:
            for b in out:
                if a is b or b.switch_bb == a.switch_bb:
                    continue
                if a.switch_bb in b.blocks and b.path[0] not in a.path and len(b.path) == 1 and a.path[0] != b.path[0]:
                    if (b.path + a.path) != a.path and not any(p == b.path[0] for p in a.path):
                        a.path = b.path + a.path
                        changed = True
    return out


def arm_effects(P, body, arm, O=None):
    """named constants, constructed variants and calls inside the arm's region (excluding nested arms' own regions is left
    to the caller)"""
    O = O or X.Origins(body, P)
    consts, aggs, calls, lits = [], [], [], []
    for bb in sorted(arm.blocks):
        for j, s in enumerate(body.blocks[bb]["stmts"]):
            if s["k"] != "assign":
                continue
            rv = s["rv"]
            ops = [rv.get(k) for k in ("op", "l", "r", "a")] + list(rv.get("ops", []))
            for o in ops:
                if isinstance(o, dict) and o.get("k") == "const":
                    if o.get("path") and not o.get("promoted"):
                        consts.append(o["path"].split("::")[-1])
                    elif "val" in o and o.get("ty") not in ("bool",):
                        lits.append(int(o["val"]))
            if rv["k"] == "agg" and rv.get("ak") == "adt":
                aggs.append("%s::%s" % (rv["adt"].split("::")[-1], rv["variant"]))
        t = body.blocks[bb]["term"]
        if t and t["k"] == "call":
            fn = t["func"].get("fn")
            if fn:
                calls.append(X.short(fn.get("resolved") or fn["def"]))
            for o in t["args"]:
                if o.get("k") == "const" and o.get("path") and not o.get("promoted"):
                    consts.append(o["path"].split("::")[-1])
    return {"consts": consts, "aggs": aggs, "calls": calls, "lits": lits}


def int_switch_tables(P, body, O=None):
    """switches on integer values (not enum discriminants): list of (switch_bb, scrutinee descriptor, {value: effects})"""
    O = O or X.Origins(body, P)
    out = []
    for bb, t in body.switches():
        n = len(body.blocks[bb]["stmts"])
        ex = O.operand(t["op"], bb, n)
        e = ex
        while e[0] == "cast":
            e = e[2]
        if e[0] == "discr" or t.get("opty") == "bool":
            continue
        if len(t["vals"]) < 2:
            continue
        table = {}
        for val, tgt in zip(t["vals"], t["targets"]):
            a = Arm()
            a.path = ((F.rd(positional(ex)), val),)
            a.target = tgt
            a.switch_bb = bb
            a.blocks = {b for b in body.reachable if body.dominates(tgt, b)} if all(p == bb for p in body.pred[tgt]) else {tgt}
            table[int(val)] = arm_effects(P, body, a, O)
        out.append((bb, F.rd(positional(ex)), table))
    return out


# ---------------------------------------------------------------------------------------------------------------------
# path conditions and selector bits
def path_conditions(body, O, bb):
    """Two-way switches that decide whether block `bb` runs, outermost first:
    [(switch block, condition origin with negations removed, truth value of that origin on the way to bb)]"""
    out = []
    for s, t in body.switches():
        if s == bb or not body.dominates(s, bb) or len(t["vals"]) != 1:
            continue
        zero_t, other_t = t["targets"][0], t["otherwise"]
        if int(t["vals"][0]) != 0:
            zero_t, other_t = other_t, zero_t
        rz = bb in body.reach_from(zero_t, avoid=(s,))
        ro = bb in body.reach_from(other_t, avoid=(s,))
        if rz == ro:
            continue
        ex = O.switch_cond(s)
        val = ro
        while True:
            if ex[0] == "un" and ex[1] == "Not":
                ex = ex[2]
                val = not val
            elif ex[0] == "cast":
                ex = ex[2]
            else:
                break
        out.append((s, ex, val))
    out.sort(key=lambda x: len(body.dom.get(x[0], ())))
    return out


def _is_read_bit(ex):
    while ex[0] in ("try", "mut"):
        ex = ex[1]
    return ex[0] == "call" and X.last_seg(ex[1] or "") == "read_bit"


def selector_prefix(P, body, O, cs, side):
    """Selector bits that precede the codec call `cs` on every path to it (X.691 writes a constant bit pattern in front of
    each alternative form of an encoding): for a writer the `write_bit(c)` calls dominating the call, c a constant or the
    value of a dominating branch condition; for a reader the dominating branches on the result of `read_bit()`.
    Returns a string over {0,1,?}."""
    conds = path_conditions(body, O, cs.bb)
    if side == "reader":
        return "".join("1" if v else "0" for s, ex, v in conds if _is_read_bit(ex))
    known = {}
    for s, ex, v in conds:
        known[X.render(X.strip(ex))] = v
    bits = []
    for c in body.calls():
        if c.name != "write_bit" or c is cs or not c.args:
            continue
        if c.bb == cs.bb or not body.dominates(c.bb, cs.bb):
            continue
        # the call must lie on every path: its continuation dominates cs as well
        a = O.call_args(c)[-1]
        neg = False
        e = a
        while True:
            if e[0] == "un" and e[1] == "Not":
                e = e[2]
                neg = not neg
            elif e[0] == "cast":
                e = e[2]
            else:
                break
        if e[0] == "const":
            v = bool(e[1])
        else:
            v = known.get(X.render(X.strip(e)))
        bits.append((len(body.dom.get(c.bb, ())), "?" if v is None else ("1" if (v != neg) else "0")))
    bits.sort()
    return "".join(b for _, b in bits)


def pointers_to(body, targets):
    """locals that hold a reference to one of the `targets` locals (through moves and reborrows); flow-insensitive"""
    targets = set(targets)
    ptrs = set()
    changed = True
    while changed:
        changed = False
        for l, defs in body.defs.items():
            if l in ptrs:
                continue
            for d in defs:
                if d[2] != "assign":
                    continue
                rv = d[3]
                hit = False
                if rv["k"] in ("ref", "rawptr"):
                    pl = rv["pl"]
                    if pl["l"] in targets and not any(p["k"] == "deref" for p in pl["p"]):
                        hit = True
                    elif pl["l"] in ptrs and pl["p"] and pl["p"][0]["k"] == "deref" and len(pl["p"]) == 1:
                        hit = True
                elif rv["k"] in ("use", "copyderef") and rv.get("op", {}).get("k") in ("copy", "move"):
                    pl = rv["op"]["pl"]
                    if pl["l"] in ptrs and not pl["p"]:
                        hit = True
                if hit:
                    ptrs.add(l)
                    changed = True
                    break
    return ptrs


def path_values(body, O, bb):
    """Every switch (two-way or multi-way) that decides whether block `bb` runs, outermost first:
    [(switch block, scrutinee origin, values)] where values is ('in', {ints}) when bb is reached through the listed cases
    only, or ('not', {ints}) when it is reached through the otherwise edge only."""
    out = []
    for s, t in body.switches():
        if s == bb or not body.dominates(s, bb):
            continue
        by_target = {}
        for v, tg in zip(t["vals"], t["targets"]):
            by_target.setdefault(tg, set()).add(int(v))
        reach = {tg: bb in body.reach_from(tg, avoid=(s,)) for tg in set(by_target) | {t["otherwise"]}}
        hit = [tg for tg, r in reach.items() if r]
        if len(hit) != 1:
            continue
        tg = hit[0]
        if tg in by_target and tg != t["otherwise"]:
            vals = ("in", frozenset(by_target[tg]))
        elif tg == t["otherwise"] and tg not in by_target:
            vals = ("not", frozenset(int(v) for v in t["vals"]))
        else:
            continue
        out.append((s, O.switch_cond(s), vals))
    out.sort(key=lambda x: len(body.dom.get(x[0], ())))
    return out


def decision_paths(body, O, to_bb, other_bb=None, limit=256, entry=None):
    """Paths through the (loop-free) decision region that ends in block `to_bb`: the region starts at the deepest block that
    dominates `to_bb` (and `other_bb`, the block of the opposite verdict, when given).  Returns
    (region entry, [[(switch block, scrutinee origin, ('in'|'not', values))...] per path]) or (entry, None) when the region
    has a cycle or more than `limit` paths."""
    if entry is None:
        common = set(body.dom.get(to_bb, ()))
        if other_bb is not None:
            common &= set(body.dom.get(other_bb, ()))
        common.discard(to_bb)
        if not common:
            return None, None
        entry = max(common, key=lambda x: len(body.dom.get(x, ())))
    can_reach = set()
    stack = [to_bb]
    while stack:
        n = stack.pop()
        if n in can_reach:
            continue
        can_reach.add(n)
        if n != entry:
            stack.extend(p for p in body.pred[n] if p in body.reachable)
    paths = []
    conds = {}

    def cond(s):
        if s not in conds:
            conds[s] = O.switch_cond(s)
        return conds[s]

    def go(n, acc, seen):
        if len(paths) > limit:
            return False
        if n == to_bb:
            paths.append(list(acc))
            return True
        if n in seen:
            return True          # simple paths only
        t = body.blocks[n]["term"]
        if t is None:
            return True
        seen = seen | {n}
        if t["k"] == "switch":
            by_target = {}
            for v, tg in zip(t["vals"], t["targets"]):
                by_target.setdefault(tg, set()).add(int(v))
            for tg in sorted(set(by_target) | {t["otherwise"]}):
                if tg not in can_reach:
                    continue
                if tg in by_target and tg != t["otherwise"]:
                    v = ("in", frozenset(by_target[tg]))
                elif tg not in by_target:
                    v = ("not", frozenset(int(x) for x in t["vals"]))
                else:
                    v = ("any", frozenset())
                if not go(tg, acc + [(n, cond(n), v)], seen):
                    return False
            return True
        for tg in body.succ[n]:
            if tg in can_reach:
                if not go(tg, acc, seen):
                    return False
        return True

    ok = go(entry, [], frozenset())
    return entry, (paths if ok and len(paths) <= limit else None)


# ---------------------------------------------------------------------------------------------------------------------
# boolean verdicts: all the ways a block guarded by a boolean local can be reached with that local true
def const_structure(P, body, ex):
    """structure of a constant operand such as `&Some(LitOrRef::Lit(0))` (a promoted constant): nested ('agg', adt, variant,
    fields) / ('const', value) tuples, or None"""
    e = ex
    while e[0] in ("ref", "deref", "mut"):
        e = e[1]
    if e[0] == "promoted":
        pb = P.bodies.get("%s::%s::promoted[%s]" % (body.crate, e[1], e[2]))
        if pb is None:
            return None
        Op = X.Origins(pb, P)
        rets = pb.return_blocks()
        if len(rets) != 1:
            return None
        e = Op.local(0, rets[0], len(pb.blocks[rets[0]]["stmts"]))
        while e[0] in ("ref", "deref", "mut"):
            e = e[1]
    return e if e[0] in ("agg", "const") else None


def verdict_paths(body, O, guarded_bb, opposite_bb, limit=256):
    """`guarded_bb` is the block that runs when a decision comes out one way, `opposite_bb` a block of the other outcome.  When
    the decision is first computed into a bool (`let any = matches!(..)`, `let any = a || b`), every definition of that bool
    is followed back: a constant of the right polarity ends a path, a computed value (`start == K`) ends a path with that
    computation as last condition.  Returns [[(block, origin, ('in'|'not', values))...]] or None."""
    to_blocks = []       # (block, extra condition or None)
    pol = None
    for s_bb, ex, val in path_conditions(body, O, guarded_bb):
        t = body.blocks[s_bb]["term"]
        if not (t["op"].get("k") in ("copy", "move") and not t["op"]["pl"]["p"]):
            continue
        l = t["op"]["pl"]["l"]
        ds = body.defs.get(l, ())
        if len(ds) == 1 and ds[0][2] == "assign" and ds[0][3]["k"] == "use" and ds[0][3]["op"].get("k") in ("copy", "move") \
                and not ds[0][3]["op"]["pl"]["p"]:
            l = ds[0][3]["op"]["pl"]["l"]
            ds = body.defs.get(l, ())
        if len(ds) < 2 or (body.locals[l]["ty"] != "bool"):
            continue
        # is this the innermost bool that guards the block?
        cand = []
        ok = True
        for d in ds:
            if d[2] == "assign" and d[3]["k"] == "use" and d[3]["op"].get("k") == "const":
                if bool(int(d[3]["op"].get("val", "0"))) == val:
                    cand.append((d[0], None))
            elif d[2] == "assign" and d[3]["k"] == "use" and d[3]["op"].get("k") in ("copy", "move") and not d[3]["op"]["pl"]["p"]:
                src = O.operand(d[3]["op"], d[0], d[1])
                cand.append((d[0], (d[0], src, ("not", frozenset({0})) if val else ("in", frozenset({0})))))
            elif d[2] == "call":
                src = O.call_ex(d[3], 0)
                cand.append((d[3].target if d[3].target is not None else d[0], (d[0], src, ("not", frozenset({0})) if val else ("in", frozenset({0})))))
            else:
                ok = False
        if ok and cand:
            to_blocks = cand
            pol = (s_bb, l)
    if not to_blocks:
        entry, paths = decision_paths(body, O, guarded_bb, opposite_bb, limit)
        return paths
    # region entry: deepest block dominating every definition of the bool
    common = None
    for d in body.defs.get(pol[1], ()):
        ds = set(body.dom.get(d[0], ()))
        common = ds if common is None else (common & ds)
    common = {c for c in (common or ()) if c not in {d[0] for d in body.defs.get(pol[1], ())}}
    if not common:
        return None
    entry = max(common, key=lambda x: len(body.dom.get(x, ())))
    out = []
    for blk, extra in to_blocks:
        e2, paths = decision_paths(body, O, blk, None, limit, entry=entry)
        if paths is None:
            return None
        for p in paths:
            out.append(p + ([extra] if extra else []))
    return out


# ---------------------------------------------------------------------------------------------------------------------
# reaching conditions as boolean functions over comparison facts
def reach_dnf(body, O, target_bb, limit=4096, param_atoms=False, program=None):
    """The comparison outcomes under which block `target_bb` is reached from the entry: a set of paths, each a frozenset of
    (comparison key, 'below' | 'at-or-above').  Decisions that were stored in a bool first (`let unsigned = MIN >= 0; ..
    match (unsigned, fits)`; `let any = matches!(..)`) are resolved along each path: a switch on such a local counts as the
    comparison that defined it on that path, and a constant definition selects the one feasible edge.  Other switches
    (discriminants, call results) do not contribute literals.  With `param_atoms` a switch on a bool parameter of the
    function contributes the literal ('param:$<n>', 'true' | 'false').  Returns None when there are more than `limit` paths."""
    cmp_at = {}
    for c in F.comparisons(body, O, include_compiler_checks=False):
        if c.dest is not None:
            cmp_at[(c.bb, c.dest)] = c
    can_reach = set()
    stack = [target_bb]
    while stack:
        n = stack.pop()
        if n in can_reach:
            continue
        can_reach.add(n)
        stack.extend(p for p in body.pred[n] if p in body.reachable)
    if 0 not in can_reach:
        return set()
    paths = set()
    count = [0]

    def resolve(l, path, depth=0):
        if depth > 6:
            return None
        pos = {b: i for i, b in enumerate(path)}
        best = None
        for d in body.defs.get(l, ()):
            if d[0] in pos and d[2] in ("assign", "call"):
                k = (pos[d[0]], d[1] if d[1] >= 0 else 10 ** 6)
                if best is None or k > best[0]:
                    best = (k, d)
        if best is None:
            if param_atoms and 1 <= l <= body.arg_count and not body.defs.get(l):
                return ("param", l)
            return None
        d = best[1]
        if d[2] != "assign":
            return None
        rv = d[3]
        if rv["k"] == "use":
            op = rv["op"]
            if op.get("k") == "const" and op.get("ty") == "bool":
                if "val" not in op:
                    # an associated constant of a generic parameter (`C::EXTENSIBLE`): not known here - an atom of its own
                    if param_atoms and op.get("name") and op.get("trait"):
                        return ("assoc", op["name"])
                    return None
                return ("const", bool(int(op.get("val", "0"))))
            if op.get("k") in ("copy", "move") and not op["pl"]["p"]:
                return resolve(op["pl"]["l"], path[:pos[d[0]] + 1], depth + 1)
            return None
        if rv["k"] == "bin" and (d[0], l) in cmp_at:
            return ("cmp", cmp_at[(d[0], l)], False)
        if rv["k"] == "un" and rv["op"] == "Not" and rv["a"].get("k") in ("copy", "move") and not rv["a"]["pl"]["p"]:
            r = resolve(rv["a"]["pl"]["l"], path[:pos[d[0]] + 1], depth + 1)
            if r is None:
                return None
            if r[0] == "const":
                return ("const", not r[1])
            if r[0] == "param":
                return ("param", r[1], not (r[2] if len(r) > 2 else False))
            if r[0] == "assoc":
                return ("assoc", r[1], not (r[2] if len(r) > 2 else False))
            return ("cmp", r[1], not r[2])
        return None

    def go(n, path, lits):
        if count[0] > limit:
            return
        path = path + [n]
        if n == target_bb:
            count[0] += 1
            paths.add(frozenset(lits.items()))
            return
        t = body.blocks[n]["term"]
        if t is None:
            return
        sw_local = None
        if t["k"] == "switch" and t.get("opty") == "bool" and t["op"].get("k") in ("copy", "move") and len(t["vals"]) == 1:
            pl = t["op"]["pl"]
            if not pl["p"]:
                sw_local = pl["l"]
            elif len(pl["p"]) == 1 and pl["p"][0]["k"] == "field":
                # a field of a tuple built on this path: `match (unsigned, fits) { (true, true) => .. }`
                pos = {b: i for i, b in enumerate(path)}
                best = None
                for d in body.defs.get(pl["l"], ()):
                    if d[0] in pos and d[2] == "assign" and d[3]["k"] == "agg" and d[3].get("ak") == "tuple":
                        k = (pos[d[0]], d[1])
                        if best is None or k > best[0]:
                            best = (k, d)
                if best is not None:
                    ops = best[1][3]["ops"]
                    i = pl["p"][0]["i"]
                    if i < len(ops) and ops[i].get("k") in ("copy", "move") and not ops[i]["pl"]["p"]:
                        sw_local = ops[i]["pl"]["l"]
                    elif i < len(ops) and ops[i].get("k") == "const" and ops[i].get("ty") == "bool" and "val" in ops[i]:
                        sw_local = ("const", bool(int(ops[i].get("val", "0"))))
        if sw_local is not None:
            r = sw_local if isinstance(sw_local, tuple) else resolve(sw_local, path)
            zero_t, other_t = t["targets"][0], t["otherwise"]
            if int(t["vals"][0]) != 0:
                zero_t, other_t = other_t, zero_t
            for val, tg in ((False, zero_t), (True, other_t)):
                if tg not in can_reach or tg in path:
                    continue
                if r is not None and r[0] == "const":
                    if r[1] != val:
                        continue
                    go(tg, path, lits)
                elif r is not None and r[0] == "cmp":
                    c = r[1]
                    v = (not val) if r[2] else val
                    below = c.nop in ("Lt", "Le")
                    k, swapped = cmp_key_oriented(c)
                    truth = "below" if ((v == below) != swapped) else "at-or-above"
                    if lits.get(k, truth) != truth:
                        continue        # contradicts an earlier outcome of the same comparison on this path
                    l2 = dict(lits)
                    l2[k] = truth
                    go(tg, path, l2)
                elif r is not None and r[0] in ("param", "assoc"):
                    v = (not val) if (len(r) > 2 and r[2]) else val
                    k = ("param:$%d" % r[1]) if r[0] == "param" else ("assoc:%s" % r[1])
                    truth = "true" if v else "false"
                    if lits.get(k, truth) != truth:
                        continue
                    l2 = dict(lits)
                    l2[k] = truth
                    go(tg, path, l2)
                else:
                    go(tg, path, lits)
            return
        if param_atoms and t["k"] == "switch" and t.get("opty") != "bool" and t["op"].get("k") in ("copy", "move") and not t["op"]["pl"]["p"]:
            nm = assoc_of_discriminant(t["op"]["pl"]["l"], path)
            if nm is not None:
                k = "assoc:%s#variant" % nm
                by_t = {}
                for v, tg in zip(t["vals"], t["targets"]):
                    by_t.setdefault(tg, []).append(int(v))
                for tg in sorted(set(body.succ[n])):
                    if tg not in can_reach or tg in path:
                        continue
                    if tg in by_t and tg != t["otherwise"]:
                        truth = "in:" + ",".join(str(x) for x in sorted(by_t[tg]))
                    else:
                        truth = "not:" + ",".join(str(int(x)) for x in t["vals"])
                        if tg == t["otherwise"] and all(not body.blocks[tg]["stmts"] and (body.blocks[tg]["term"] or {}).get("k") == "unreachable"
                                                        for _ in (0,)):
                            continue
                    if lits.get(k, truth) != truth:
                        continue
                    l2 = dict(lits)
                    l2[k] = truth
                    go(tg, path, l2)
                return
        for tg in sorted(set(body.succ[n])):
            if tg in can_reach and tg not in path:
                go(tg, path, lits)

    def assoc_of_discriminant(l, path, depth=0):
        """name of the associated constant whose discriminant the local holds (`match &C::MIN { None => .. }`), or None"""
        if depth > 6:
            return None
        ds = [d for d in body.defs.get(l, ()) if d[2] == "assign"]
        if len(ds) != 1:
            return None
        rv = ds[0][3]
        if rv["k"] == "discr":
            return assoc_of_discriminant(rv["pl"]["l"], path, depth + 1)
        if rv["k"] == "ref":
            return assoc_of_discriminant(rv["pl"]["l"], path, depth + 1)
        if rv["k"] == "use":
            op = rv["op"]
            if op.get("k") == "const":
                if op.get("name") and op.get("trait"):
                    return op["name"]
                if op.get("promoted") and program is not None:
                    pb = program.bodies.get("%s::%s::promoted[%s]" % (body.crate, op.get("path", ""), op.get("promoted_idx", 0)))
                    if pb is not None:
                        for _bb, _j, st in pb.all_statements():
                            o2 = (st.get("rv") or {}).get("op") if st["k"] == "assign" else None
                            if isinstance(o2, dict) and o2.get("k") == "const" and o2.get("name") and o2.get("trait"):
                                return o2["name"]
                return None
            if op.get("k") in ("copy", "move"):
                return assoc_of_discriminant(op["pl"]["l"], path, depth + 1)
        return None

    go(0, [], {})
    if count[0] > limit:
        return None
    return paths


def dnf_equal(a, b):
    """are two DNFs (sets of frozensets of (key, 'below'|'at-or-above')) the same boolean function?  Thresholds on the same
    operand are ordered: being at or above a higher boundary implies being at or above a lower one.
    Returns (equal, a distinguishing assignment or None)."""
    keys = sorted({k for p in a | b for k, _ in p}, key=str)
    if len(keys) > 12:
        return a == b, None
    groups = {}
    for k in keys:
        parts = k.split("|")
        if len(parts) >= 4 and parts[2] == "b":
            try:
                groups.setdefault((parts[0], parts[1]), []).append((int(parts[3]), k))
            except ValueError:
                pass

    def feasible(asg):
        for g in groups.values():
            g = sorted(g)
            for (k1, n1), (k2, n2) in zip(g, g[1:]):
                if asg[n2] == "at-or-above" and asg[n1] == "below":
                    return False
        return True

    def holds(dnf, asg):
        return any(all(asg.get(k) == v for k, v in p) for p in dnf)

    import itertools
    for combo in itertools.product(("below", "at-or-above"), repeat=len(keys)):
        asg = dict(zip(keys, combo))
        if not feasible(asg):
            continue
        if holds(a, asg) != holds(b, asg):
            return False, asg
    return True, None


def returned_on_paths(body, avoid=(), limit=2048):
    """What the function returns on every simple path from the entry to a return that stays clear of the blocks `avoid`: a list
    of (kind, payload, path) with kind 'const' (payload: the constant's value text), 'call' (payload: the CallSite whose result
    is returned), 'other' (payload: the defining statement or None).  Plain copies / moves are followed along the path.
    Returns None when there are more than `limit` paths."""
    avoid = set(avoid)
    rets = set(body.return_blocks())
    out = []
    count = [0]
    calls_at = {cs.bb: cs for cs in body.calls()}

    def value(l, path):
        pos = {b: i for i, b in enumerate(path)}
        for _ in range(8):
            best = None
            for d in body.defs.get(l, ()):
                if d[0] in pos and d[2] in ("assign", "call"):
                    k = (pos[d[0]], d[1] if d[1] >= 0 else 10 ** 6)
                    if best is None or k > best[0]:
                        best = (k, d)
            if best is None:
                return ("other", None)
            d = best[1]
            if d[2] == "call":
                return ("call", d[3])
            rv = d[3]
            if rv["k"] == "use":
                op = rv["op"]
                if op.get("k") == "const":
                    return ("const", op.get("val"))
                if op.get("k") in ("copy", "move") and not op["pl"]["p"]:
                    l = op["pl"]["l"]
                    path = path[:pos[d[0]] + 1]
                    pos = {b: i for i, b in enumerate(path)}
                    continue
            return ("other", rv)
        return ("other", None)

    def go(n, path):
        if count[0] > limit or n in avoid:
            return
        path = path + [n]
        if n in rets:
            count[0] += 1
            k, p = value(0, path)
            out.append((k, p, path))
            return
        for tg in sorted(set(body.succ[n])):
            if tg not in path:
                go(tg, path)

    go(0, [])
    return None if count[0] > limit else out


def own_closure_calls(P, closure):
    """call sites at which the function that defines `closure` (or one of its other closures) invokes it directly
    (`let lit = |x| ..; lit(a)`): [(calling body, CallSite, [argument origins in the calling body's terms])]"""
    root = P.bodies.get("%s::%s" % (closure.crate, closure.root)) if closure.root else None
    if root is None:
        return []
    out = []
    cpath = closure.path
    for body in [root] + P.closures_of(root):
        O = None
        for cs in body.calls():
            if cs.name not in ("call", "call_once", "call_mut") or not cs.fn:
                continue
            res = cs.fn.get("resolved") or ""
            if not (res == cpath or res.endswith("::" + cpath) or cpath.endswith("::" + res)):
                continue
            O = O or X.Origins(body, P)
            args = O.call_args(cs)
            tup = X.strip(args[1]) if len(args) > 1 else None
            while tup is not None and tup[0] in ("ref", "deref", "mut"):
                tup = X.strip(tup[1])
            elems = [e for _, e in tup[4]] if tup is not None and tup[0] == "agg" else []
            out.append((body, cs, elems))
    return out


def fold_map_payload(P, body, ex, depth=0):
    """`(opt.map(|x| v) as Some).0` is `v`: the payload of a mapped Option / Result is what the closure returns, rewritten over
    the values of the function that created the closure.  Applied bottom-up to a whole origin expression."""
    if not isinstance(ex, tuple) or not ex or depth > 6:
        return ex
    ex = tuple(fold_map_payload(P, body, x, depth) if isinstance(x, tuple) and x and isinstance(x[0], str) else
               (tuple(fold_map_payload(P, body, y, depth) if isinstance(y, tuple) and y and isinstance(y[0], str) else
                      (tuple(fold_map_payload(P, body, z, depth) if isinstance(z, tuple) and z and isinstance(z[0], str) else z for z in y)
                       if isinstance(y, tuple) else y) for y in x) if isinstance(x, tuple) else x)
               for x in ex)
    if ex[0] == "field" and ex[2] == "0" and ex[1][0] == "downcast" and ex[1][2] in ("Some", "Ok"):
        inner = ex[1][1]
        while inner[0] in ("ref", "deref", "mut"):
            inner = inner[1]
        if inner[0] == "call" and X.last_seg(inner[1] or "") == "map" and len(inner[3]) == 2:
            c = inner[3][1]
            while c[0] in ("ref", "deref", "mut"):
                c = c[1]
            if c[0] == "agg" and c[1] == "closure":
                cb = P.bodies.get("%s::%s" % (body.crate, c[2]))
                if cb is not None:
                    Oc = X.Origins(cb, P)
                    rets = [Oc.rvalue(d[3], d[0], d[1], 0) for d in cb.defs.get(0, ()) if d[2] == "assign"]
                    if len(rets) == 1 and len([d for d in cb.defs.get(0, ())]) == 1:
                        return fold_map_payload(P, cb, in_root_terms(P, cb, rets[0]), depth + 1)
    return ex

"""Derived facts over one body: comparison boundary normal form, tests, call descriptors."""
from . import expr as X
from .mir import span_loc

SWAP = {"Lt": "Gt", "Gt": "Lt", "Le": "Ge", "Ge": "Le", "Eq": "Eq", "Ne": "Ne"}


def strip_casts(ex):
    """removes integer casts and reference wrappers (descriptor level)"""
    while True:
        if ex[0] == "cast" and (ex[3] in ("IntToInt",) or ex[3].startswith("PointerCoercion")):
            ex = ex[2]
        elif ex[0] in ("ref", "deref"):
            ex = ex[1]
        else:
            return ex


def linear(ex):
    """ex == base + k  ->  (base or None, k)"""
    ex = strip_casts(ex)
    k = 0
    while True:
        if ex[0] == "const":
            return None, k + ex[1]
        if ex[0] == "bin":
            op = X.norm_op(ex[1])
            l, r = strip_casts(ex[2]), strip_casts(ex[3])
            if op == "Add" and r[0] == "const":
                k += r[1]
                ex = l
                continue
            if op == "Add" and l[0] == "const":
                k += l[1]
                ex = r
                continue
            if op == "Sub" and r[0] == "const":
                k -= r[1]
                ex = l
                continue
        return ex, k


def rd(ex):
    """descriptor string: casts/refs stripped recursively"""
    return X.render(deep_strip(ex))


def deep_strip(ex):
    ex = strip_casts(ex)
    k = ex[0]
    if k == "bin":
        return ("bin", X.norm_op(ex[1]), deep_strip(ex[2]), deep_strip(ex[3]))
    if k == "un":
        return ("un", ex[1], deep_strip(ex[2]))
    if k == "field":
        return ("field", deep_strip(ex[1]), ex[2])
    if k == "downcast":
        return ("downcast", deep_strip(ex[1]), ex[2])
    if k == "index":
        return ("index", deep_strip(ex[1]), deep_strip(ex[2]))
    if k == "call":
        args = tuple(deep_strip(a) for a in ex[3])
        if X.last_seg(ex[1]) in ("saturating_sub", "wrapping_sub") and len(args) == 2:
            return ("bin", "Sub", args[0], args[1])
        if X.last_seg(ex[1]) in ("saturating_add", "wrapping_add") and len(args) == 2:
            return ("bin", "Add", args[0], args[1])
        return ("call", ex[1], ex[2], args, "")
    if k == "unwrap_or":
        return ("unwrap_or", deep_strip(ex[1]), deep_strip(ex[2]))
    if k == "phi":
        return X.mk_phi(tuple(deep_strip(a) for a in ex[1]))
    if k == "try":
        return ("try", deep_strip(ex[1]))
    if k == "mut":
        return ("mut", deep_strip(ex[1]))
    if k == "agg":
        return ("agg", ex[1], ex[2], ex[3], tuple((n, deep_strip(e)) for n, e in ex[4]))
    return ex


class Cmp:
    """normalised comparison: `lhs - rhs` changes truth value between boundary-1 and boundary
    (kind 'b'), or is tested for equality with `boundary` (kind 'eq')."""

    __slots__ = ("lhs", "rhs", "kind", "boundary", "loc", "bb", "raw", "lex", "rex", "validating", "switch_bb",
                 "op", "dest", "nop", "flipped")

    def key(self):
        return (self.lhs, self.rhs, self.kind, self.boundary)

    def __repr__(self):
        r = (" - " + self.rhs) if self.rhs else ""
        return "%s%s %s %s @%s" % (self.lhs, r, "|" if self.kind == "b" else "==", self.boundary, self.loc)


UNSIGNED = ("u8", "u16", "u32", "u64", "u128", "usize")


def normalise_cmp(op, a, b, loc="?", bb=None, lty=None):
    A, ka = linear(a)
    B, kb = linear(b)
    if A is None and B is None:
        return None
    if A is None:
        # const OP b  ==  b SWAP(OP) const
        A, ka, B, kb = B, kb, None, ka
        op = SWAP[op]
    if B is None and lty in UNSIGNED and op in ("Eq", "Ne") and kb - ka == 0:
        # for an unsigned x:  x == 0  is  x < 1,  x != 0  is  x >= 1  (one boundary fact for `> 0`, `>= 1`, `!= 0`)
        op = "Lt" if op == "Eq" else "Ge"
        kb += 1
    if B is None:
        # (x - y) OP k   ==   x - y OP k  in difference form (so that `hi - lo > 0` and `hi > lo` are one fact)
        a0 = deep_strip(A)
        if a0[0] == "bin" and a0[1] == "Sub" and strip_casts(a0[3])[0] != "const":
            A, B = a0[2], a0[3]
    if B is not None and op in ("Lt", "Le", "Gt", "Ge"):
        # `a.saturating_sub(p) < n` / `a - p < n` is `a < p + n` (for the saturating form when n > 0; at n = 0 neither form
        # lets anything through that the other stops: both are false): one fact for the check written either way
        a0 = deep_strip(A)
        rawA = strip_casts(A)
        wrapping = rawA[0] == "call" and X.last_seg(rawA[1] or "") in ("wrapping_sub", "overflowing_sub")
        if a0[0] == "bin" and a0[1] == "Sub" and strip_casts(a0[3])[0] != "const" and not wrapping:
            y, b0 = a0[3], deep_strip(B)
            A, B = a0[2], ("bin", "Add", y, b0)      # subtrahend first: `pos + len`
    c = Cmp()
    c.loc = loc
    c.bb = bb
    c.nop = op          # operator after moving a constant operand to the right-hand side
    c.flipped = False   # lex / rex were exchanged below: `nop` then reads rex NOP lex
    c.raw = "%s %s %s" % (X.render(a), op, X.render(b))
    c.lex, c.rex = A, B
    t = kb - ka     # D = A - B  OP  t
    if op in ("Eq", "Ne"):
        kind = "eq"
        bnd = t
    else:
        kind = "b"
        bnd = t if op in ("Lt", "Ge") else t + 1
    la = rd(A)
    if B is None:
        c.lhs, c.rhs, c.kind, c.boundary = la, "", kind, bnd
        return c
    lb = rd(B)
    if la <= lb:
        c.lhs, c.rhs, c.kind, c.boundary = la, lb, kind, bnd
    else:
        c.lex, c.rex = B, A
        c.flipped = kind == "b"
        c.lhs, c.rhs, c.kind = lb, la, kind
        c.boundary = (-bnd + 1) if kind == "b" else -bnd
    return c


def ok_reaching(body):
    """blocks from which a return of something other than an error is reachable.
    An assignment to the return place is an *error* assignment when it builds `Result::Err`/`None`-free
    residuals: `_0 = Err(..)` or `_0 = from_residual(..)`; every other assignment counts as success."""
    ok_blocks = set()
    for l_defs in (body.defs.get(0, ()),):
        for d in l_defs:
            if d[2] == "assign":
                rv = d[3]
                if rv["k"] == "agg" and rv.get("ak") == "adt" and rv.get("variant") == "Err":
                    continue
                ok_blocks.add(d[0])
            elif d[2] == "call":
                cs = d[3]
                if cs.name == "from_residual":
                    continue
                ok_blocks.add(d[0])
            else:
                ok_blocks.add(d[0])
    if not body.defs.get(0):
        return set(body.reachable)
    # backward reachability
    out = set(ok_blocks)
    work = list(ok_blocks)
    while work:
        b = work.pop()
        for p in body.pred[b]:
            if p not in out:
                out.add(p)
                work.append(p)
    return out


def assert_cond_locals(body):
    out = set()
    for bb, t in body.asserts():
        c = t["cond"]
        if c["k"] in ("copy", "move") and not c["pl"]["p"]:
            out.add(c["pl"]["l"])
    return out


def comparisons(body, O, include_compiler_checks=False):
    """all integer comparisons computed in the body (rvalues), normalised.
    `validating` is True when the comparison directly controls a switch one of whose successors can only
    reach error returns."""
    out = []
    okr = None
    acl = assert_cond_locals(body)
    for bb, j, s in body.all_statements():
        if s["k"] != "assign":
            continue
        rv = s["rv"]
        if rv["k"] == "bin" and rv["op"] in X.CMP_OPS:
            dest = s["pl"]["l"] if not s["pl"]["p"] else None
            if dest in acl and not include_compiler_checks:
                continue
            a = O.operand(rv["l"], bb, j)
            b = O.operand(rv["r"], bb, j)
            c = normalise_cmp(rv["op"], a, b, span_loc(s["sp"]), bb, rv.get("lty"))
            if c is None:
                continue
            c.op = rv["op"]
            c.dest = dest
            c.validating = False
            c.switch_bb = None
            t = body.blocks[bb]["term"]
            if dest is not None and t and t["k"] == "switch" and t["op"]["k"] in ("copy", "move") \
                    and t["op"]["pl"]["l"] == dest and not t["op"]["pl"]["p"]:
                c.switch_bb = bb
                if okr is None:
                    okr = ok_reaching(body)
                succ = body.succ[bb]
                if any(sx not in okr for sx in succ):
                    c.validating = True
            out.append(c)
    # a comparison whose result is tested in a later block (`let unsigned = min >= 0; .. if unsigned`, the bool returned by an
    # expanded helper): the switch that tests it - when there is exactly one - is the comparison's switch
    pending = [c for c in out if c.switch_bb is None and c.dest is not None]
    if pending:
        by_dest = {}
        for c in pending:
            by_dest.setdefault(c.dest, []).append(c)
        uses = {}
        for sbb, t in body.switches():
            op = t["op"]
            if op.get("k") not in ("copy", "move") or op["pl"]["p"]:
                continue
            l = op["pl"]["l"]
            for _ in range(4):
                if l in by_dest:
                    break
                ds = body.defs.get(l, ())
                if len(ds) == 1 and ds[0][2] == "assign" and ds[0][3]["k"] == "use" and ds[0][3]["op"].get("k") in ("copy", "move") \
                        and not ds[0][3]["op"]["pl"]["p"]:
                    l = ds[0][3]["op"]["pl"]["l"]
                else:
                    break
            if l in by_dest and len(body.defs.get(l, ())) == 1:
                uses.setdefault(l, []).append(sbb)
        for l, sbbs in uses.items():
            if len(sbbs) == 1 and len(by_dest[l]) == 1:
                c = by_dest[l][0]
                c.switch_bb = sbbs[0]
                if okr is None:
                    okr = ok_reaching(body)
                if any(sx not in okr for sx in body.succ[sbbs[0]]):
                    c.validating = True
    return out


def eq_calls(body, O):
    """`a == b` through PartialEq::eq / ne: returns (renderA, renderB, callsite) unordered pairs"""
    out = []
    for cs in body.calls():
        if cs.name in ("eq", "ne") and cs.trait and cs.trait.endswith("PartialEq"):
            args = O.call_args(cs)
            if len(args) == 2:
                pair = tuple(sorted((rd(args[0]), rd(args[1]))))
                out.append((pair, cs))
    return out


def tests(body, O):
    """switches on something that is not a comparison rvalue: discriminants and bool values"""
    out = []
    for bb, t in body.switches():
        ex = O.switch_cond(bb)
        out.append((rd(ex), bb, span_loc(t["sp"])))
    return out


def const_ops(body, O):
    """arithmetic with one literal operand: {(op, constant)} -> [locations]"""
    out = {}
    for bb, j, s in body.all_statements():
        if s["k"] != "assign" or s["rv"]["k"] != "bin":
            continue
        rv = s["rv"]
        op = X.norm_op(rv["op"])
        if op in X.CMP_OPS:
            continue
        a = strip_casts(O.operand(rv["l"], bb, j))
        b = strip_casts(O.operand(rv["r"], bb, j))
        for side, other, pos in ((a, b, "l"), (b, a, "r")):
            if side[0] == "const" and other[0] != "const":
                out.setdefault((op, side[1], pos), []).append(span_loc(s["sp"]))
    return out

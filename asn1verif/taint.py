"""T1 - wire-taint -> sink analysis (DESIGN.md section 3, T1).

Forward taint over MIR, field based for ADT fields, flow-insensitive inside a body, interprocedural
through summaries (return value, out-parameters) and parameter propagation, iterated to a fixed
point over the call graph (class-hierarchy analysis for trait-method calls on generic receivers).
Sinks are Assert terminators, calls to panic-capable std functions, value-sized allocations.
Discharge rules D1-D3/D5 are decided from value origins (expr.py); D6 is a reviewed table.
"""
import re
from collections import defaultdict

from . import expr as X
from . import facts as F
from .mir import span_loc

WORKSPACE = ("asn1rs", "asn1rs_model", "asn1rs_macros")

PANICKERS = [
    # (regex on callee def path, kind, which args matter: 'any' | index list | 'none')
    (r"::option::Option::<[^>]*>::(unwrap|expect)$", "unwrap", [0]),
    (r"::result::Result::<[^>]*>::(unwrap|expect|unwrap_err|expect_err)$", "unwrap", [0]),
    (r"^core::panicking::|^std::panicking::|^std::rt::(begin_panic|panic_fmt)", "panic", "none"),
    (r"::option::(unwrap_failed|expect_failed)$|::result::unwrap_failed$", "panic", "none"),
    (r"::ops::Index(Mut)?::index(_mut)?$|::ops::index::Index(Mut)?::index(_mut)?$", "index", [1]),
    (r"::(copy_from_slice|clone_from_slice)$", "slice-len", "any"),
    (r"::split_at(_mut)?$", "split", [1]),
    (r"::vec::Vec::<[^>]*>::(remove|insert|swap_remove|drain|split_off)$", "vec-index", "any"),
    (r"::VecDeque::<[^>]*>::(insert|drain|split_off|swap)$", "vec-index", "any"),
    (r"::string::String::(remove|insert|insert_str|drain|split_off|replace_range)$", "str-index", "any"),
    (r"::num::<impl [a-z0-9]+>::(pow|abs|div_euclid|rem_euclid|isqrt|ilog|ilog2|ilog10|next_power_of_two)$", "int-panic", "any"),
    (r"::slice::<impl \[T\]>::(chunks|chunks_exact|chunks_mut|chunks_exact_mut|windows|rchunks)$", "chunk-size", [1]),
    (r"::slice::<impl \[T\]>::(swap|rotate_left|rotate_right|select_nth_unstable)$", "slice-index", "any"),
    (r"::cell::RefCell::<[^>]*>::(borrow|borrow_mut)$", "refcell", "none"),
    (r"::char::(methods::)?<impl char>::(from_digit|to_digit)$|::char::from_digit$", "radix", [1]),
    (r"::str::<impl str>::(split_at|split_at_mut)$", "str-index", "any"),
]
ALLOCATORS = [
    (r"::vec::Vec::<[^>]*>::with_capacity$", "alloc", [0]),
    (r"::vec::from_elem$", "alloc", [1]),
    (r"::vec::Vec::<[^>]*>::(resize|reserve|reserve_exact|resize_with)$", "alloc", [1]),
    (r"::string::String::(with_capacity|reserve)$", "alloc", "any"),
    (r"::VecDeque::<[^>]*>::with_capacity$|::HashMap::<[^>]*>::with_capacity$", "alloc", [0]),
    (r"::iter::Iterator::take$|::iter::traits::iterator::Iterator::take$", "alloc-take", [1]),
    (r"::slice::<impl \[T\]>::repeat$|::str::<impl str>::repeat$", "alloc", [1]),
]
PANICKERS = [(re.compile(r), k, a) for r, k, a in PANICKERS]
ALLOCATORS = [(re.compile(r), k, a) for r, k, a in ALLOCATORS]

REF_THROUGH = ("index_mut", "index", "deref_mut", "deref", "as_mut", "as_ref", "as_mut_slice", "as_slice",
               "borrow_mut", "borrow", "as_bytes", "as_mut_ptr", "iter_mut", "iter", "chunks_exact_mut", "chunks_mut",
               "by_ref", "take", "into_iter", "as_deref_mut", "as_deref", "get_mut", "get", "unwrap", "expect",
               "split_at_mut", "to_mut", "as_mut_vec")


def base_type(ty):
    ty = ty.strip()
    while ty.startswith("&") or ty.startswith("*"):
        ty = ty.lstrip("&*").strip()
        for pre in ("mut ", "const ", "'_ ", "'a "):
            if ty.startswith(pre):
                ty = ty[len(pre):]
        ty = re.sub(r"^'[a-z_]+ ", "", ty)
        if ty.startswith("mut "):
            ty = ty[4:]
    m = re.match(r"[A-Za-z0-9_:]+", ty)
    return m.group(0) if m else ty


def table_entry(table, s, T=None):
    """reviewed entry of a sink: by its name based key or by its origin based key.  A sink inside a private helper that has no
    entry of its own inherits the entry its callers have for the same operation on the same operands - code that was moved
    out of reviewed functions into a helper they all call (`extract function`) stays reviewed; every caller must have it."""
    e = table.get(s.key)
    if e is None:
        e = table.get(getattr(s, "okey", s.key))
    if e is None and T is not None:
        root = s.body.root or s.body.path
        callers = T.caller_roots(s.body)
        if callers:
            found = []
            for cr in callers:
                hit = None
                for k in (s.key, getattr(s, "okey", s.key)):
                    if not k.startswith(root + "#"):
                        continue
                    tail = k[len(root):]
                    base = tail.rsplit("#", 1)[0]
                    for n in range(0, 4):
                        hit = hit or table.get("%s%s#%d" % (cr, base, n))
                found.append(hit)
            if all(f is not None for f in found):
                e = found[0]
                if isinstance(e, str):
                    e = e + " [inherited from the reviewed callers %s: the code was moved into this helper]" % ", ".join(
                        c.split("::")[-1] for c in sorted(callers))
    if isinstance(e, str):
        # a review that depends on where the site is: `[inside-loop:lines] ..` holds only while the site lies inside a loop that
        # advances an iterator made by `lines` (an origin-based key would follow the expression out of the loop)
        m = re.match(r"^\[inside-loop:(\w+)\]", e)
        if m and not _inside_loop_over(s, m.group(1), T):
            return None
    return e


def _inside_loop_over(s, name, T):
    body = s.body
    loops = [l for l in body.sccs() if s.bb in l]
    if not loops or T is None:
        return False
    O = T.origins(body)
    for l in loops:
        for cs in body.calls():
            if cs.bb in l and cs.name == "next" and any(name + "(" in X.render(a) for a in O.call_args(cs)):
                return True
    return False


class Sink:
    __slots__ = ("body", "bb", "kind", "detail", "ops", "tainted", "loc", "sp", "key", "term", "callsite", "expansion",
                 "tops", "okey", "odetail")


class Taint:
    def __init__(self, program, entries, source_traits=(), source_fns=(), tainted_fields=(), param_sources=None,
                 everything=False, crates=WORKSPACE, untaintable_fields=()):
        self.P = program
        self.crates = crates
        self.source_traits = tuple(source_traits)
        self.source_fns = tuple(source_fns)
        self.everything = everything           # census mode: every value counts as tainted
        self.field_taint = set(tainted_fields)  # (TypeBase, "field") / (TypeBase, "Variant.field")
        self.untaintable = set(untaintable_fields)
        self.type_taint = set()
        # body.key -> {local: set(paths)}; a path is a tuple of field keys, () = the whole value
        self.local_taint = defaultdict(dict)
        self.upvar_taint = defaultdict(set)
        self.ret_taint = set()
        self.out_taint = defaultdict(set)
        self.param_sources = param_sources or {}   # body.key -> set(local idx)
        self.impl_index = None
        self.entries = list(entries)
        self.reach = {}
        self.call_targets = {}
        self._origins = {}
        self._refbase = {}
        self.compute_reachability()

    # ------------------------------------------------------------------ call graph
    def build_impl_index(self):
        idx = defaultdict(list)
        for im in self.P.impls:
            for it in im["items"]:
                ti = it.get("trait_item")
                if ti and it["kind"].endswith("Fn"):
                    # trait item paths are crate-local for local traits, crate-qualified for extern ones
                    key = ti if ti.split("::")[0] in WORKSPACE else im["crate"] + "::" + ti
                    b = self.P.bodies.get(im["crate"] + "::" + it["path"])
                    if b is not None:
                        idx[key].append(b)
        # default method bodies of traits
        for tpath, t in self.P.traits.items():
            crate = tpath.split("::")[0]
            for it in t["items"]:
                if it.get("has_default") and it["kind"].endswith("Fn"):
                    b = self.P.bodies.get(crate + "::" + it["path"])
                    if b is not None:
                        idx[crate + "::" + it["path"]].append(b)
        self.impl_index = idx

    def targets(self, body, cs):
        """workspace bodies a call site may invoke"""
        key = (body.key, cs.bb)
        if key in self.call_targets:
            return self.call_targets[key]
        out = []
        if cs.fn is not None:
            b = self.P.resolve_callee(body.crate, cs)
            fn = cs.fn
            if b is not None and (fn.get("resolved") or not fn.get("trait")):
                out = [b]
            elif fn.get("trait") and fn["crate"] in WORKSPACE:
                if self.impl_index is None:
                    self.build_impl_index()
                decl = fn["def"]
                k = decl if decl.split("::")[0] in WORKSPACE else fn["crate"] + "::" + decl
                out = list(self.impl_index.get(k, ()))
                if b is not None and b not in out:
                    out.append(b)
            elif b is not None:
                out = [b]
            # closure invoked through Fn*/call*: resolved to the closure body by rustc when static
        self.call_targets[key] = out
        return out

    def caller_roots(self, body):
        """root functions (closures folded into their creators) that call `body`"""
        if getattr(self, "_callers", None) is None:
            self._callers = defaultdict(set)
            for b in self.reach.values():
                if "::promoted[" in b.path:
                    continue
                for cs in b.calls():
                    for t in self.targets(b, cs):
                        self._callers[t.key].add(b.root or b.path)
        me = body.root or body.path
        key = body.key if not body.root else (body.crate + "::" + body.root)
        return {c for c in self._callers.get(key, ()) if c != me}

    def compute_reachability(self):
        work = list(self.entries)
        reach = {}
        while work:
            b = work.pop()
            if b.key in reach:
                continue
            reach[b.key] = b
            for cs in b.calls():
                for t in self.targets(b, cs):
                    if t.key not in reach:
                        work.append(t)
            for c in self.P.closures_of(b):
                if c.key not in reach:
                    work.append(c)
        self.reach = reach

    # ------------------------------------------------------------------ helpers
    def origins(self, body):
        o = self._origins.get(body.key)
        if o is None:
            o = self._origins[body.key] = X.Origins(body, self.P)
        return o

    def ref_bases(self, body, local, depth=0):
        """locals whose storage `local` (a reference) may point into"""
        key = (body.key, local)
        if key in self._refbase:
            return self._refbase[key]
        self._refbase[key] = set()
        out = set()
        if depth < 12:
            for d in body.defs.get(local, ()):
                if d[2] == "assign":
                    rv = d[3]
                    if rv["k"] in ("ref", "rawptr"):
                        pl = rv["pl"]
                        if any(p["k"] == "deref" for p in pl["p"]):
                            # the storage lies behind a pointer held in (a field of) that local - `&mut (*(_t.0)).x` points
                            # where `_t.0` points, not into the tuple `_t`
                            out |= self.ref_bases(body, pl["l"], depth + 1)
                        else:
                            out.add(pl["l"])
                    elif rv["k"] in ("use", "cast", "copyderef"):
                        op = rv.get("op")
                        pl = op.get("pl") if op else rv.get("pl")
                        if pl is not None:
                            if not pl["p"]:
                                out |= self.ref_bases(body, pl["l"], depth + 1)
                            else:
                                out |= self.ref_bases(body, pl["l"], depth + 1)
                                # a reference copied out of `(*p).field` may point into what p points to; one copied out of
                                # a by-value tuple / struct local (`_t.0`) points where the reference stored there points
                                if pl["p"][0]["k"] == "deref" or not any(
                                        d2[2] == "assign" and d2[3]["k"] == "agg" for d2 in body.defs.get(pl["l"], ())):
                                    out.add(pl["l"])
                    elif rv["k"] == "agg":
                        for o in rv["ops"]:
                            if o["k"] in ("copy", "move"):
                                out |= self.ref_bases(body, o["pl"]["l"], depth + 1)
                elif d[2] == "call":
                    cs = d[3]
                    if cs.name in REF_THROUGH and cs.args:
                        a = cs.args[0]
                        if a["k"] in ("copy", "move"):
                            out |= self.ref_bases(body, a["pl"]["l"], depth + 1)
                            if a["pl"]["p"]:
                                out.add(a["pl"]["l"])
        self._refbase[key] = out
        return out

    def field_keys(self, pl):
        keys = []
        variant = None
        for p in pl["p"]:
            if p["k"] == "downcast":
                variant = p["n"]
            elif p["k"] == "field":
                of = p.get("of", "")
                if of and not of.startswith("(") and not of.startswith("{") and not of.startswith("["):
                    bt = base_type(of)
                    name = ("%s.%s" % (variant, p["n"])) if variant else p["n"]
                    keys.append((bt, name))
                variant = None
            else:
                variant = None if p["k"] != "deref" else variant
        return keys

    @staticmethod
    def place_path(pl):
        """field keys of a place (deref transparent, any index = '[]')"""
        out = []
        variant = None
        for p in pl["p"]:
            k = p["k"]
            if k == "downcast":
                variant = p["n"]
            elif k == "field":
                out.append(("%s.%s" % (variant, p["n"])) if variant else p["n"])
                variant = None
            elif k in ("index", "cindex", "subslice"):
                out.append("[]")
                variant = None
        return tuple(out)

    def place_paths(self, body, pl):
        """sub-paths of the value read from `pl` that are tainted; empty set = untainted"""
        if self.everything:
            return {()}
        l = pl["l"]
        out = set()
        lt = self.local_taint[body.key].get(l)
        q = self.place_path(pl)
        if lt:
            n = len(q)
            for p in lt:
                if p[:n] == q:
                    out.add(p[n:])
                elif q[:len(p)] == p:
                    out.add(())
        if body.def_kind == "Closure" and l == 1 and q:
            ut = self.upvar_taint[body.key]
            if ut:
                try:
                    fi = int(q[0])
                except ValueError:
                    fi = None
                if fi in ut:
                    out.add(())
        if () not in out:
            for k in self.field_keys(pl):
                if k in self.field_taint:
                    out.add(())
                    break
        if () not in out and self.type_taint:
            for p in pl["p"]:
                if p["k"] == "field" and base_type(p.get("of", "")) in self.type_taint:
                    out.add(())
                    break
            else:
                if pl["p"] and base_type(body.locals[l]["ty"]) in self.type_taint:
                    out.add(())
        return out

    def place_tainted(self, body, pl):
        return bool(self.place_paths(body, pl))

    def operand_paths(self, body, op):
        if op["k"] in ("copy", "move"):
            return self.place_paths(body, op["pl"])
        return set()

    def operand_tainted(self, body, op):
        if op["k"] in ("copy", "move"):
            return bool(self.place_paths(body, op["pl"]))
        return False

    def taint_local(self, body, l, paths=((),)):
        d = self.local_taint[body.key]
        cur = d.get(l)
        if cur is None:
            cur = d[l] = set()
        for p in paths:
            if len(p) > 6:
                p = p[:6]
            if p not in cur and () not in cur:
                if p == ():
                    cur.clear()
                cur.add(p)
                self.changed = True

    def taint_place(self, body, pl, paths=((),)):
        l = pl["l"]
        projs = pl["p"]
        q = self.place_path(pl)
        self.taint_local(body, l, [q + p for p in paths])
        if not projs:
            return
        keys = [k for k in self.field_keys(pl)]
        has_deref = any(p["k"] == "deref" for p in projs)
        if keys:
            k = keys[-1]
            if k not in self.field_taint and k not in self.untaintable:
                self.field_taint.add(k)
                self.changed = True
        elif has_deref and any(p == () for p in paths):
            # whole write through a pointer / reference
            bt = base_type(body.locals[l]["ty"])
            if re.fullmatch(r"[a-z_][A-Za-z0-9_]*(::[A-Za-z_][A-Za-z0-9_]*)+", bt or "") and bt not in self.type_taint:
                self.type_taint.add(bt)
                self.changed = True
        if has_deref:
            for rb in self.ref_bases(body, l):
                self.taint_local(body, rb)
            if 1 <= l <= body.arg_count and l not in self.out_taint[body.key]:
                self.out_taint[body.key].add(l)
                self.changed = True

    def is_source_call(self, cs):
        fn = cs.fn
        if fn is None:
            return False
        tr = fn.get("trait") or fn.get("impl_trait") or ""
        ts = tr.split("::")[-1]
        if ts in self.source_traits:
            return True
        d = fn.get("resolved") or fn["def"]
        for s in self.source_fns:
            if s in d:
                return True
        return False

    # ------------------------------------------------------------------ propagation
    def run(self, max_iter=40):
        for bkey, locs in self.param_sources.items():
            for l in locs:
                self.local_taint[bkey].setdefault(l, set()).add(())
        it = 0
        while True:
            it += 1
            self.changed = False
            for b in list(self.reach.values()):
                self.propagate_body(b)
            if not self.changed or it >= max_iter:
                break
        self.iterations = it
        return self

    def rvalue_paths(self, body, rv):
        k = rv["k"]
        if k == "use":
            return self.operand_paths(body, rv["op"])
        if k in ("ref", "rawptr", "copyderef"):
            return self.place_paths(body, rv["pl"])
        if k in ("cast", "repeat"):
            return {()} if self.operand_tainted(body, rv["op"]) else set()
        if k == "discr":
            return {()} if () in self.place_paths(body, rv["pl"]) else set()
        if k == "bin":
            return {()} if (self.operand_tainted(body, rv["l"]) or self.operand_tainted(body, rv["r"])) else set()
        if k == "un":
            return {()} if self.operand_tainted(body, rv["a"]) else set()
        if k == "agg":
            out = set()
            ak = rv.get("ak")
            names = rv.get("fields")
            enum = ak == "adt" and rv["variant"] != rv["adt"].split("::")[-1]
            for i, o in enumerate(rv["ops"]):
                ps = self.operand_paths(body, o)
                if not ps:
                    continue
                if ak == "adt" and names and i < len(names):
                    key = ("%s.%s" % (rv["variant"], names[i])) if enum else names[i]
                elif ak == "array":
                    key = "[]"
                else:
                    key = str(i)
                for p in ps:
                    out.add((key,) + p)
            return out
        return set()

    def rvalue_tainted(self, body, rv):
        return bool(self.rvalue_paths(body, rv))

    def propagate_body(self, body):
        if self.everything:
            return
        lt = self.local_taint[body.key]

        def size():
            return (sum(len(v) for v in lt.values()), len(lt), len(self.field_taint), len(self.type_taint))

        while True:
            before = size()
            for bb, j, s in body.all_statements():
                if s["k"] != "assign":
                    continue
                rv = s["rv"]
                ps = self.rvalue_paths(body, rv)
                if ps:
                    self.taint_place(body, s["pl"], ps)
                    # closure creation with a tainted capture
                if rv["k"] == "agg" and rv.get("ak") == "closure":
                    cb = self.P.bodies.get(body.crate + "::" + rv["def"])
                    if cb is not None:
                        for i, o in enumerate(rv["ops"]):
                            if self.operand_tainted(body, o) and i not in self.upvar_taint[cb.key]:
                                self.upvar_taint[cb.key].add(i)
                                self.changed = True
            for cs in body.calls():
                self.propagate_call(body, cs)
            # return value
            if lt.get(0) and body.key not in self.ret_taint:
                self.ret_taint.add(body.key)
                self.changed = True
            # &mut parameters whose pointee became tainted
            if size() == before:
                break
            self.changed = True

    def propagate_call(self, body, cs):
        if cs.fn is not None and cs.name == "then_some" and "bool" in (cs.callee or "") and len(cs.args) == 2:
            # `cond.then_some(v)`: the payload of the result is `v`; `cond` only selects between Some and None (as the branch
            # of the equivalent `if cond { Some(v) } else { None }` would), it does not flow into the payload
            ps = self.operand_paths(body, cs.args[1])
            if ps:
                self.taint_place(body, cs.dest, tuple(("Some.0",) + tuple(q) for q in ps))
            return
        args_t = [self.operand_tainted(body, a) for a in cs.args]
        any_t = any(args_t)
        dest_t = False
        targets = self.targets(body, cs)
        if self.is_source_call(cs):
            dest_t = True
            # out-parameters of a source: every `&mut` argument except the receiver
            for i, (a, ty) in enumerate(zip(cs.args, cs.term.get("argtys", []))):
                if i > 0 and ty.startswith("&mut") and a["k"] in ("copy", "move"):
                    for rb in self.ref_bases(body, a["pl"]["l"]):
                        self.taint_local(body, rb)
        if targets:
            for t in targets:
                # arguments -> callee parameters
                for i, at in enumerate(args_t):
                    if at and (i + 1) <= t.arg_count:
                        cur = self.local_taint[t.key].get(i + 1)
                        ps = self.operand_paths(body, cs.args[i])
                        if cur is None or not (ps <= cur or () in cur):
                            self.local_taint[t.key].setdefault(i + 1, set())
                            before_n = len(self.local_taint[t.key][i + 1])
                            if () in ps:
                                self.local_taint[t.key][i + 1] = {()}
                            else:
                                self.local_taint[t.key][i + 1] |= {p[:6] for p in ps}
                            if len(self.local_taint[t.key][i + 1]) != before_n or cur is None:
                                self.changed = True
                if t.key in self.ret_taint:
                    dest_t = True
                for pi in self.out_taint.get(t.key, ()):
                    if pi - 1 < len(cs.args):
                        a = cs.args[pi - 1]
                        if a["k"] in ("copy", "move"):
                            for rb in self.ref_bases(body, a["pl"]["l"]):
                                self.taint_local(body, rb)
                            if a["pl"]["p"]:
                                self.taint_place(body, a["pl"])
        else:
            # extern / unresolved callee: result depends on every argument; `&mut` arguments may
            # receive data from the other arguments (push, extend, copy_from_slice, …)
            if any_t:
                dest_t = True
                for i, (a, ty) in enumerate(zip(cs.args, cs.term.get("argtys", []))):
                    if ty.startswith("&mut") and not args_t[i] and a["k"] in ("copy", "move"):
                        for rb in self.ref_bases(body, a["pl"]["l"]):
                            self.taint_local(body, rb)
                        if 1 <= a["pl"]["l"] <= body.arg_count and not a["pl"]["p"]:
                            if a["pl"]["l"] not in self.out_taint[body.key]:
                                self.out_taint[body.key].add(a["pl"]["l"])
                                self.changed = True
                        self.taint_local(body, a["pl"]["l"])
            # closures called through generic Fn*: unknown body, decoders' closures read the wire
            if cs.fn is None or (cs.fn.get("trait", "") or "").split("::")[-1] in ("FnOnce", "FnMut", "Fn"):
                if cs.fn is None or not cs.fn.get("resolved_local"):
                    dest_t = True if (self.source_traits or any_t) else dest_t
        if dest_t:
            self.taint_place(body, cs.dest)

    # ------------------------------------------------------------------ sinks
    def sinks(self):
        out = []
        for b in sorted(self.reach.values(), key=lambda x: x.path):
            if "::promoted[" in b.path:
                continue
            out.extend(self.body_sinks(b))
        # keys name the enclosing function (closure numbering is not part of the key); ordinals count per function
        ordinal = defaultdict(int)
        for s in out:
            root = s.body.root or s.body.path
            base = "%s#%s:%s" % (root, s.kind, s.detail)
            s.key = "%s#%d" % (base, ordinal[base])
            ordinal[base] += 1
            # second key that does not depend on the names of locals: operands are described by where their values come from
            # (parameters by position), so introducing, renaming or removing a temporary leaves it unchanged
            od = getattr(s, "odetail", None)
            if od is None:
                s.okey = s.key
            else:
                obase = "%s#%s:~%s" % (root, s.kind, od)
                s.okey = "%s#%d" % (obase, ordinal[obase])
                ordinal[obase] += 1
        return out

    def body_sinks(self, body):
        out = []
        O = None
        ordinal = defaultdict(int)

        def mk(bb, kind, detail, ops, tainted, sp, term, cs=None):
            s = Sink()
            s.body, s.bb, s.kind, s.detail, s.ops, s.tainted = body, bb, kind, detail, ops, tainted
            s.tops = ops[-len(tainted):] if (tainted and len(tainted) != len(ops)) else ops
            s.sp = sp
            s.loc = span_loc(sp)
            s.term = term
            s.callsite = cs
            s.expansion = (sp or {}).get("exp")
            base = "%s#%s:%s" % (body.path, kind, detail)
            s.key = "%s#%d" % (base, ordinal[base])
            ordinal[base] += 1
            return s

        O = self.origins(body)
        for bb, t in body.asserts():
            m = t["msg"]
            k = m["k"]
            ops = m["ops"]
            n = len(body.blocks[bb]["stmts"])
            exs = [O.operand(o, bb, n) for o in ops]
            if k == "Overflow":
                kind = "assert.Overflow." + m["op"]
                tainted = [self.operand_tainted(body, o) for o in ops]
            elif k == "BoundsCheck":
                kind = "assert.BoundsCheck"
                tainted = [False, self.operand_tainted(body, ops[1]) or self.operand_tainted(body, ops[0])]
            elif k in ("DivisionByZero", "RemainderByZero"):
                kind = "assert." + k
                # the divisor is visible in the assert condition: cond = Ne/Eq(divisor, 0)
                tainted = [True]
            elif k == "OverflowNeg":
                kind = "assert.OverflowNeg"
                tainted = [self.operand_tainted(body, ops[0])]
            else:
                kind = "assert." + k
                tainted = [True]
            detail = " ".join(operand_name(body, o, e) for o, e in zip(ops, exs))
            s = mk(bb, kind, detail, exs, tainted, t["sp"], t)
            s.odetail = " ".join(compact(R_pos(e)) for e in exs)
            out.append(s)
        for cs in body.calls():
            if cs.fn is None:
                continue
            d = cs.fn["def"]
            for table in (PANICKERS, ALLOCATORS):
                for rx, kind, which in table:
                    if rx.search(d):
                        n = len(body.blocks[cs.bb]["stmts"])
                        exs = [O.operand(a, cs.bb, n) for a in cs.args]
                        if which == "none":
                            tainted = [True]
                        elif which == "any":
                            tainted = [self.operand_tainted(body, a) for a in cs.args]
                        else:
                            tainted = [self.operand_tainted(body, cs.args[i]) for i in which if i < len(cs.args)]
                            exs_sel = [exs[i] for i in which if i < len(cs.args)]
                        if kind == "index":
                            ity = cs.term.get("argtys", ["", ""])[1] if len(cs.term.get("argtys", [])) > 1 else ""
                            if "RangeFull" in ity:
                                break
                        if kind == "alloc-take":
                            sty = cs.fn.get("self_ty", "") or (cs.term.get("argtys", [""])[0])
                            if "Repeat" not in sty:
                                break
                        kk = "call." + kind
                        detail = X.short(d)
                        s = mk(cs.bb, kk, detail, exs, tainted, cs.sp, cs.term, cs)
                        if which not in ("none", "any"):
                            s.tops = exs_sel
                        out.append(s)
                        break
                else:
                    continue
                break
        return out


def R_pos(ex):
    from .rules import positional
    return positional(ex)


# ---------------------------------------------------------------------- discharge
PURE_LEAF_CALLS = ("len", "count", "min", "max", "from", "into", "saturating_sub", "saturating_add", "wrapping_sub",
                   "wrapping_add", "leading_zeros", "clone", "unwrap_or", "unwrap_or_default", "copied", "cloned", "size_of", "deref", "as_ref", "borrow",
                   "to_owned", "abs_diff", "capacity", "as_bytes", "as_slice", "as_str", "index", "start", "end")


def leaves(ex, out=None, opaque=()):
    """identity strings of the non-constant leaves of an origin expression; the result of a call is an opaque
    leaf identified by its call site, except for pure projections (len, min, from, …) which are looked through.
    `opaque` names pure calls that must not be looked through for the question at hand: a test `min(a, b) < k` does not
    bound `a` from above (guards: opaque = min), and a bound on `a` does not bound `max(a, b)` (operands: opaque = max)."""
    if out is None:
        out = set()
    k = ex[0]
    if k == "param":
        out.add("param:%d" % ex[1])
    elif k == "call":
        if X.last_seg(ex[1]) in PURE_LEAF_CALLS and X.last_seg(ex[1]) not in opaque:
            if X.last_seg(ex[1]) in ("min", "max"):
                out.add("call:%s@%s" % (X.short(ex[1]), ex[4]))     # the clamped value itself may be what a test looks at
            for a in ex[3]:
                leaves(a, out, opaque)
        else:
            out.add("call:%s@%s" % (X.short(ex[1]), ex[4]))
    elif k == "callind":
        out.add("callind@%s" % (ex[3],))
    elif k == "field":
        out.add("field:" + X.render(ex))
        leaves(ex[1], out, opaque)
    elif k in ("mutated", "loop"):
        out.add("%s:%s" % (k, ex[1]))
    elif k == "assoc":
        out.add("assoc:%s::%s" % (ex[3], ex[2]))
    elif k == "env":
        out.add("env")
    elif k in ("deref", "ref", "downcast", "discr", "mut", "overflowflag", "repeat", "subslice", "proj?", "try"):
        leaves(ex[1], out, opaque)
    elif k == "index":
        leaves(ex[1], out, opaque)
        leaves(ex[2], out, opaque)
    elif k == "bin":
        leaves(ex[2], out, opaque)
        leaves(ex[3], out, opaque)
    elif k in ("un", "cast"):
        leaves(ex[2], out, opaque)
    elif k == "agg":
        for _, e in ex[4]:
            leaves(e, out, opaque)
    elif k == "phi":
        for a in ex[1]:
            leaves(a, out, opaque)
    elif k == "unwrap_or":
        leaves(ex[1], out, opaque)
        leaves(ex[2], out, opaque)
    return out


def interval(ex, body, depth=0):
    """conservative integer interval of an origin expression from types, constants, min/mask/shift"""
    INF = (-(2 ** 200), 2 ** 200)
    if depth > 20:
        return INF
    k = ex[0]
    if k == "const":
        return (ex[1], ex[1])
    if k == "cast":
        inner = interval(ex[2], body, depth + 1)
        rng = X.INT_RANGES.get(ex[1])
        frm = X.INT_RANGES.get(ex[4]) if len(ex) > 4 else None
        if frm:
            inner = (max(inner[0], frm[0]), min(inner[1], frm[1]))
        if rng and rng[0] <= inner[0] and inner[1] <= rng[1]:
            return inner
        return rng or INF
    if k == "bin":
        op = X.norm_op(ex[1])
        a = interval(ex[2], body, depth + 1)
        b = interval(ex[3], body, depth + 1)
        ty = X.INT_RANGES.get(ex[4]) if len(ex) > 4 else None
        r = INF
        try:
            if op == "Add":
                r = (a[0] + b[0], a[1] + b[1])
            elif op == "Sub":
                r = (a[0] - b[1], a[1] - b[0])
            elif op == "Mul":
                c = [a[0] * b[0], a[0] * b[1], a[1] * b[0], a[1] * b[1]]
                r = (min(c), max(c))
            elif op == "Div" and b[0] > 0:
                c = [a[0] // b[0], a[0] // b[1], a[1] // b[0], a[1] // b[1]]
                r = (min(c), max(c))
            elif op == "Rem" and b[0] > 0 and a[0] >= 0:
                r = (0, b[1] - 1)
            elif op == "BitAnd":
                if b[0] >= 0 and a[0] >= 0:
                    r = (0, min(a[1], b[1]))
                elif b[0] >= 0:
                    r = (0, b[1])
                elif a[0] >= 0:
                    r = (0, a[1])
            elif op == "Shr" and a[0] >= 0 and b[0] >= 0:
                r = (a[0] >> min(b[1], 300), a[1] >> b[0])
            elif op == "Shl" and a[0] >= 0 and 0 <= b[0] and b[1] < 200:
                r = (a[0] << b[0], a[1] << b[1])
        except Exception:
            r = INF
        if ty:
            # the operation itself is checked by its own Assert; the result fits its type
            r = (max(r[0], ty[0]), min(r[1], ty[1]))
        return r
    if k == "call":
        r = _call_interval(ex, body, depth)
        ty = X.INT_RANGES.get(ex[5]) if len(ex) > 5 else None
        if ty:
            r = (max(r[0], ty[0]), min(r[1], ty[1]))
        return r
    if k in ("phi",):
        rs = [interval(a, body, depth + 1) for a in ex[1]]
        return (min(r[0] for r in rs), max(r[1] for r in rs))
    if k == "unwrap_or":
        a = type_interval(ex[1])
        b = interval(ex[2], body, depth + 1)
        return (min(a[0], b[0]), max(a[1], b[1]))
    if k == "mut":
        return INF
    if k == "param":
        ty = body.locals[ex[1]]["ty"] if ex[1] < len(body.locals) else ""
        return X.INT_RANGES.get(ty, INF)
    if k == "field" and ex[2] == "0" and ex[1][0] == "downcast" and ex[1][2] == "Some":
        inner = ex[1][1]
        while inner[0] in ("ref", "deref", "mut"):
            inner = inner[1]
        if inner[0] == "call" and X.last_seg(inner[1] or "") in ("position", "rposition"):
            return (0, MEM_BOUND)       # an index into an in-memory sequence (assumption MEM_BOUND)
    if k == "field" and len(ex) > 3:
        return X.INT_RANGES.get(ex[3], INF)
    if k == "index" and len(ex) > 3:
        return X.INT_RANGES.get(ex[3], INF)
    if k == "mut":
        inner = ex[1]
        return INF
    return INF


MEM_BOUND = 2 ** 56   # assumption: no in-memory buffer / collection holds 2^56 or more elements


def _call_interval(ex, body, depth):
    INF = (-(2 ** 200), 2 ** 200)
    if True:
        name = X.last_seg(ex[1])
        args = ex[3]
        if name in ("len", "count", "capacity") and len(args) == 1:
            return (0, MEM_BOUND)
        if name in ("min",) and len(args) == 2:
            a, b = interval(args[0], body, depth + 1), interval(args[1], body, depth + 1)
            return (min(a[0], b[0]), min(a[1], b[1]))
        if name in ("max",) and len(args) == 2:
            a, b = interval(args[0], body, depth + 1), interval(args[1], body, depth + 1)
            return (max(a[0], b[0]), max(a[1], b[1]))
        if name in ("from", "into") and len(args) == 1:
            return interval(args[0], body, depth + 1)
        if name in ("leading_zeros", "trailing_zeros", "leading_ones", "trailing_ones", "count_ones", "count_zeros"):
            m = re.search(r"impl ([iu](?:8|16|32|64|128|size))>", ex[1] or "")
            bits = {"8": 8, "16": 16, "32": 32, "64": 64, "128": 128, "size": 64}.get(m.group(1)[1:], 128) if m else 128
            return (0, bits)
        if name == "saturating_sub" and len(args) == 2:
            a, b = interval(args[0], body, depth + 1), interval(args[1], body, depth + 1)
            if a[0] >= 0 and b[0] >= 0:
                return (max(0, a[0] - b[1]), max(0, a[1] - b[0]))
            return (max(0, a[0] - b[1]) if a[0] >= 0 else a[0] - b[1], a[1])
        if name == "size_of":
            return (0, 2 ** 16)
        ty = ex[5] if len(ex) > 5 else None
        return X.INT_RANGES.get(ty, INF)


def type_interval(ex):
    return (-(2 ** 200), 2 ** 200)


OPTION_PURE = ("next", "checked_sub", "checked_add", "checked_mul", "checked_div", "checked_shl", "checked_shr",
               "get", "get_mut", "position", "find", "first", "last", "pop", "pop_front", "peek", "strip_prefix",
               "strip_suffix", "checked_neg", "checked_pow", "try_from", "try_into", "next_back", "split_first",
               "split_last", "checked_rem", "nth", "rposition", "find_map", "binary_search")


class Guard:
    __slots__ = ("bb", "kind", "op", "L", "R", "Lc", "Rc", "text", "direct", "negated", "Ln", "Rn")

    def all(self):
        return self.L | self.R


def _constval(ex):
    e = F.strip_casts(ex)
    return e[1] if e[0] == "const" else None


def neg_leaves(ex, out=None, under=False):
    """leaves of an origin expression that occur only as (part of) the subtrahend of a subtraction that cannot wrap: `a - p`
    (overflow-checked), `a.saturating_sub(p)`, `a.checked_sub(p)`.  Where such a difference is compared from below
    (`a.saturating_sub(p) >= n`), it is `p` that is bounded from above."""
    top = out is None
    if out is None:
        out = (set(), set())        # (negative occurrences, positive occurrences)
    if not isinstance(ex, tuple) or not ex:
        return set() if top else None
    k = ex[0]
    if k == "bin" and X.norm_op(ex[1]) == "Sub" and "Unchecked" not in ex[1]:
        neg_leaves(ex[2], out, under)
        neg_leaves(ex[3], out, not under)
    elif k == "call" and X.last_seg(ex[1] or "") in ("saturating_sub", "checked_sub") and len(ex[3]) == 2:
        neg_leaves(ex[3][0], out, under)
        neg_leaves(ex[3][1], out, not under)
    elif k in ("bin",):
        neg_leaves(ex[2], out, under)
        neg_leaves(ex[3], out, under)
    elif k in ("cast", "un"):
        neg_leaves(ex[2], out, under)
    elif k in ("deref", "ref", "downcast", "mut", "try") or (k == "field" and ex[1][0] in ("downcast", "try")):
        neg_leaves(ex[1], out, under)
    else:
        out[0 if under else 1].update(leaves(ex))
    if top:
        return out[0] - out[1]
    return None


class Guards:
    """comparisons that dominate a program point, as leaf sets"""

    def __init__(self, T, body):
        self.body = body
        O = T.origins(body)
        self.guards = []
        # call-site leaf -> blocks of the matching call sites (to recognise results of a *later* call: a comparison that
        # runs before the call on every path - a loop header testing the value carried over from the previous
        # iteration - says nothing about the result the call returns this time)
        self.call_blocks = {}
        for cs in body.calls():
            if cs.callee:
                self.call_blocks.setdefault("call:%s@%s" % (X.short(cs.callee), cs.loc()), set()).add(cs.bb)
        for bb, t in body.switches():
            ex = O.switch_cond(bb)
            self._collect(bb, ex)
        for g in self.guards:
            g.L = self._fresh(g.bb, g.L)
            g.R = self._fresh(g.bb, g.R)
        self._import_callee_validations(T, body, O)

    def _import_callee_validations(self, T, body, O):
        """`check(a, b, n)?;` - a local function that returns Result, whose result is propagated with `?`, and that compares
        its parameters on a branch one side of which can only fail: on the continuation those comparisons hold for the
        arguments.  They are added as (non-direct) guards at the call, with the parameters replaced by the arguments."""
        from .rules import substitute
        for cs in body.calls():
            if cs.fn is None or cs.target is None or "Result<" not in (cs.term.get("dty") or ""):
                continue
            # the result must be consumed by `?`
            used = False
            for c2 in body.calls():
                if c2.name == "branch" and c2.bb in body.reach_from(cs.target) and c2.args and c2.args[0].get("k") in ("copy", "move") \
                        and not cs.dest["p"] and c2.args[0]["pl"]["l"] == cs.dest["l"]:
                    used = True
            if not used:
                continue
            for t in T.targets(body, cs):
                if t.crate != body.crate or t.def_kind not in ("Fn", "AssocFn"):
                    continue
                key = ("val", t.key)
                cache = getattr(T, "_valcache", None)
                if cache is None:
                    cache = T._valcache = {}
                if key not in cache:
                    Ot = T.origins(t)
                    cache[key] = [c for c in F.comparisons(t, Ot) if c.validating and c.lex is not None]
                vals = cache[key]
                if not vals:
                    continue
                pn = t.param_names()
                args = O.call_args(cs)
                sub = {pn[i + 1]: a for i, a in enumerate(args) if pn.get(i + 1)}
                for c in vals:
                    g = Guard()
                    g.bb, g.kind, g.op = cs.bb, "cmp", "Le"
                    g.direct = g.negated = False
                    l = substitute(c.lex, sub)
                    r = substitute(c.rex, sub) if c.rex is not None else None
                    g.L = leaves(l, opaque=("min",))
                    g.R = leaves(r, opaque=("min",)) if r is not None else set()
                    g.Lc = g.Rc = None
                    g.text = "%s validated by %s (%s)" % (c.raw[:80], X.short(t.path), cs.loc())
                    self.guards.append(g)

    def _fresh(self, bb, ls):
        out = set()
        stale = []
        for l in ls:
            blocks = self.call_blocks.get(l) if l.startswith("call:") else None
            if blocks and all(c != bb and self.body.dominates(bb, c) for c in blocks):
                stale.append(l[len("call:"):].rsplit("@", 1)[0] + "(")      # stale: value of an earlier loop iteration
                continue
            out.add(l)
        if stale:
            # projections of a stale call result are stale as well
            out = {l for l in out if not (l.startswith("field:") and any(nm in l for nm in stale))}
        return out

    def _add(self, bb, kind, op, l, r, text, direct=False, negated=False):
        g = Guard()
        g.bb, g.kind, g.op, g.text = bb, kind, op, text
        g.direct, g.negated = direct, negated
        # upper-bound reading of a comparison: what is under `min` is not bounded by it
        g.L, g.R = (leaves(l, opaque=("min",)) if l is not None else set()), (leaves(r, opaque=("min",)) if r is not None else set())
        g.Lc, g.Rc = (_constval(l) if l is not None else None), (_constval(r) if r is not None else None)
        g.Ln, g.Rn = (neg_leaves(l) if l is not None else set()), (neg_leaves(r) if r is not None else set())
        self.guards.append(g)

    def _collect(self, bb, ex):
        top = ex
        neg = False
        while top[0] in ("un", "cast"):
            if top[0] == "un" and top[1] == "Not":
                neg = not neg
            top = top[2]
        for e in X.walk(ex):
            if e[0] == "bin" and X.norm_op(e[1]) in X.CMP_OPS:
                self._add(bb, "cmp", X.norm_op(e[1]), e[2], e[3], X.render(e), direct=(e is top), negated=neg)
            elif e[0] == "call":
                nm = X.last_seg(e[1])
                if nm in ("eq", "ne", "lt", "le", "gt", "ge", "contains", "is_empty", "starts_with", "ends_with",
                          "contains_key", "is_char_boundary", "cmp", "partial_cmp"):
                    a = e[3][0] if e[3] else None
                    b = e[3][1] if len(e[3]) > 1 else None
                    self._add(bb, "cmpcall", nm, a, b, X.render(e))
        ex0 = ex
        while ex0[0] in ("un", "cast"):
            ex0 = ex0[2]
        if ex0[0] == "discr":
            inner = ex0[1]
            while inner[0] in ("ref", "deref", "mut"):
                inner = inner[1]
            if inner[0] == "call" and X.last_seg(inner[1]) in OPTION_PURE:
                g = Guard()
                g.direct = g.negated = False
                g.bb, g.kind, g.op, g.text = bb, "discr", X.last_seg(inner[1]), X.render(ex0)
                g.L = {"call:%s@%s" % (X.short(inner[1]), inner[4])}
                if X.last_seg(inner[1]) in X.CHECKED:
                    # the unwrapped payload is reconstructed as plain arithmetic over the same operands
                    for a in inner[3]:
                        g.L |= leaves(a)
                g.R = set()
                g.Lc = g.Rc = None
                self.guards.append(g)
            else:
                g = Guard()
                g.direct = g.negated = False
                g.bb, g.kind, g.op, g.text = bb, "variant", "discr", X.render(ex0)
                g.L = leaves(inner)
                g.R = set()
                g.Lc = g.Rc = None
                self.guards.append(g)

    def dominating(self, bb, kinds=("cmp", "cmpcall", "discr")):
        return [g for g in self.guards if g.kind in kinds and g.bb != bb and self.body.dominates(g.bb, bb)]


def _side(body, g, bb):
    """which outcome of the comparison dominates block `bb`: True / False / None"""
    t = body.blocks[g.bb]["term"]
    if not t or t["k"] != "switch" or len(t["targets"]) != 1:
        return None
    tr, fl = t["otherwise"], t["targets"][0]
    in_t = bb == tr or body.dominates(tr, bb)
    in_f = bb == fl or body.dominates(fl, bb)
    if in_t and not in_f and len(body.pred[tr]) == 1:
        return not g.negated
    if in_f and not in_t and len(body.pred[fl]) == 1:
        return g.negated
    return None


def _both_sides_reach(body, g, bb):
    """the comparison decides a two-way branch and the sink is reachable from both of its successors"""
    t = body.blocks[g.bb]["term"]
    if not t or t["k"] != "switch" or len(t["targets"]) != 1:
        return False
    tr, fl = t["otherwise"], t["targets"][0]
    return bb in body.reach_from(tr) and bb in body.reach_from(fl)


def upper_guard(dom, ex, body=None, bb=None, allow_discr=True):
    """a dominating ordering comparison that can bound `ex` from above (or the Option it was unwrapped from).
    `allow_discr=False`: a variant test (`try_from(x)` is Ok, `checked_add(..)` is Some) only says that the tested value fits its
    own type - it bounds nothing in a *further* addition or multiplication of the payload"""
    ls = leaves(ex, opaque=("max",))
    if not ls:
        return None
    for g in dom:
        if g.kind == "discr" and not allow_discr and not re.match(r"^discr\((\(?\*?&?(mut\()?)*(\w+::)*Iterator::next\(", g.text or ""):
            continue        # (the Some test of `iterator.next()` is the loop bound of its payload and stays a guard)
        if g.kind == "cmp" and g.direct and body is not None and g.op in ("Lt", "Le", "Gt", "Ge"):
            side = _side(body, g, bb)
            if side is not None:
                for mine, left, negs in ((g.L, True, getattr(g, "Ln", None) or set()), (g.R, False, getattr(g, "Rn", None) or set())):
                    hit = mine & ls
                    if hit:
                        below = (g.op in ("Lt", "Le")) == left      # `x < c` / `c > x`: true side bounds x from above
                        if hit <= negs:
                            below = not below       # `a.saturating_sub(x) >= n`: the value is the subtrahend of this side
                        if below == side:
                            return g
                continue
            if _both_sides_reach(body, g, bb):
                continue        # `if x > k { log }`: both outcomes flow on to the sink, nothing is known about x there
        if g.kind == "discr":
            if g.L & ls:
                return g
            continue
        if g.kind == "cmpcall":
            if g.op in ("contains", "is_char_boundary") and (g.all() & ls):
                return g
            continue
        if g.op not in ("Lt", "Le", "Gt", "Ge"):
            continue
        for mine, other, oc in ((g.L, g.R, g.Rc), (g.R, g.L, g.Lc)):
            if mine & ls:
                if oc is not None and oc <= 1:
                    continue      # `x > 0`, `x >= 1`: lower-bound / emptiness tests
                return g
    return None


def guard_max(body, g, bb, ex):
    """largest value the guard `g` leaves for `ex` at block bb when `ex` is the compared value itself and the other side is a
    constant; None when the guard has another shape"""
    if g.kind != "cmp" or not g.direct or g.op not in ("Lt", "Le", "Gt", "Ge"):
        return None
    ls = leaves(F.strip_casts(ex))
    e = F.strip_casts(ex)
    if e[0] in ("bin", "un", "phi"):
        return None          # an expression over the compared value: no exact reading
    side = _side(body, g, bb)
    if side is None:
        return None
    if g.L & ls and g.Rc is not None:
        c, left = g.Rc, True
    elif g.R & ls and g.Lc is not None:
        c, left = g.Lc, False
    else:
        return None
    op = g.op if left else {"Lt": "Gt", "Le": "Ge", "Gt": "Lt", "Ge": "Le"}[g.op]      # read as `x op c`
    if side:        # comparison true on the way to bb
        return {"Lt": c - 1, "Le": c}.get(op)
    return {"Gt": c, "Ge": c - 1}.get(op)


def sub_guard(dom, a, b):
    """a dominating comparison relating minuend and subtrahend of `a - b`"""
    la, lb = leaves(a), leaves(b)
    bc = _constval(b)
    for g in dom:
        if g.kind == "discr":
            if g.L & (la | lb):
                return g
            continue
        if g.kind == "cmpcall" and g.op not in ("eq", "ne", "lt", "le", "gt", "ge", "cmp", "partial_cmp", "is_empty"):
            continue
        if bc is not None or not lb:
            if la and (g.all() & la):
                return g
            continue
        if not la:
            if g.all() & lb:
                return g
            continue
        if (g.L & la and g.R & lb) or (g.L & lb and g.R & la):
            return g
    # transitive: a and b are both compared with a common third quantity (lower <= value <= upper)
    if la and lb:
        third_a, third_b = set(), set()
        ga = gb = None
        for g in dom:
            if g.kind != "cmp" or g.op not in ("Lt", "Le", "Gt", "Ge"):
                continue
            for mine, other in ((g.L, g.R), (g.R, g.L)):
                if mine & la and other and not (other & la):
                    third_a |= other
                    ga = ga or g
                if mine & lb and other and not (other & lb):
                    third_b |= other
                    gb = gb or g
        if third_a & third_b:
            g = Guard()
            g.direct = g.negated = False
            g.bb, g.kind, g.op, g.L, g.R, g.Lc, g.Rc = ga.bb, "cmp", "transitive", la, lb, None, None
            g.text = "%s and %s (common bound)" % (ga.text, gb.text)
            return g
    return None


def op_type_of_assert(T, s):
    O = T.origins(s.body)
    n = len(s.body.blocks[s.bb]["stmts"])
    c = O.operand(s.term["cond"], s.bb, n)
    for e in X.walk(c):
        if e[0] == "bin" and len(e) > 4:
            return e[4]
    return None


def discharge(T, s, guards_cache):
    """returns (code, reason) when the sink is irrelevant or discharged, None when it is left open"""
    body = s.body
    if not any(s.tainted):
        return ("untainted", "no operand derives from the source set")
    g = guards_cache.get(body.key)
    if g is None:
        g = guards_cache[body.key] = Guards(T, body)
    kind = s.kind
    dom = g.dominating(s.bb)

    if kind.startswith("assert.Overflow."):
        op = kind.split(".")[-1]
        a, b = s.ops
        lty = op_type_of_assert(T, s)
        rng = X.INT_RANGES.get(lty)
        if rng:
            iv = interval(("bin", op, a, b), body)
            if rng[0] <= iv[0] and iv[1] <= rng[1]:
                return ("D2", "operand ranges %s keep %s inside %s" % (iv, op, lty))
        ta, tb = s.tainted
        if op in ("Shl", "Shr"):
            if not tb:
                return ("untainted", "shift amount does not derive from the source set")
            bi = interval(b, body)
            bits = {"u8": 8, "i8": 8, "u16": 16, "i16": 16, "u32": 32, "i32": 32, "u64": 64, "i64": 64, "usize": 64,
                    "isize": 64, "u128": 128, "i128": 128}.get(lty)
            if bits and 0 <= bi[0] and bi[1] < bits:
                return ("D2", "shift amount range %s below the width of %s" % (bi, lty))
            gd = upper_guard(dom, b, body, s.bb)
            if gd is not None and bits:
                # a shift needs more than *some* upper bound: when the amount itself is compared with a constant, that constant
                # must keep it below the width (`if n > 64 { return Err }` still admits `x << 64`)
                mx = guard_max(body, gd, s.bb, b)
                if mx is not None and mx >= bits:
                    return None
            return ("D1", "dominating comparison `%s`" % gd.text) if gd else None
        if op == "Sub":
            gd = sub_guard(dom, a, b)
            return ("D1", "dominating comparison `%s` relates both operands" % gd.text) if gd else None
        need = [e for e, t in ((a, ta), (b, tb)) if t]
        got = []
        for e in need:
            gd = upper_guard(dom, e, body, s.bb, allow_discr=False)
            if gd is not None:
                got.append("D1 dominating comparison `%s`" % gd.text)
                continue
            iv = interval(e, body)
            if rng and 0 <= iv[0] and iv[1] <= MEM_BOUND and rng[1] >= 2 ** 63 - 1 and op == "Add":
                got.append("D2 operand range %s" % (iv,))
                continue
            cv = callee_validated(T, s, e)
            if cv is None:
                return None
            got.append("D4 " + cv)
        return (got[0][:2], " ; ".join(got))
    if kind == "assert.OverflowNeg":
        iv = interval(s.ops[0], body)
        if iv[0] > -(2 ** 7):
            return ("D2", "operand range %s excludes the minimum of its type" % (iv,))
        gd = upper_guard(dom, s.ops[0], body, s.bb)
        return ("D1", "dominating comparison `%s`" % gd.text) if gd else None
    if kind in ("assert.DivisionByZero", "assert.RemainderByZero"):
        O = T.origins(body)
        n = len(body.blocks[s.bb]["stmts"])
        c = O.operand(s.term["cond"], s.bb, n)
        for e in X.walk(c):
            if e[0] == "bin" and X.norm_op(e[1]) in ("Eq", "Ne"):
                for side in (e[2], e[3]):
                    sd = F.strip_casts(side)
                    other = e[3] if side is e[2] else e[2]
                    od = F.strip_casts(other)
                    if sd[0] == "const" and sd[1] == 0 and od[0] == "const" and od[1] != 0:
                        return ("D3", "division by the non-zero constant %s" % od[1])
        return None
    if kind == "assert.BoundsCheck":
        ln, idx = s.ops
        li = interval(ln, body)
        ii = interval(idx, body)
        if li[0] == li[1] and 0 <= ii[0] and ii[1] < li[0]:
            return ("D2", "index range %s below fixed length %d" % (ii, li[0]))
        gd = upper_guard(dom, idx, body, s.bb)
        if gd:
            return ("D5", "index is compared / produced by `%s`" % gd.text)
        return None
    if kind == "call.unwrap":
        arg = s.ops[0] if s.ops else None
        if arg is not None:
            ls = leaves(arg)
            for gd in g.dominating(s.bb, kinds=("variant", "discr")):
                if gd.L & ls:
                    return ("D1", "variant tested by `%s`" % gd.text)
        return None
    tainted_ops = [e for e, t in zip(s.tops, s.tainted) if t]
    if kind.startswith("call.alloc"):
        for e in tainted_ops:
            iv = interval(e, body)
            if 0 <= iv[0] and iv[1] <= 1 << 20:
                continue
            if upper_guard(dom, e, body, s.bb) is None:
                return None
        return ("D1", "allocation size bounded by a dominating comparison or by its type")
    if kind == "call.panic":
        return None
    # index / slice / split / vec-index …
    for e in tainted_ops:
        if kind.startswith("call.index") and s.ops and _clamped_to_own_length(e, s.ops[0]):
            continue        # `&buf[..buf.len().min(k)]`: every bound of the range is a minimum with the length of what is indexed
        if upper_guard(dom, e, body, s.bb) is None:
            return None
    return ("D5", "arguments compared by a dominating test") if tainted_ops else ("untainted", "")


def _clamped_to_own_length(rng, base):
    """is every bound of the range aggregate `rng` of the form `min(len(base), ..)` (or a constant 0)?"""
    def bare(e):
        e = F.strip_casts(e)
        while e[0] in ("ref", "deref", "mut"):
            e = F.strip_casts(e[1])
        return e
    r = bare(rng)
    if r[0] != "agg" or not r[4]:
        return False
    b0 = F.rd(bare(base))
    for _, bound in r[4]:
        x = bare(bound)
        if x[0] == "const":
            if x[1] != 0:
                return False
            continue
        if not (x[0] == "call" and X.last_seg(x[1] or "") == "min" and len(x[3]) == 2):
            return False
        ok = False
        for a in x[3]:
            a = bare(a)
            if a[0] == "call" and X.last_seg(a[1] or "") == "len" and len(a[3]) == 1 and F.rd(bare(a[3][0])) == b0:
                ok = True
        if not ok:
            return False
    return True


def validated_params(T, body, depth=0):
    """parameter indices of `body` that take part in a comparison one of whose outcomes can only
    reach error returns (directly, or in a callee the parameter is handed to unchanged; depth 2)"""
    cache = T.__dict__.setdefault("_validated", {})
    if body.key in cache:
        return cache[body.key]
    cache[body.key] = set()
    out = set()
    O = T.origins(body)
    for c in F.comparisons(body, O):
        if not c.validating:
            continue
        for side in (c.lex, c.rex):
            if side is None:
                continue
            for e in X.walk(side):
                if e[0] == "param":
                    out.add(e[1])
    if depth < 2:
        for cs in body.calls():
            for t in T.targets(body, cs):
                vp = validated_params(T, t, depth + 1)
                if not vp:
                    continue
                args = O.call_args(cs)
                for i, a in enumerate(args):
                    if (i + 1) in vp:
                        for e in X.walk(a):
                            if e[0] == "param":
                                out.add(e[1])
    cache[body.key] = out
    return out


def callee_validated(T, s, ex):
    """D4: the value was passed, at a call that dominates the sink, to a fallible workspace callee that compares the
    corresponding parameter on a validating branch"""
    body = s.body
    O = T.origins(body)
    ls = leaves(ex)
    if not ls:
        return None
    for cs in body.calls():
        if cs.target is None or not body.dominates(cs.target, s.bb):
            continue
        targets = T.targets(body, cs)
        if not targets:
            continue
        args = O.call_args(cs)
        for i, a in enumerate(args):
            if leaves(a) & ls:
                if all((i + 1) in validated_params(T, t) for t in targets):
                    return "validated by callee %s (parameter %d) at %s" % (X.short(cs.callee), i + 1, cs.loc())
    return None


def compact(ex, depth=0):
    """short, refactor-tolerant descriptor of an origin expression (depth-limited)"""
    k = ex[0]
    if k == "const":
        return str(ex[1])
    if k == "param":
        return ex[2]
    if k == "assoc":
        return "%s::%s" % (ex[3], ex[2])
    if k == "upvar":
        return ex[2]
    if depth >= 2:
        return "…"
    d = depth + 1
    if k in ("cast", "un"):
        return compact(ex[2], depth)
    if k in ("ref", "deref", "mut"):
        return compact(ex[1], depth)
    if k == "try":
        return compact(ex[1], depth) + "?"
    if k == "field":
        return "%s.%s" % (compact(ex[1], depth), ex[2])
    if k == "downcast":
        return compact(ex[1], depth)
    if k == "bin":
        return "(%s %s %s)" % (compact(ex[2], d), X.norm_op(ex[1]), compact(ex[3], d))
    if k == "call":
        return "%s()" % X.last_seg(ex[1])
    if k == "index":
        return "%s[]" % compact(ex[1], d)
    if k == "unwrap_or":
        return "unwrap_or(%s,%s)" % (compact(ex[1], d), compact(ex[2], d))
    if k == "phi":
        return "phi"
    if k == "agg":
        return X.last_seg(ex[2]) if ex[1] == "adt" else ex[1]
    return k


def operand_name(body, op, ex, depth=0):
    """source-level name of an assert operand when it has one, else a compact origin descriptor"""
    if op["k"] == "const":
        return compact(ex)
    pl = op.get("pl")
    if pl is None:
        return compact(ex)
    l = pl["l"]
    nm = body.names.get(l)
    if nm is not None:
        suffix = "".join("." + p["n"] for p in pl["p"] if p["k"] == "field")
        return nm + suffix
    if depth < 4 and not pl["p"]:
        ds = [d for d in body.defs.get(l, ()) if d[2] == "assign"]
        if len(ds) == 1 and len(body.defs.get(l, ())) == 1:
            rv = ds[0][3]
            if rv["k"] in ("use", "cast") and rv["op"]["k"] in ("copy", "move"):
                return operand_name(body, rv["op"], ex, depth + 1)
            if rv["k"] == "copyderef":
                return operand_name(body, {"k": "copy", "pl": rv["pl"]}, ex, depth + 1)
    return compact(ex)

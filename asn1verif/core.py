"""Check context: rule-instance bookkeeping, known findings, violation and evidence files."""
import json
import os
import random
import sys
import time

from . import extract, mir

VERIF = extract.VERIF


class AnchorLost(Exception):
    pass


class Ctx:
    def __init__(self, prop, tier="quick", seed=0):
        self.prop = prop
        self.tier = tier
        self.seed = seed
        self.t0 = time.time()
        self.instances = []      # dicts: rule,key,status,what,loc,detail,nontrivial
        self.rules = {}          # rule -> description
        self.analysed = {}
        self.assumptions = []
        self._programs = {}
        self.default_config = os.environ.get("VERIF_CONFIG", "A")
        self._src = None
        self.samples = []
        with open(os.path.join(VERIF, "tables", "anchors.json")) as fh:
            self.floors = json.load(fh)
        with open(os.path.join(VERIF, "known_findings.json")) as fh:
            self.known = json.load(fh)

    # ------------------------------------------------------------ facts
    def program(self, config=None):
        config = config or self.default_config
        if config not in self._programs:
            d = extract.ensure_mir(config)
            p = mir.Program(d)
            self._programs[config] = p
            self.analysed["functions_not_in_known_fns_" + config] = len(getattr(p, "new_functions", []))
            if p.inlined:
                self.analysed["expanded_helpers_" + config] = sorted({"%s into %s" % (h.split("::", 1)[1], c.split("::", 1)[1]) for h, c, _ in p.inlined})[:40]
            if self._src is not None:
                self._src.attach(p)
            self.analysed.setdefault("configs", []).append(config)
            self.analysed["bodies_" + config] = len(p.bodies)
        return self._programs[config]

    def src(self):
        if self._src is None:
            from . import srcfacts
            self._src = srcfacts.Source(extract.ensure_src())
            for p in self._programs.values():
                self._src.attach(p)
            self.analysed["source_files"] = len(self._src.files)
        return self._src

    # ------------------------------------------------------------ recording
    def rule(self, rule, description):
        self.rules[rule] = description

    def ok(self, rule, key, detail=None, nontrivial=True):
        self.instances.append({"rule": rule, "key": key, "status": "ok", "detail": detail, "nontrivial": nontrivial})

    def fail(self, rule, key, what, loc="?", detail=None, alt_keys=()):
        self.instances.append({"rule": rule, "key": key, "status": "fail", "what": what, "loc": loc,
                               "detail": detail, "nontrivial": True, "alt_keys": list(alt_keys)})

    def anchor(self, rule, name, value):
        """fail closed when a named anchor (trait, method, type, field, …) is not found"""
        if value is None or value == [] or value is False:
            self.fail(rule, "anchor-lost:" + name, "anchor not found in the current tree: " + name, "?")
            return False
        return True

    def floor(self, rule, count, name=None):
        key = name or rule
        want = self.floors.get(key)
        if want is None:
            self.fail(rule, "floor-missing:" + key, "no instance floor recorded for " + key)
            return
        if count < want:
            self.fail(rule, "floor:" + key,
                      "rule matched %d instances, fewer than the %d confirmed by hand (anchor lost or code removed)"
                      % (count, want))
        else:
            self.ok(rule, "floor:" + key, {"matched": count, "floor": want}, nontrivial=False)

    def sample(self, obj):
        self.samples.append(obj)

    # ------------------------------------------------------------ finish
    def finish(self):
        known_open = {}
        for e in self.known.get("findings", []):
            if e.get("property") == self.prop and e.get("status") == "open":
                known_open[(e["rule"], e["key"])] = e
        violations = []
        known_hits = []
        for inst in self.instances:
            if inst["status"] != "fail":
                continue
            ks = [(inst["rule"], inst["key"])] + [(inst["rule"], a) for a in inst.get("alt_keys", ())]
            hit = [k for k in ks if k in known_open]
            if hit:
                inst["status"] = "known"
                known_hits.append((inst, known_open[hit[0]]))
            else:
                violations.append(inst)
        for inst, e in known_hits:
            print("KNOWN-FINDING: property=%s %s %s — %s" % (self.prop, inst["rule"], inst["key"], e.get("what", inst["what"])))
        vdir = os.path.join(VERIF if not os.environ.get("VERIF_NO_EVIDENCE") else extract.CACHE, "violations", self.prop)
        if os.path.isdir(vdir):
            for f in os.listdir(vdir):
                try:
                    os.remove(os.path.join(vdir, f))
                except OSError:
                    pass
        for n, inst in enumerate(violations):
            os.makedirs(vdir, exist_ok=True)
            path = os.path.join(vdir, "%d.json" % n)
            with open(path, "w") as fh:
                json.dump({"property": self.prop, "rule": inst["rule"], "rule_text": self.rules.get(inst["rule"], ""),
                           "key": inst["key"], "what": inst["what"], "location": inst["loc"],
                           "detail": inst["detail"], "repo": extract.REPO}, fh, indent=1, default=str)
            print("VIOLATION property=%s replay=%s" % (self.prop, path))
            print("  rule %s at %s: %s [%s]" % (inst["rule"], inst["loc"], inst["what"], inst["key"]))
        self.write_evidence(len(violations), len(known_hits))
        return 1 if violations else 0

    def write_evidence(self, n_viol, n_known):
        insts = self.instances
        evaluations = len(insts)
        distinct = len({(i["rule"], i["key"]) for i in insts if i.get("nontrivial")})
        rnd = random.Random(self.seed)
        pool = [i for i in insts if i.get("nontrivial") and i.get("detail") is not None]
        picked = rnd.sample(pool, min(6, len(pool))) if pool else []
        samples = [{"rule": i["rule"], "instance": i["key"], "status": i["status"], "facts": i["detail"]} for i in picked]
        samples.extend(self.samples[:6])
        if not samples:
            samples = [{"rule": i["rule"], "instance": i["key"], "status": i["status"]} for i in insts[:3]]
        per_rule = {}
        for i in insts:
            r = per_rule.setdefault(i["rule"], {"instances": 0, "ok": 0, "known": 0, "violations": 0})
            r["instances"] += 1
            r[{"ok": "ok", "known": "known", "fail": "violations"}[i["status"]]] += 1
        ev = {
            "property_id": self.prop,
            "tier": self.tier,
            "seed": self.seed,
            "level": "other",
            "coverage": {
                "explanation": "static analysis of /repo's current source (MIR facts from a rustc_private driver under "
                               "cargo +nightly check, syntax facts from syn); each rule decides a structural, necessary "
                               "condition of the property — not the behaviour itself. Rules: "
                               + " | ".join("%s: %s" % (r, d) for r, d in sorted(self.rules.items())),
                "evaluations": evaluations,
                "distinct_nontrivial": distinct,
                "rule": "one evaluation = one rule instance (site, pair, table entry or path) decided on the current "
                        "tree; non-trivial = the verdict needed facts beyond looking up an anchor or a floor count",
                "samples": json.loads(json.dumps(samples, default=str)),
                "obligations": evaluations,
                "discharged": evaluations - n_viol - n_known,
                "known_findings": n_known,
                "per_rule": per_rule,
                "analysed": self.analysed,
                "repo": extract.REPO,
                "repo_hash": extract.repo_hash(),
            },
            "assumptions": self.assumptions or ["rustc nightly MIR construction and type resolution are trusted",
                                                "tables under /verif/tables are transcribed correctly from the cited standards"],
            "wall_s": round(time.time() - self.t0, 2),
            "violations": n_viol,
        }
        evdir = os.path.join(VERIF, "evidence")
        if os.environ.get("VERIF_NO_EVIDENCE"):
            # self-test runs against scratch copies must not overwrite the evidence of the real tree
            evdir = os.path.join(extract.CACHE, "evidence")
        os.makedirs(evdir, exist_ok=True)
        path = os.path.join(evdir, self.prop + ".json")
        tmp = path + ".tmp"
        with open(tmp, "w") as fh:
            json.dump(ev, fh, indent=1)
        os.rename(tmp, path)

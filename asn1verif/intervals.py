"""Interval partitioning of a loop-free predicate over one integer-like parameter: which values of the parameter reach a
`true` return.  The abstract domain is a finite union of closed intervals; every branch on a comparison of the parameter
with a constant (or a switch on the parameter itself) splits it exactly, any other branch is followed on both sides and
marks the result as imprecise.  No value is ever substituted or executed."""
from . import expr as X
from . import facts as F

TOP = [(0, 0x10FFFF)]


def inter(a, b):
    out = []
    for lo1, hi1 in a:
        for lo2, hi2 in b:
            lo, hi = max(lo1, lo2), min(hi1, hi2)
            if lo <= hi:
                out.append((lo, hi))
    return norm(out)


def minus(a, b):
    out = a
    for lo2, hi2 in b:
        nxt = []
        for lo1, hi1 in out:
            if hi2 < lo1 or lo2 > hi1:
                nxt.append((lo1, hi1))
                continue
            if lo1 < lo2:
                nxt.append((lo1, lo2 - 1))
            if hi2 < hi1:
                nxt.append((hi2 + 1, hi1))
        out = nxt
    return norm(out)


def norm(a):
    a = sorted(a)
    out = []
    for lo, hi in a:
        if out and lo <= out[-1][1] + 1:
            out[-1] = (out[-1][0], max(out[-1][1], hi))
        else:
            out.append((lo, hi))
    return out


BITS = {"u8": 8, "i8": 8, "u16": 16, "i16": 16, "u32": 32, "i32": 32, "char": 32, "u64": 64, "i64": 64, "usize": 64, "isize": 64,
        "u128": 128, "i128": 128}


def is_var(e, pidx):
    """the parameter itself, possibly widened; a narrowing cast (`c as u8`) is a different value and is not looked through"""
    while True:
        if e[0] == "cast" and len(e) > 4 and e[3] == "IntToInt":
            if BITS.get(e[1], 0) < BITS.get(e[4], 999):
                return False
            e = e[2]
        elif e[0] in ("ref", "deref"):
            e = e[1]
        else:
            break
    return e[0] == "param" and e[1] == pidx


def split(op, var_left, k, top):
    """intervals for which `var op k` (var on the left) or `k op var` holds"""
    if not var_left:
        op = F.SWAP[op]
    lo, hi = top[0][0], top[-1][1]
    t = {"Lt": [(lo, k - 1)], "Le": [(lo, k)], "Gt": [(k + 1, hi)], "Ge": [(k, hi)], "Eq": [(k, k)], "Ne": [(lo, k - 1), (k + 1, hi)]}[op]
    return norm([(a, b) for a, b in t if a <= b])


def accepted(P, body, start_bb, pidx, top=None, limit=4000):
    """(intervals of the parameter for which the function returns true, imprecise?)"""
    top = top or TOP
    O = X.Origins(body, P)
    acc = []
    imprecise = [False]
    steps = [0]

    def go(bb, iv, res, seen):
        steps[0] += 1
        if steps[0] > limit or not iv:
            if steps[0] > limit:
                imprecise[0] = True
            return
        if bb in seen:
            imprecise[0] = True
            return
        seen = seen | {bb}
        blk = body.blocks[bb]
        for s in blk["stmts"]:
            if s["k"] == "assign" and s["pl"]["l"] == 0 and not s["pl"]["p"]:
                rv = s["rv"]
                if rv["k"] == "use" and rv["op"].get("k") == "const" and rv["op"].get("ty") == "bool":
                    res = rv["op"].get("val") == "1"
                else:
                    res = None
        t = blk["term"]
        if t is None:
            return
        k = t["k"]
        if k == "goto":
            go(t["t"], iv, res, seen)
        elif k == "return":
            if res is True:
                acc.extend(iv)
            elif res is None:
                imprecise[0] = True
        elif k == "switch":
            e = O.switch_cond(bb)
            e0 = e
            neg = False
            while e0[0] == "un" and e0[1] == "Not":
                neg = not neg
                e0 = e0[2]
            if is_var(e0, pidx):
                rest = iv
                for v, tgt in zip(t["vals"], t["targets"]):
                    one = [(int(v), int(v))]
                    go(tgt, inter(iv, one), res, seen)
                    rest = minus(rest, one)
                go(t["otherwise"], rest, res, seen)
            elif e0[0] == "bin" and X.norm_op(e0[1]) in X.CMP_OPS and t.get("opty") == "bool":
                l, r = e0[2], e0[3]
                lc, rc = F.strip_casts(l), F.strip_casts(r)
                tr = None
                if is_var(l, pidx) and rc[0] == "const":
                    tr = split(X.norm_op(e0[1]), True, rc[1], top)
                elif is_var(r, pidx) and lc[0] == "const":
                    tr = split(X.norm_op(e0[1]), False, lc[1], top)
                zero_t, other_t = t["targets"][0], t["otherwise"]
                if int(t["vals"][0]) != 0:
                    zero_t, other_t = other_t, zero_t
                if tr is None:
                    imprecise[0] = True
                    go(zero_t, iv, res, seen)
                    go(other_t, iv, res, seen)
                else:
                    if neg:
                        tr = minus(top, tr)
                    go(other_t, inter(iv, tr), res, seen)
                    go(zero_t, minus(iv, tr), res, seen)
            else:
                imprecise[0] = True
                for tgt in set(t["targets"]) | {t["otherwise"]}:
                    go(tgt, iv, res, seen)
        elif k in ("call", "drop", "assert"):
            nxt = t.get("t")
            if k == "call":
                imprecise[0] = True
            if nxt is not None:
                go(nxt, iv, res, seen)
        else:
            return

    go(start_bb, top, None, frozenset())
    return norm(acc), imprecise[0]

"""Fact extraction and caching.

Every check invocation goes through `ensure_facts(config)`: the content hash of the repository
under analysis (plus the tool binaries) selects a cache directory; if it does not exist the
repository is compiled with `cargo +nightly check` through the mirfacts wrapper (MIR facts) and
parsed with srcfacts (source facts).  Nothing of the repository is executed.
"""
import fcntl
import hashlib
import json
import os
import shutil
import subprocess
import sys
import time
import uuid

VERIF = os.path.dirname(os.path.dirname(os.path.abspath(__file__)))
REPO = os.environ.get("VERIF_REPO", "/repo")
CACHE = os.environ.get("VERIF_CACHE", os.path.join(VERIF, ".cache"))
MIRFACTS_DIR = os.path.join(VERIF, "tools", "mirfacts")
SRCFACTS_DIR = os.path.join(VERIF, "tools", "srcfacts")
MIRFACTS_BIN = os.path.join(MIRFACTS_DIR, "target", "debug", "mirfacts")
SRCFACTS_BIN = os.path.join(SRCFACTS_DIR, "target", "release", "srcfacts")

CONFIGS = {
    # name: (cargo args, description)
    "A": (["--features", "protobuf"], "default + protobuf"),
    "B": (["--features", "protobuf,descriptive-deserialize-errors"],
          "default + protobuf + descriptive-deserialize-errors"),
    "T": (["--features", "protobuf", "--tests"], "config A including test targets (macro expansions)"),
}

WORKSPACE_CRATES = ("asn1rs", "asn1rs_model", "asn1rs_macros")


class ExtractionError(Exception):
    pass


def _env():
    env = dict(os.environ)
    env["CARGO_NET_OFFLINE"] = "true"
    env.pop("RUSTC_WRAPPER", None)
    return env


def nightly_sysroot():
    return subprocess.check_output(["rustc", "+nightly", "--print", "sysroot"], env=_env(), text=True).strip()


def build_tools(verbose=False):
    """Builds the two fact extractors (offline). Idempotent."""
    out = None if verbose else subprocess.DEVNULL
    if not os.path.exists(MIRFACTS_BIN) or _newer(os.path.join(MIRFACTS_DIR, "src", "main.rs"), MIRFACTS_BIN):
        r = subprocess.run(["cargo", "+nightly", "build", "--offline"], cwd=MIRFACTS_DIR, env=_env(),
                           stdout=out, stderr=subprocess.PIPE, text=True)
        if r.returncode != 0:
            raise ExtractionError("building mirfacts failed:\n" + r.stderr[-4000:])
    if os.path.isdir(SRCFACTS_DIR):
        if not os.path.exists(SRCFACTS_BIN) or _newer(os.path.join(SRCFACTS_DIR, "src", "main.rs"), SRCFACTS_BIN):
            r = subprocess.run(["cargo", "build", "--release", "--offline"], cwd=SRCFACTS_DIR, env=_env(),
                               stdout=out, stderr=subprocess.PIPE, text=True)
            if r.returncode != 0:
                raise ExtractionError("building srcfacts failed:\n" + r.stderr[-4000:])


def _newer(a, b):
    try:
        return os.path.getmtime(a) > os.path.getmtime(b)
    except OSError:
        return True


def repo_files(repo=None):
    repo = repo or REPO
    out = []
    for root, dirs, files in os.walk(repo):
        dirs[:] = sorted(d for d in dirs if d not in ("target", ".git"))
        for f in sorted(files):
            out.append(os.path.join(root, f))
    return out


def repo_hash(repo=None):
    repo = repo or REPO
    h = hashlib.sha256()
    for p in repo_files(repo):
        rel = os.path.relpath(p, repo)
        if not (rel.endswith(".rs") or rel.endswith(".toml") or rel.endswith(".lock") or rel.endswith(".asn1")
                or rel.endswith(".asn")):
            continue
        h.update(rel.encode())
        h.update(b"\0")
        try:
            with open(p, "rb") as fh:
                h.update(hashlib.sha256(fh.read()).digest())
        except OSError:
            h.update(b"?")
    for tool in (os.path.join(MIRFACTS_DIR, "src", "main.rs"), os.path.join(SRCFACTS_DIR, "src", "main.rs")):
        if os.path.exists(tool):
            with open(tool, "rb") as fh:
                h.update(hashlib.sha256(fh.read()).digest())
    return h.hexdigest()[:24]


class _Lock:
    def __init__(self, path):
        self.path = path

    def __enter__(self):
        os.makedirs(os.path.dirname(self.path), exist_ok=True)
        self.fh = open(self.path, "w")
        fcntl.flock(self.fh, fcntl.LOCK_EX)
        return self

    def __exit__(self, *a):
        fcntl.flock(self.fh, fcntl.LOCK_UN)
        self.fh.close()


def _prune_cache(keep):
    """Keep the cache small: at most 3 hash directories."""
    try:
        entries = [e for e in os.listdir(CACHE) if len(e) == 24 and os.path.isdir(os.path.join(CACHE, e))]
    except OSError:
        return
    entries = [e for e in entries if e != keep]
    entries.sort(key=lambda e: os.path.getmtime(os.path.join(CACHE, e)))
    while len(entries) > 2:
        shutil.rmtree(os.path.join(CACHE, entries.pop(0)), ignore_errors=True)


def ensure_mir(config, repo=None):
    """Returns the directory holding the MIR fact files of `config` for the current tree."""
    repo = repo or REPO
    h = repo_hash(repo)
    d = os.path.join(CACHE, h, config)
    marker = os.path.join(d, "OK")
    if os.path.exists(marker):
        return d
    with _Lock(os.path.join(CACHE, "lock-" + config)):
        if os.path.exists(marker):
            return d
        build_tools()
        _prune_cache(h)
        if os.path.isdir(d):
            shutil.rmtree(d)
        os.makedirs(d)
        nonce = uuid.uuid4().hex
        target = os.path.join(VERIF, ".cache", "target-" + config + ("" if repo == "/repo" else "-" + os.environ.get("VERIF_SLOT", "alt")))
        fp = os.path.join(target, "debug", ".fingerprint")
        if os.path.isdir(fp):
            for e in os.listdir(fp):
                if e.startswith("asn1rs"):
                    shutil.rmtree(os.path.join(fp, e), ignore_errors=True)
        env = _env()
        env["LD_LIBRARY_PATH"] = os.path.join(nightly_sysroot(), "lib") + ":" + env.get("LD_LIBRARY_PATH", "")
        env["RUSTFLAGS"] = "-Zmir-opt-level=0 -Awarnings"
        env["RUSTC_WORKSPACE_WRAPPER"] = MIRFACTS_BIN
        env["MIRFACTS_OUT"] = d
        env["MIRFACTS_NONCE"] = nonce
        env["CARGO_TARGET_DIR"] = target
        args = ["cargo", "+nightly", "check", "--offline"] + CONFIGS[config][0]
        t0 = time.time()
        r = subprocess.run(args, cwd=repo, env=env, stdout=subprocess.PIPE, stderr=subprocess.PIPE, text=True)
        if r.returncode != 0:
            raise ExtractionError("cargo check failed for config %s:\n%s" % (config, r.stderr[-6000:]))
        seen = set()
        for f in os.listdir(d):
            if not f.endswith(".json"):
                continue
            with open(os.path.join(d, f)) as fh:
                head = fh.read(400)
            if ('"nonce":"%s"' % nonce) not in head:
                raise ExtractionError("stale fact file " + f)
            seen.add(f.split("-")[0])
        for c in WORKSPACE_CRATES:
            if c not in seen:
                raise ExtractionError("no MIR facts for workspace crate %s (config %s)" % (c, config))
        with open(marker, "w") as fh:
            json.dump({"nonce": nonce, "wall_s": round(time.time() - t0, 2), "args": args}, fh)
    return d


def ensure_src(repo=None):
    """Returns the path of the source fact file (srcfacts) for the current tree."""
    repo = repo or REPO
    h = repo_hash(repo)
    d = os.path.join(CACHE, h)
    out = os.path.join(d, "src.json")
    if os.path.exists(out):
        return out
    with _Lock(os.path.join(CACHE, "lock-src")):
        if os.path.exists(out):
            return out
        build_tools()
        os.makedirs(d, exist_ok=True)
        files = [p for p in repo_files(repo) if p.endswith(".rs")]
        tmp = out + ".tmp"
        r = subprocess.run([SRCFACTS_BIN, repo, tmp] + files, stdout=subprocess.PIPE, stderr=subprocess.PIPE,
                           text=True)
        if r.returncode != 0:
            raise ExtractionError("srcfacts failed:\n" + r.stderr[-4000:])
        os.rename(tmp, out)
    return out


if __name__ == "__main__":
    build_tools(verbose=True)
    for c in sys.argv[1:] or ["A"]:
        print(c, ensure_mir(c))

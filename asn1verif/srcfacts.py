"""Loader for the syntax facts written by tools/srcfacts."""
import json


class Source:
    def __init__(self, path):
        with open(path) as fh:
            raw = json.load(fh)
        self.files = {f["path"]: f for f in raw["files"]}
        self._extra = {}     # id(source fn) -> {id(helper source fn): helper source fn}

    def fn_at(self, file, line):
        """innermost source function of `file` whose span contains `line`"""
        best = None
        for p, f in self.files.items():
            if not (p == file or p.endswith("/" + file) or file.endswith("/" + p)):
                continue
            for fn in f["fns"]:
                if fn["span"][0] <= line <= fn["span"][2]:
                    if best is None or (fn["span"][2] - fn["span"][0]) < (best["span"][2] - best["span"][0]):
                        best = fn
        return best

    def attach(self, program):
        """Functions the reviewed tree does not have were expanded into their callers (inline.py); their strings are
        reported with the strings of the function they were expanded into."""
        for b in program.lib_bodies():
            inl = b.raw.get("inlined")
            if not inl:
                continue
            host = self.fn_at(b.file, b.line)
            if host is None:
                continue
            for hp in inl:
                hb = program.helper_bodies.get(b.crate + "::" + hp)
                if hb is None:
                    continue
                hf = self.fn_at(hb.file, hb.line)
                if hf is not None and hf is not host:
                    self._extra.setdefault(id(host), {})[hp] = hf

    def _merged(self, fn):
        extra = self._extra.get(id(fn))
        if not extra:
            return fn
        m = dict(fn)
        for key in ("strings", "let_underscore"):
            m[key] = list(fn.get(key, []))
            for hf in {id(h): h for h in extra.values()}.values():
                m[key].extend(hf.get(key, []))
        m["merged_helpers"] = sorted(hf["name"] for hf in extra.values())
        m["helper_fns"] = dict(extra)      # MIR path of the expanded helper -> its source function
        m["own_strings"] = list(fn.get("strings", []))
        return m

    def file(self, path):
        return self.files.get(path)

    def cfgs(self, pred_contains=None):
        for p, f in self.files.items():
            for c in f["cfgs"]:
                if pred_contains is None or pred_contains in c["pred"]:
                    yield p, c

    def fns(self, path=None, name=None, impl=None):
        for p, f in self.files.items():
            if path is not None and not p.endswith(path):
                continue
            for fn in f["fns"]:
                if name is not None and fn["name"] != name:
                    continue
                if impl is not None and impl not in fn["impl"]:
                    continue
                yield p, self._merged(fn)

    def const(self, path, name):
        f = [f for p, f in self.files.items() if p.endswith(path)]
        for ff in f:
            for c in ff["consts"]:
                if c["name"] == name:
                    return c
        return None

    def enum(self, path, name):
        for p, f in self.files.items():
            if p.endswith(path):
                for e in f["enums"]:
                    if e["name"] == name:
                        return e
        return None

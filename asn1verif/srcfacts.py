"""Loader for the syntax facts written by tools/srcfacts."""
import json


class Source:
    def __init__(self, path):
        with open(path) as fh:
            raw = json.load(fh)
        self.files = {f["path"]: f for f in raw["files"]}

    def file(self, path):
        return self.files.get(path)

    def cfgs(self, pred_contains=None):
        for p, f in self.files.items():
            for c in f["cfgs"]:
                if pred_contains is None or pred_contains in c["pred"]:
                    yield p, c

    def fns(self, path=None, name=None, impl=None):
        for p, f in self.files.items():
            if path is not None and not p.endswith(path):
                continue
            for fn in f["fns"]:
                if name is not None and fn["name"] != name:
                    continue
                if impl is not None and impl not in fn["impl"]:
                    continue
                yield p, fn

    def const(self, path, name):
        f = [f for p, f in self.files.items() if p.endswith(path)]
        for ff in f:
            for c in ff["consts"]:
                if c["name"] == name:
                    return c
        return None

    def enum(self, path, name):
        for p, f in self.files.items():
            if p.endswith(path):
                for e in f["enums"]:
                    if e["name"] == name:
                        return e
        return None

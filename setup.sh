#!/bin/sh
# Builds the fact extractors offline (MANIFEST.setup_cmd). Idempotent.
set -e
cd "$(dirname "$0")"
export CARGO_NET_OFFLINE=true
python3 - <<'PY'
import sys
sys.path.insert(0, '.')
from asn1verif import extract
extract.build_tools(verbose=True)
print("tools built")
PY

use asn1rs_model::parse::Tokenizer;
use asn1rs_model::Model;

#[test]
fn f15a_min_to_5_becomes_unsigned() {
    let m = Model::try_from(Tokenizer::default().parse("M DEFINITIONS ::= BEGIN T ::= INTEGER (MIN..5) END")).unwrap().try_resolve().unwrap();
    let r = m.to_rust();
    let txt = format!("{:?}", r.definitions);
    assert!(txt.contains("U8("), "{}", txt);
}

#![recursion_limit = "512"]
use asn1rs::prelude::*;
use asn1rs::protocol::per::unaligned::BitRead;
use asn1rs::rw::UperReader as R;
use asn1rs::protocol::per::unaligned::buffer::Bits;

mod v1 {
    use asn1rs::prelude::*;
    asn_to_rust!(
        r"V1 DEFINITIONS AUTOMATIC TAGS ::= BEGIN
          S ::= SEQUENCE { a BOOLEAN, ..., b OCTET STRING OPTIONAL }
          D1 ::= SEQUENCE { a BOOLEAN, ... }
          One ::= SEQUENCE { v INTEGER (5..5) }
          E ::= ENUMERATED { x, y, ... }
        END"
    );
}
mod v2 {
    use asn1rs::prelude::*;
    asn_to_rust!(
        r"V2 DEFINITIONS AUTOMATIC TAGS ::= BEGIN
          S ::= SEQUENCE { a BOOLEAN, ..., b OCTET STRING OPTIONAL, c OCTET STRING OPTIONAL }
          D1 ::= SEQUENCE { a BOOLEAN, ..., d INTEGER (0..255) DEFAULT 5 }
          O1 ::= SEQUENCE { a BOOLEAN, ..., d INTEGER (0..255) OPTIONAL }
          Bs ::= SEQUENCE { b BIT STRING, s UTF8String }
        END"
    );
}

fn enc<T: Writable>(v: &T) -> (Vec<u8>, usize) {
    let mut w = UperWriter::default();
    w.write(v).unwrap();
    let n = w.bit_len();
    (w.into_bytes_vec(), n)
}

#[test]
fn f11a_read_bit_at_end_of_slice() {
    let data = [0xFFu8];
    let mut pos = 8usize;
    let r = std::panic::catch_unwind(move || {
        let mut t = (&data[..], &mut pos);
        t.read_bit().is_err()
    });
    assert_eq!(r.ok(), Some(true));
}

#[test]
fn f04d_bits_do_not_overread() {
    let data = [0xFFu8, 0xFF];
    let mut bits = Bits::from((&data[..], 3));
    let mut dst = [0u8; 1];
    assert!(bits.read_bits(&mut dst[..]).is_err());
    let _ = bits.remaining();
}

#[test]
fn f04a_ext_count_overflow() {
    // S: ext bit 1, a=0, then count as normally small >= 64: 1 + length(8) + FFx8
    let mut w = asn1rs::protocol::per::unaligned::buffer::BitBuffer::default();
    use asn1rs::protocol::per::unaligned::BitWrite;
    use asn1rs::protocol::per::PackedWrite;
    w.write_bit(true).unwrap();
    w.write_bit(false).unwrap();
    w.write_normally_small_non_negative_whole_number(u64::MAX).unwrap();
    for _ in 0..64 { w.write_bit(true).unwrap(); }
    let n = w.bit_len();
    let bytes: Vec<u8> = w.into();
    let r = std::panic::catch_unwind(move || {
        let mut r = R::from((&bytes[..], n));
        r.read::<v1::S>().is_err()
    });
    assert_eq!(r.ok(), Some(true));
}

#[test]
fn f04b_enum_ext_index_overflow() {
    let mut w = asn1rs::protocol::per::unaligned::buffer::BitBuffer::default();
    use asn1rs::protocol::per::unaligned::BitWrite;
    use asn1rs::protocol::per::PackedWrite;
    w.write_bit(true).unwrap();
    w.write_normally_small_non_negative_whole_number(u64::MAX).unwrap();
    let n = w.bit_len();
    let bytes: Vec<u8> = w.into();
    let r = std::panic::catch_unwind(move || {
        let mut r = R::from((&bytes[..], n));
        r.read::<v1::E>().is_err()
    });
    assert_eq!(r.ok(), Some(true));
}

#[test]
fn f05a_v1_decodes_under_v2() {
    let v = v1::S { a: true, b: Some(vec![0xAB; 200]) };
    let (bytes, n) = enc(&v);
    let mut r = R::from((&bytes[..], n));
    let d = r.read::<v2::S>().expect("V1 encoding must decode under V2");
    assert_eq!(d.a, true);
    assert_eq!(d.b, Some(vec![0xAB; 200]));
    assert_eq!(d.c, None);
    assert_eq!(r.bits_remaining(), 0);
}

#[test]
fn f05c_default_addition_is_open_type() {
    let d = v2::D1 { a: true, d: 7 };
    let o = v2::O1 { a: true, d: Some(7) };
    let (_, nd) = enc(&d);
    let (_, no) = enc(&o);
    assert_eq!(nd, no, "DEFAULT and OPTIONAL additions have the same open-type encoding");
    // and it round-trips
    let (bytes, n) = enc(&d);
    let mut r = R::from((&bytes[..], n));
    assert_eq!(r.read::<v2::D1>().unwrap(), d);
}

#[test]
fn f06a_single_value_range_rejects_other_values() {
    let mut w = UperWriter::default();
    assert!(w.write(&v1::One { v: 7 }).is_err());
    let mut w = UperWriter::default();
    assert!(w.write(&v1::One { v: 5 }).is_ok());
}

#[test]
fn f04h_protobuf_length_beyond_input() {
    // field 1, length delimited, announces 127 octets, 1 present
    let bytes = vec![0x0A, 0x7F, 0x41];
    let r = std::panic::catch_unwind(move || {
        let mut r = ProtobufReader::from(&bytes[..]);
        r.read::<v2::Bs>().is_err()
    });
    assert_eq!(r.ok(), Some(true));
}

#[test]
fn f04j_protobuf_short_bit_string() {
    // field 1 (b BIT STRING), length delimited, 2 octets
    let bytes = vec![0x0A, 0x02, 0x41, 0x42];
    let r = std::panic::catch_unwind(move || {
        let mut r = ProtobufReader::from(&bytes[..]);
        r.read::<v2::Bs>().is_err()
    });
    assert_eq!(r.ok(), Some(true));
}

#[test]
fn f04c_second_bitstring_fragment() {
    use asn1rs::protocol::per::PackedRead;
    // unconstrained BIT STRING: '11' + multiplier 1 (16384 bits), 2048 octets, then a fragment of 8 bits
    let mut bytes = vec![0xC1u8];
    bytes.extend(std::iter::repeat(0xAA).take(2048));
    bytes.push(0x08);
    bytes.push(0xFF);
    let r = std::panic::catch_unwind(move || {
        let mut pos = 0usize;
        let mut r = (&bytes[..], &mut pos);
        r.read_bitstring(None, None, false).map(|(b, l)| (b.len(), l, b[2048])).ok()
    });
    assert_eq!(r.ok(), Some(Some((2049, 16392, 0xFF))));
}

#[test]
fn f04l_open_type_content_cannot_leave_its_length() {
    use asn1rs::protocol::per::unaligned::buffer::BitBuffer;
    use asn1rs::protocol::per::unaligned::BitWrite;
    use asn1rs::protocol::per::PackedWrite;
    let mut w = BitBuffer::default();
    w.write_bit(true).unwrap(); // extension bit
    w.write_bit(true).unwrap(); // a
    w.write_normally_small_non_negative_whole_number(0).unwrap(); // one addition
    w.write_bit(true).unwrap(); // b present
    w.write_bits(&[0x01]).unwrap(); // open type: 1 octet
    w.write_bits(&[0x03, 0xAA, 0xBB, 0xCC]).unwrap(); // inner OCTET STRING claims 3 octets
    let n = w.bit_len();
    let bytes: Vec<u8> = w.into();
    let mut r = R::from((&bytes[..], n));
    assert!(r.read::<v1::S>().is_err());
}

#[test]
fn f10a_bitstring_fragmentation_round_trips() {
    use asn1rs::protocol::per::unaligned::buffer::BitBuffer;
    use asn1rs::protocol::per::{PackedRead, PackedWrite};
    for bits in [0u64, 1, 16383, 16384, 16385, 20000, 32768, 65535, 65536, 65537, 70000, 131072, 131077, 200001] {
        let bytes_len = ((bits + 7) / 8) as usize;
        let mut src: Vec<u8> = (0..bytes_len).map(|i| (i * 31 + 7) as u8).collect();
        if bits % 8 != 0 {
            let last = src.len() - 1;
            src[last] &= 0xFFu8 << (8 - bits % 8);
        }
        let mut w = BitBuffer::default();
        w.write_bitstring(None, None, false, &src, 0, bits).unwrap();
        let n = w.bit_len();
        let bytes: Vec<u8> = w.into();
        let mut pos = 0usize;
        let (buf, len) = {
            let mut r = (&bytes[..], &mut pos);
            r.read_bitstring(None, None, false).unwrap()
        };
        assert_eq!(len, bits, "bit length for {}", bits);
        assert_eq!(buf, src, "content for {}", bits);
        assert_eq!(pos, n, "consumed bits for {}", bits);
    }
}

#[test]
fn f10c_full_i64_range_round_trips() {
    use asn1rs::protocol::per::unaligned::buffer::BitBuffer;
    use asn1rs::protocol::per::{PackedRead, PackedWrite};
    for (lb, ub) in [(i64::MIN, i64::MAX), (i64::MIN, 0), (-1, i64::MAX), (1 << 61, 3 << 61), (i64::MIN, i64::MIN + 5)] {
        for v in [lb, ub, lb / 2 + ub / 2, lb + 1, ub - 1] {
            let mut w = BitBuffer::default();
            w.write_constrained_whole_number(lb, ub, v).unwrap();
            let n = w.bit_len();
            let bytes: Vec<u8> = w.into();
            let mut pos = 0usize;
            let mut r = (&bytes[..], &mut pos);
            assert_eq!(r.read_constrained_whole_number(lb, ub).unwrap(), v);
            assert_eq!(pos, n);
        }
    }
    // an offset beyond the range is an error, not a panic or a wrapped value
    let bytes = vec![0xFFu8; 8];
    let mut pos = 0usize;
    let mut r = (&bytes[..], &mut pos);
    assert!(r.read_constrained_whole_number(1 << 61, 3 << 61).is_err());
}

#[test]
fn f10_inadmissible_arguments_are_errors() {
    use asn1rs::protocol::per::unaligned::buffer::BitBuffer;
    use asn1rs::protocol::per::{PackedRead, PackedWrite};
    let r = std::panic::catch_unwind(|| {
        let mut w = BitBuffer::default();
        let a = w.write_non_negative_binary_integer(Some(10), Some(20), 5).is_err();
        let b = w.write_non_negative_binary_integer(Some(10), Some(5), 7).is_err();
        let c = w.write_non_negative_binary_integer(Some(10), Some(20), 25).is_err();
        let d = w.write_2s_compliment_binary_integer(65, 1).is_err();
        let e = w.write_enumeration_index(0, false, 0).is_err();
        let bytes = vec![0u8; 4];
        let mut pos = 0usize;
        let mut rd = (&bytes[..], &mut pos);
        let f = rd.read_enumeration_index(0, false).is_err();
        (a, b, c, d, e, f)
    });
    assert_eq!(r.ok(), Some((true, true, true, true, true, true)));
}

use asn1rs::protocol::per::unaligned::BitWrite;
fn get(b: &[u8], i: usize) -> bool { b[i / 8] & (0x80 >> (i % 8)) != 0 }
fn set(b: &mut [u8], i: usize, v: bool) { if v { b[i / 8] |= 0x80 >> (i % 8) } else { b[i / 8] &= !(0x80 >> (i % 8)) } }
#[test]
fn sweep_against_bit_vector_model() {
    let srcs: [[u8; 8]; 3] = [[0x00; 8], [0xFF; 8], [0xA5, 0x3C, 0x0F, 0xF0, 0x99, 0x66, 0x12, 0xED]];
    for src in srcs.iter() {
        for fill in [0x00u8, 0xFF, 0x5A] {
            for src_off in 0..8usize {
                for dst_pos in 0..17usize {
                    for len in 0..=48usize {
                        let mut dst = [fill; 10];
                        let mut model = [fill; 10];
                        for i in 0..len { let v = get(src, src_off + i); set(&mut model, dst_pos + i, v); }
                        let mut pos = dst_pos;
                        (&mut dst[..], &mut pos).write_bits_with_offset_len(src, src_off, len).unwrap();
                        assert_eq!(pos, dst_pos + len);
                        assert_eq!(dst, model, "fill={:02x} src_off={} dst_pos={} len={}", fill, src_off, dst_pos, len);
                    }
                }
            }
        }
    }
}

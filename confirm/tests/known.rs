// Demonstrations of defects that are recorded as known findings (not repaired): each test
// asserts that the current tree panics / misbehaves on the given input.
use asn1rs::protocol::per::unaligned::buffer::BitBuffer;
use asn1rs::protocol::per::unaligned::{BitRead, BitWrite};
use asn1rs::protocol::per::{PackedRead, PackedWrite};

fn panics<F: FnOnce() + std::panic::UnwindSafe>(f: F) -> bool {
    std::panic::catch_unwind(f).is_err()
}

#[test]
fn f10_semi_constrained_read_overflows() {
    // length 8, value 0x7FFF_FFFF_FFFF_FFFF, lower bound 1
    let mut bytes = vec![0x08u8, 0x7F];
    bytes.extend(std::iter::repeat(0xFF).take(7));
    assert!(panics(move || {
        let mut pos = 0usize;
        let mut r = (&bytes[..], &mut pos);
        let _ = r.read_semi_constrained_whole_number(1);
    }));
}


mod big {
    use asn1rs::prelude::*;
    asn_to_rust!(
        r"Big DEFINITIONS AUTOMATIC TAGS ::= BEGIN
          L ::= SEQUENCE OF BOOLEAN
          S ::= IA5String
        END"
    );
}

#[test]
fn f01a_sequence_of_20000_does_not_round_trip() {
    use asn1rs::prelude::*;
    let v = big::L(vec![true; 20000]);
    let mut w = UperWriter::default();
    w.write(&v).unwrap();
    let n = w.bit_len();
    let bytes = w.into_bytes_vec();
    let mut r = UperReader::from((&bytes[..], n));
    let d = r.read::<big::L>();
    assert!(d.is_err() || d.unwrap().0.len() != 20000 || r.bits_remaining() != 0);
}

#[test]
fn f01c_ia5string_20000_does_not_round_trip() {
    use asn1rs::prelude::*;
    let v = big::S("a".repeat(20000));
    let mut w = UperWriter::default();
    w.write(&v).unwrap();
    let n = w.bit_len();
    let bytes = w.into_bytes_vec();
    let mut r = UperReader::from((&bytes[..], n));
    let d = r.read::<big::S>();
    assert!(d.is_err() || d.unwrap().0.len() != 20000 || r.bits_remaining() != 0);
}

mod pb {
    use asn1rs::prelude::*;
    asn_to_rust!(
        r"Pb DEFINITIONS AUTOMATIC TAGS ::= BEGIN
          E ::= SEQUENCE { v INTEGER (-5..5, ...) }
          N ::= SEQUENCE { n NULL, x INTEGER (0..255) }
        END"
    );
}

#[test]
fn f17a_extensible_integer_truncated_by_protobuf() {
    use asn1rs::prelude::*;
    let v = pb::E { v: 1 << 40 };
    let mut w = ProtobufWriter::default();
    w.write(&v).unwrap();
    let bytes = w.into_bytes_vec();
    let mut r = ProtobufReader::from(&bytes[..]);
    let d = r.read::<pb::E>().unwrap();
    assert_ne!(d.v, 1 << 40);
}

#[test]
fn f18a_null_does_not_consume_a_field_number() {
    use asn1rs::prelude::*;
    let v = pb::N { n: Null, x: 9 };
    let mut w = ProtobufWriter::default();
    w.write(&v).unwrap();
    // x is written as field 1 (08 09) although the generated .proto numbers it 2
    assert_eq!(w.into_bytes_vec(), vec![0x08, 0x09]);
}

mod cv1 {
    use asn1rs::prelude::*;
    asn_to_rust!(
        r"CV1 DEFINITIONS AUTOMATIC TAGS ::= BEGIN
          S ::= SEQUENCE { a BOOLEAN, ..., b INTEGER (0..255) OPTIONAL }
          T ::= INTEGER (0..65535)
        END"
    );
}
mod cv2 {
    use asn1rs::prelude::*;
    asn_to_rust!(
        r"CV2 DEFINITIONS AUTOMATIC TAGS ::= BEGIN
          S ::= SEQUENCE { a BOOLEAN, ..., b INTEGER (0..255) OPTIONAL, c INTEGER (0..255) OPTIONAL }
          T ::= INTEGER (0..65535)
        END"
    );
}

#[test]
fn f05b_unknown_additions_are_not_skipped() {
    use asn1rs::prelude::*;
    let mut w = UperWriter::default();
    w.write(&cv2::S { a: true, b: Some(1), c: Some(2) }).unwrap();
    w.write(&cv2::T(0xABCD)).unwrap();
    let n = w.bit_len();
    let bytes = w.into_bytes_vec();
    let mut r = UperReader::from((&bytes[..], n));
    let s = r.read::<cv1::S>().unwrap();
    assert_eq!((s.a, s.b), (true, Some(1)));
    let t = r.read::<cv1::T>();
    // the sentinel that follows the V2 value is not read back correctly under V1
    assert!(t.is_err() || t.unwrap().0 != 0xABCD || r.bits_remaining() != 0);
}

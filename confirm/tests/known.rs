// Demonstrations of defects that are recorded as known findings (not repaired): each test
// asserts that the current tree panics / misbehaves on the given input.
use asn1rs::protocol::per::unaligned::buffer::BitBuffer;
use asn1rs::protocol::per::unaligned::{BitRead, BitWrite};
use asn1rs::protocol::per::{PackedRead, PackedWrite};

fn panics<F: FnOnce() + std::panic::UnwindSafe>(f: F) -> bool {
    std::panic::catch_unwind(f).is_err()
}

#[test]
fn f10_semi_constrained_read_overflows() {
    // length 8, value 0x7FFF_FFFF_FFFF_FFFF, lower bound 1
    let mut bytes = vec![0x08u8, 0x7F];
    bytes.extend(std::iter::repeat(0xFF).take(7));
    assert!(panics(move || {
        let mut pos = 0usize;
        let mut r = (&bytes[..], &mut pos);
        let _ = r.read_semi_constrained_whole_number(1);
    }));
}

#[test]
fn f10_constrained_read_overflows_for_wide_ranges() {
    let bytes = vec![0xFFu8; 8];
    assert!(panics(move || {
        let mut pos = 0usize;
        let mut r = (&bytes[..], &mut pos);
        let _ = r.read_constrained_whole_number(1 << 61, 3 << 61);
    }));
}

#[test]
fn f10c_full_i64_range_overflows() {
    assert!(panics(|| {
        let mut w = BitBuffer::default();
        let _ = w.write_constrained_whole_number(i64::MIN, i64::MAX, 0);
    }));
    let bytes = vec![0u8; 8];
    assert!(panics(move || {
        let mut pos = 0usize;
        let mut r = (&bytes[..], &mut pos);
        let _ = r.read_constrained_whole_number(i64::MIN, i64::MAX);
    }));
}

#[test]
fn f10a_bitstring_20000_bits_does_not_round_trip() {
    let src = vec![0x5Au8; 2500];
    let mut w = BitBuffer::default();
    w.write_bitstring(None, None, false, &src, 0, 20000).unwrap();
    let n = w.bit_len();
    let bytes: Vec<u8> = w.into();
    let r = std::panic::catch_unwind(move || {
        let mut pos = 0usize;
        let mut r = (&bytes[..n.div_ceil(8)], &mut pos);
        r.read_bitstring(None, None, false).map(|(b, l)| (b.len(), l)).ok()
    });
    // either a panic or not the original 20000 bits
    assert!(r.is_err() || r.unwrap() != Some((2500, 20000)));
}

#[test]
fn f10_write_nnbi_value_below_lower_panics() {
    assert!(panics(|| {
        let mut w = BitBuffer::default();
        let _ = w.write_non_negative_binary_integer(Some(10), Some(20), 5);
    }));
}

#[test]
fn f10_enumeration_index_zero_variants_panics() {
    assert!(panics(|| {
        let mut w = BitBuffer::default();
        let _ = w.write_enumeration_index(0, false, 0);
    }) || {
        let mut w = BitBuffer::default();
        w.write_enumeration_index(0, false, 0).is_err()
    });
}

#[test]
fn f10_2s_complement_bit_len_above_64_panics() {
    assert!(panics(|| {
        let mut w = BitBuffer::default();
        let _ = w.write_2s_compliment_binary_integer(65, 1);
    }));
}

mod big {
    use asn1rs::prelude::*;
    asn_to_rust!(
        r"Big DEFINITIONS AUTOMATIC TAGS ::= BEGIN
          L ::= SEQUENCE OF BOOLEAN
          S ::= IA5String
        END"
    );
}

#[test]
fn f01a_sequence_of_20000_does_not_round_trip() {
    use asn1rs::prelude::*;
    let v = big::L(vec![true; 20000]);
    let mut w = UperWriter::default();
    w.write(&v).unwrap();
    let n = w.bit_len();
    let bytes = w.into_bytes_vec();
    let mut r = UperReader::from((&bytes[..], n));
    let d = r.read::<big::L>();
    assert!(d.is_err() || d.unwrap().0.len() != 20000 || r.bits_remaining() != 0);
}

#[test]
fn f01c_ia5string_20000_does_not_round_trip() {
    use asn1rs::prelude::*;
    let v = big::S("a".repeat(20000));
    let mut w = UperWriter::default();
    w.write(&v).unwrap();
    let n = w.bit_len();
    let bytes = w.into_bytes_vec();
    let mut r = UperReader::from((&bytes[..], n));
    let d = r.read::<big::S>();
    assert!(d.is_err() || d.unwrap().0.len() != 20000 || r.bits_remaining() != 0);
}

use asn1rs_model::parse::Tokenizer;
use asn1rs_model::Model;
use asn1rs_model::asn::{Asn, Type, Size};

fn model(s: &str) -> asn1rs_model::Model<Asn> {
    Model::try_from(Tokenizer::default().parse(s)).unwrap().try_resolve().unwrap()
}

#[test]
fn f13a_block_comment_separates() {
    let a: Vec<String> = Tokenizer::default().parse("SEQUENCE/*c*/OF").into_iter().map(|t| format!("{:?}", t.text())).collect();
    let b: Vec<String> = Tokenizer::default().parse("SEQUENCE OF").into_iter().map(|t| format!("{:?}", t.text())).collect();
    assert_eq!(a, b);
}

#[test]
fn f12a_zero_ref_max_like_literal() {
    let a = model("M DEFINITIONS ::= BEGIN zero INTEGER ::= 0 T ::= INTEGER (zero..MAX) END");
    let b = model("M DEFINITIONS ::= BEGIN zero INTEGER ::= 0 T ::= INTEGER (0..MAX) END");
    assert_eq!(format!("{:?}", a.definitions), format!("{:?}", b.definitions));
}

#[test]
fn f12b_negative_size_reference_is_an_error() {
    let m = Model::try_from(Tokenizer::default().parse("M DEFINITIONS ::= BEGIN neg INTEGER ::= -1 T ::= OCTET STRING (SIZE(neg)) END")).unwrap();
    assert!(m.try_resolve().is_err());
}

#[test]
fn f09a_keyword_field() {
    let m = model("M DEFINITIONS ::= BEGIN T ::= SEQUENCE { match INTEGER, loop BOOLEAN } END");
    let r = m.to_rust();
    let mut gen = asn1rs_model::generate::rust::RustCodeGenerator::default();
    gen.add_model(r);
    use asn1rs_model::generate::Generator;
    let out = gen.to_string().unwrap();
    let code = &out[0].1;
    assert!(!code.contains("pub match:"), "{}", code);
    assert!(code.contains("match_"), "{}", code);
}

#[test]
fn f14a_self_import_is_a_resolve_error() {
    let m = Model::try_from(Tokenizer::default().parse("A DEFINITIONS ::= BEGIN IMPORTS x FROM A; T ::= INTEGER (0..x) END")).unwrap();
    let r = std::thread::Builder::new().stack_size(64 * 1024 * 1024).spawn(move || m.try_resolve().is_err()).unwrap().join();
    assert_eq!(r.ok(), Some(true));
}

#[test]
fn f14b_cyclic_type_alias_terminates() {
    let r = std::thread::Builder::new().stack_size(64 * 1024 * 1024).spawn(move || {
        let m = Model::try_from(Tokenizer::default().parse("M DEFINITIONS ::= BEGIN A ::= B B ::= A END")).unwrap();
        match m.try_resolve() {
            Ok(m) => { let _ = m.to_rust(); true }
            Err(_) => true,
        }
    }).unwrap().join();
    assert_eq!(r.ok(), Some(true));
}

use asn1rs::protocol::per::unaligned::BitWrite;
use asn1rs::protocol::per::unaligned::BitRead;

#[test]
fn f11b_write_does_not_touch_bits_behind_the_written_range() {
    let mut dst = [0xFFu8; 4];
    let mut pos = 4usize;
    (&mut dst[..], &mut pos).write_bits_with_len(&[0x00, 0x00, 0x00], 24).unwrap();
    assert_eq!(pos, 28);
    assert_eq!(dst, [0xF0, 0x00, 0x00, 0x0F]);
}

#[test]
fn f11b_read_into_offset_does_not_touch_bits_behind_the_range() {
    let src = [0x12u8, 0x34, 0x56];
    let mut pos = 0usize;
    let mut dst = [0xFFu8; 4];
    (&src[..], &mut pos).read_bits_with_offset_len(&mut dst, 4, 24).unwrap();
    assert_eq!(dst, [0xF1, 0x23, 0x45, 0x6F]);
}
